#!/usr/bin/env python3
"""Maintenance helper: run the claimed checks against every confirmed seeded change.
For each /verif/seeded/<name>: git -C /repo apply patch.diff; run the property's check (and, with --all, every claimed
check) without writing evidence; git -C /repo checkout -- . ; the outcome is stored in meta.json ('detection').
usage: python3-vt tools/run_seeded.py [--all] [name ...]"""
import json, os, subprocess, sys
sys.path.insert(0, os.path.dirname(os.path.dirname(os.path.abspath(__file__))))
from kdverif.__main__ import run_check

args = [a for a in sys.argv[1:] if not a.startswith("--")]
ALL = "--all" in sys.argv
claimed = [c["property_id"] for c in json.load(open("/verif/MANIFEST.json"))["checks"]]
root = "/verif/seeded"
names = args or sorted(os.listdir(root))
assert subprocess.run("git -C /repo status --porcelain --untracked-files=no", shell=True, capture_output=True,
                      text=True).stdout.strip() == "", "/repo not clean"
summary = []
for name in names:
    d = os.path.join(root, name)
    meta = json.load(open(os.path.join(d, "meta.json")))
    prop = meta["property"]
    r = subprocess.run(["git", "-C", "/repo", "apply", os.path.join(d, "patch.diff")], capture_output=True, text=True)
    if r.returncode != 0:
        print(name, "PATCH DOES NOT APPLY", r.stderr[:200])
        summary.append((name, prop, "patch-does-not-apply", []))
        continue
    try:
        det = {}
        for p in (claimed if ALL else [prop]):
            if p not in claimed:
                det[p] = {"status": "not-claimed"}
                continue
            rc, rep = run_check(p, "quick", write=False, quiet=True)
            det[p] = {"rc": rc, "violations": [f"{o.rule} | {o.func} | {o.construct} :: {o.detail[:200]}" for o in rep.fresh],
                      "errors": rep.errors}
    finally:
        subprocess.run("git -C /repo checkout -- .", shell=True)
    own = det.get(prop, {})
    status = "caught" if own.get("rc") == 1 else ("analysis-error" if own.get("rc") == 2 else
                                                   ("not-claimed" if own.get("status") else "missed"))
    others = [p for p, v in det.items() if p != prop and v.get("rc") == 1]
    meta["detection"] = {"status": status, "by_property_check": det, "also_flagged_by": others}
    json.dump(meta, open(os.path.join(d, "meta.json"), "w"), indent=1)
    summary.append((name, prop, status, own.get("violations", [])[:3]))
    print(f"{name}: {status}" + (f" (+{','.join(others)})" if others else ""))
    for v in own.get("violations", [])[:3]:
        print("    ", v[:230])
    for e in own.get("errors", [])[:2]:
        print("    ERR", e[:200])
