#!/usr/bin/env python3
"""Maintenance helper: run the claimed checks against every confirmed seeded change.
For each /verif/seeded/<name>: the patch is applied *in memory* (source overlays, /repo is not touched); the property's check
(and, with --all, every claimed check) runs without writing evidence; the outcome is stored in meta.json ('detection').
usage: python3-vt tools/run_seeded.py [--all] [name ...]"""
import concurrent.futures as cf
import json, os, sys
sys.path.insert(0, os.path.dirname(os.path.dirname(os.path.abspath(__file__))))

args = [a for a in sys.argv[1:] if not a.startswith("--")]
ALL = "--all" in sys.argv
claimed = [c["property_id"] for c in json.load(open("/verif/MANIFEST.json"))["checks"]]
root = "/verif/seeded"
names = args or sorted(os.listdir(root))


def one(name):
    from kdverif.__main__ import run_check
    from kdverif.patching import overlays_from_patch
    d = os.path.join(root, name)
    meta = json.load(open(os.path.join(d, "meta.json")))
    prop = meta["property"]
    overlays = overlays_from_patch("/repo", open(os.path.join(d, "patch.diff")).read())
    if overlays is None:
        return name, prop, "patch-does-not-apply", {}, []
    det = {}
    for p in (claimed if ALL else [prop]):
        if p not in claimed:
            det[p] = {"status": "not-claimed"}
            continue
        rc, rep = run_check(p, "quick", overlays=overlays, write=False, quiet=True)
        det[p] = {"rc": rc, "violations": [f"{o.rule} | {o.func} | {o.construct} :: {o.detail[:200]}" for o in rep.fresh],
                  "errors": rep.errors}
    own = det.get(prop, {})
    status = "caught" if own.get("rc") == 1 else ("analysis-error" if own.get("rc") == 2 else
                                                   ("not-claimed" if own.get("status") else "missed"))
    others = [p for p, v in det.items() if p != prop and v.get("rc") == 1]
    if not ALL:
        # keep the cross-detections recorded by an earlier --all run
        old = meta.get("detection", {}).get("by_property_check", {})
        for p, v in old.items():
            det.setdefault(p, v)
        others = [p for p, v in det.items() if p != prop and v.get("rc") == 1]
    meta["detection"] = {"status": status, "by_property_check": det, "also_flagged_by": others}
    json.dump(meta, open(os.path.join(d, "meta.json"), "w"), indent=1)
    return name, prop, status, own, others


if __name__ == "__main__":
    with cf.ProcessPoolExecutor(max_workers=min(14, len(names))) as ex:
        for name, prop, status, own, others in ex.map(one, names):
            print(f"{name}: {status}" + (f" (+{','.join(others)})" if others else ""))
            for v in own.get("violations", [])[:3]:
                print("    ", v[:230])
            for e in own.get("errors", [])[:2]:
                print("    ERR", e[:200])
