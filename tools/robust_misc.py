#!/usr/bin/env python3
"""Robustness exercises (maintenance helper): further behaviour-preserving whole-tree rewrites, each run through all claimed
checks via overlays.  modes: aug (x += e -> x = x + e for plain names), ret (return E -> tmp = E; return tmp for non-trivial E),
pass (insert a no-op statement after every simple statement).   usage: python3-vt tools/robust_misc.py <mode> [PROP ...]"""
import ast, os, sys, json
sys.path.insert(0, os.path.dirname(os.path.dirname(os.path.abspath(__file__))))
from kdverif.__main__ import run_check
from kdverif.model import Program
mode = sys.argv[1]

class T(ast.NodeTransformer):
    n = 0
    def visit_AugAssign(self, node):
        if mode == "aug" and isinstance(node.target, ast.Name) and isinstance(node.op, (ast.Add, ast.Sub)):
            T.n += 1
            return ast.copy_location(ast.Assign(targets=[ast.Name(node.target.id, ast.Store())],
                                                value=ast.BinOp(ast.Name(node.target.id, ast.Load()), node.op, node.value)), node)
        return node
    def _block(self, stmts):
        out = []
        for st in stmts:
            if mode == "ret" and isinstance(st, ast.Return) and st.value is not None and not isinstance(st.value, (ast.Name, ast.Constant)):
                T.n += 1
                out.append(ast.copy_location(ast.Assign(targets=[ast.Name("ret_value_", ast.Store())], value=st.value), st))
                out.append(ast.copy_location(ast.Return(ast.Name("ret_value_", ast.Load())), st))
            elif mode == "pass" and isinstance(st, (ast.Assign, ast.AugAssign, ast.Expr)):
                out.append(st)
                T.n += 1
                out.append(ast.copy_location(ast.Pass(), st))
            else:
                out.append(st)
        return out
    def generic_visit(self, node):
        super().generic_visit(node)
        for fld in ("body", "orelse", "finalbody"):
            v = getattr(node, fld, None)
            if isinstance(v, list) and v and isinstance(v[0], ast.stmt) and not isinstance(node, ast.Module):
                if mode == "ret" and any(isinstance(n, (ast.Yield, ast.YieldFrom)) for n in ast.walk(node)):
                    continue
                setattr(node, fld, self._block(v))
        return node

prog = Program("/repo", inline=False, normal=False)
ov = {}
for rel, src in prog.files.items():
    tree = T().visit(ast.parse(src))
    ast.fix_missing_locations(tree)
    ov[rel] = ast.unparse(tree)
    ast.parse(ov[rel])
print(mode, "rewrites:", T.n)
props = sys.argv[2:] or [c["property_id"] for c in json.load(open("/verif/MANIFEST.json"))["checks"]]
bad = 0
for p in props:
    rc, rep = run_check(p, "quick", overlays=ov, write=False, quiet=True)
    und = sum(o.verdict == "undecided" for o in rep.obs)
    if rc or und:
        print(p, "rc", rc, "undecided", und, rep.errors[:1], [f"{o.rule}:{o.func}:{o.construct}:{o.detail}"[:220] for o in rep.fresh][:4],
              [f"{o.rule}:{o.construct}"[:80] for o in rep.obs if o.verdict == "undecided"][:4])
    bad += rc != 0
print("bad:", bad)
