#!/usr/bin/env python3
"""Robustness exercises (maintenance helper): further behaviour-preserving whole-tree rewrites, each run through all claimed
checks via overlays.  modes: aug (x += e -> x = x + e for plain names), ret (return E -> tmp = E; return tmp for non-trivial E),
pass (insert a no-op statement after every simple statement), mirror (a < b -> b > a, a == b -> b == a, ... for single
comparisons of side-effect-free operands), demorgan (if a and b -> if not (not a or not b), if a or b -> if not (not a and not b)), kw2pos (calls of package functions /
methods with a package-wide unique name whose arguments are all given by keyword, in parameter order: keywords dropped), pos2kw (the reverse: positional arguments of such calls named), tmpcond (if COND: -> c = COND; if c:).   usage: python3-vt tools/robust_misc.py <mode> [PROP ...]"""
import ast, os, sys, json
sys.path.insert(0, os.path.dirname(os.path.dirname(os.path.abspath(__file__))))
from kdverif.__main__ import run_check
from kdverif.model import Program
mode = sys.argv[1]

class T(ast.NodeTransformer):
    n = 0
    def visit_AugAssign(self, node):
        if mode == "aug" and isinstance(node.target, ast.Name) and isinstance(node.op, (ast.Add, ast.Sub)):
            T.n += 1
            return ast.copy_location(ast.Assign(targets=[ast.Name(node.target.id, ast.Store())],
                                                value=ast.BinOp(ast.Name(node.target.id, ast.Load()), node.op, node.value)), node)
        return node
    def visit_Compare(self, node):
        self.generic_visit(node)
        flip = {ast.Lt: ast.Gt, ast.Gt: ast.Lt, ast.LtE: ast.GtE, ast.GtE: ast.LtE, ast.Eq: ast.Eq, ast.NotEq: ast.NotEq}
        simple = lambda e: not any(isinstance(y, (ast.Call, ast.Await, ast.Yield, ast.YieldFrom, ast.NamedExpr)) and not (
            isinstance(y, ast.Call) and isinstance(y.func, ast.Name) and y.func.id == "len") for y in ast.walk(e))
        if mode == "mirror" and len(node.ops) == 1 and type(node.ops[0]) in flip and simple(node.left) and simple(node.comparators[0]):
            T.n += 1
            return ast.copy_location(ast.Compare(left=node.comparators[0], ops=[flip[type(node.ops[0])]()], comparators=[node.left]), node)
        return node
    def visit_Call(self, node):
        self.generic_visit(node)
        if mode == "pos2kw" and node.args and not node.keywords and not any(isinstance(a, ast.Starred) for a in node.args):
            name = node.func.id if isinstance(node.func, ast.Name) else (
                node.func.attr if isinstance(node.func, ast.Attribute) and isinstance(node.func.value, ast.Name)
                and node.func.value.id == "self" else None)
            sig = SIGS.get(name)
            if sig is not None:
                params = sig[1:] if isinstance(node.func, ast.Attribute) else sig
                if len(node.args) <= len(params):
                    T.n += 1
                    return ast.copy_location(ast.Call(func=node.func, args=[], keywords=[
                        ast.keyword(arg=p_, value=a_) for p_, a_ in zip(params, node.args)]), node)
            return node
        if mode != "kw2pos" or node.args or not node.keywords or any(k.arg is None for k in node.keywords):
            return node
        name = node.func.id if isinstance(node.func, ast.Name) else (
            node.func.attr if isinstance(node.func, ast.Attribute) and isinstance(node.func.value, ast.Name)
            and node.func.value.id == "self" else None)
        sig = SIGS.get(name)
        if sig is None:
            return node
        params = sig[1:] if isinstance(node.func, ast.Attribute) else sig
        given = [k.arg for k in node.keywords]
        if given == params[:len(given)]:
            T.n += 1
            return ast.copy_location(ast.Call(func=node.func, args=[k.value for k in node.keywords], keywords=[]), node)
        return node
    def visit_If(self, node):
        self.generic_visit(node)
        if mode == "demorgan" and isinstance(node.test, ast.BoolOp) and len(node.test.values) == 2:
            T.n += 1
            inner = ast.BoolOp(op=ast.Or() if isinstance(node.test.op, ast.And) else ast.And(),
                               values=[ast.UnaryOp(ast.Not(), v) for v in node.test.values])
            node.test = ast.copy_location(ast.UnaryOp(ast.Not(), inner), node.test)
        return node
    def _block(self, stmts):
        out = []
        for st in stmts:
            if mode == "ret" and isinstance(st, ast.Return) and st.value is not None and not isinstance(st.value, (ast.Name, ast.Constant)):
                T.n += 1
                out.append(ast.copy_location(ast.Assign(targets=[ast.Name("ret_value_", ast.Store())], value=st.value), st))
                out.append(ast.copy_location(ast.Return(ast.Name("ret_value_", ast.Load())), st))
            elif mode == "tmpcond" and isinstance(st, ast.If) and not isinstance(st.test, (ast.Name, ast.Constant)) and \
                    not any(isinstance(y, (ast.NamedExpr, ast.Yield, ast.YieldFrom, ast.Await)) for y in ast.walk(st.test)):
                T.n += 1
                nm = f"cond_{T.n}_"
                out.append(ast.copy_location(ast.Assign(targets=[ast.Name(nm, ast.Store())], value=st.test), st))
                st.test = ast.copy_location(ast.Name(nm, ast.Load()), st.test)
                out.append(st)
            elif mode == "pass" and isinstance(st, (ast.Assign, ast.AugAssign, ast.Expr)):
                out.append(st)
                T.n += 1
                out.append(ast.copy_location(ast.Pass(), st))
            else:
                out.append(st)
        return out
    def generic_visit(self, node):
        super().generic_visit(node)
        for fld in ("body", "orelse", "finalbody"):
            v = getattr(node, fld, None)
            if isinstance(v, list) and v and isinstance(v[0], ast.stmt) and not isinstance(node, ast.Module):
                if mode == "ret" and any(isinstance(n, (ast.Yield, ast.YieldFrom)) for n in ast.walk(node)):
                    continue
                setattr(node, fld, self._block(v))
        return node

prog = Program("/repo", inline=False, normal=False)
# signatures of functions / methods whose name is defined exactly once in the package (no *args / **kwargs / keyword-only)
SIGS, _seen = {}, {}
for rel, src in prog.files.items():
    for y in ast.walk(ast.parse(src)):
        if isinstance(y, (ast.FunctionDef, ast.AsyncFunctionDef)):
            _seen[y.name] = _seen.get(y.name, 0) + 1
            a = y.args
            if not (a.vararg or a.kwarg or a.kwonlyargs or a.posonlyargs):
                SIGS[y.name] = [x.arg for x in a.args]
            else:
                SIGS[y.name] = None
SIGS = {k: v for k, v in SIGS.items() if v is not None and _seen[k] == 1 and not k.startswith("__")}
ov = {}
for rel, src in prog.files.items():
    tree = T().visit(ast.parse(src))
    ast.fix_missing_locations(tree)
    ov[rel] = ast.unparse(tree)
    ast.parse(ov[rel])
print(mode, "rewrites:", T.n)
props = sys.argv[2:] or [c["property_id"] for c in json.load(open("/verif/MANIFEST.json"))["checks"]]
bad = 0
for p in props:
    rc, rep = run_check(p, "quick", overlays=ov, write=False, quiet=True)
    und = sum(o.verdict == "undecided" for o in rep.obs)
    if rc or und:
        print(p, "rc", rc, "undecided", und, rep.errors[:1], [f"{o.rule}:{o.func}:{o.construct}:{o.detail}"[:220] for o in rep.fresh][:4],
              [f"{o.rule}:{o.construct}"[:80] for o in rep.obs if o.verdict == "undecided"][:4])
    bad += rc != 0
print("bad:", bad)
