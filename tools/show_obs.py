#!/usr/bin/env python3
"""Maintenance helper: list the obligations a check produces on /repo with a patch applied in memory.
usage: python3-vt tools/show_obs.py <patch|-> <PROP> [substring of rule/construct]"""
import os, sys
sys.path.insert(0, os.path.dirname(os.path.dirname(os.path.abspath(__file__))))
from kdverif.__main__ import run_check
from kdverif.patching import overlays_from_patch

patch, prop = sys.argv[1], sys.argv[2].upper()
flt = sys.argv[3] if len(sys.argv) > 3 else ""
ov = None if patch == "-" else overlays_from_patch("/repo", open(patch).read())
rc, rep = run_check(prop, "quick", overlays=ov, write=False, quiet=True)
print("rc", rc, "errors", rep.errors)
for o in rep.obs:
    if flt in o.rule or flt in o.construct or flt in o.verdict:
        print(f"{o.verdict[:5]:5} {o.rule} | {o.func} | {o.construct[:70]} :: {o.detail[:220]}")
