#!/usr/bin/env python3
"""Maintenance helper: obligations of one corpus mutant.  usage: python3-vt tools/show_mutant.py <PROP> <substring of mutant name> [filter]"""
import os, sys, traceback
sys.path.insert(0, os.path.dirname(os.path.dirname(os.path.abspath(__file__))))
from kdverif.selftest import corpus, _apply
from kdverif.__main__ import run_check
prop, sub = sys.argv[1].upper(), sys.argv[2]
flt = sys.argv[3] if len(sys.argv) > 3 else ""
mut, ben = corpus(prop)
for name, edits, *rest in list(mut) + list(ben):
    if sub in name:
        ov = _apply(edits, "/repo")
        print("==", name, rest)
        try:
            rc, rep = run_check(prop, "quick", overlays=ov, write=False, quiet=True)
        except Exception:
            traceback.print_exc(); continue
        print("rc", rc, rep.errors)
        for o in rep.obs:
            if o.verdict != "discharged" and (flt in o.rule or flt in o.construct):
                print(f"{o.verdict[:5]} {o.rule} | {o.func} | {o.construct[:60]} :: {o.detail[:300]}")
