#!/usr/bin/env python3
"""Maintenance helper: confirm a sub-agent's behaviour-preserving patch in a fresh scratch worktree (the demo of the seeded change it
neighbours still passes with it, baseline green) and file it under /verif/refactors.
usage: tools/benign.py <agent out dir of the patch> <demo.py> <name>   (e.g. /tmp/wt/S05/out/11b /tmp/wt/S05/out/11/demo.py C05-b11)"""
import json, os, shutil, subprocess, sys
src, demo, name = sys.argv[1:4]
wt = f"/tmp/wt/verify_{name}"
def sh(cmd, **kw):
    return subprocess.run(cmd, shell=True, capture_output=True, text=True, **kw)
sh(f"git -C /repo worktree remove --force {wt}")
r = sh(f"git -C /repo worktree add --detach {wt} HEAD")
assert r.returncode == 0, r.stderr
res = {}
try:
    r = sh(f"git -C {wt} apply {os.path.join(src, 'patch.diff')}")
    res["apply"] = r.returncode
    r = sh(f"cd {wt} && PYTHONPATH={wt} /venv/bin/python {demo}")
    res["demo_patched_exit"] = r.returncode
    r = sh(f"cd {wt} && /venv/bin/python /verif/tools/baseline_check.py {wt}")
    res["baseline_patched_exit"] = r.returncode
    res["baseline_patched"] = r.stdout.strip().splitlines()[-1] if r.stdout.strip() else ""
finally:
    sh(f"git -C /repo worktree remove --force {wt}")
ok = res.get("apply") == 0 and res.get("demo_patched_exit") == 0 and res.get("baseline_patched_exit") == 0
res["confirmed"] = ok
print(json.dumps(res, indent=1))
if ok:
    dst = f"/verif/refactors/{name}"
    os.makedirs(dst, exist_ok=True)
    shutil.copy(os.path.join(src, "patch.diff"), dst)
    notes = open(os.path.join(src, "notes.md")).read() if os.path.exists(os.path.join(src, "notes.md")) else ""
    open(os.path.join(dst, "notes.md"), "w").write(notes + "\n\n(confirmed: " + json.dumps(res) + ")\n")
