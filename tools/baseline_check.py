#!/usr/bin/env python3
"""Maintenance helper: run the pinned test command on /repo (or a given root) and compare with BASELINE.json.
usage: tools/baseline_check.py [root]"""
import json, subprocess, sys, os, tempfile
import xml.etree.ElementTree as ET
root = sys.argv[1] if len(sys.argv) > 1 else '/repo'
base = json.load(open('/root/.vp/BASELINE.json'))
want = set(base['stable_pass'])
fd, xml = tempfile.mkstemp(suffix='.xml'); os.close(fd)
cmd = f"cd {root} && /venv/bin/python -m pytest -ra -q -p no:cacheprovider --timeout=900 --continue-on-collection-errors --junitxml={xml}"
subprocess.run(cmd, shell=True, stdout=subprocess.DEVNULL, stderr=subprocess.DEVNULL)
passed = set(); failed = set()
for tc in ET.parse(xml).getroot().iter('testcase'):
    name = f"{tc.get('classname')}::{tc.get('name')}"
    if any(ch.tag in ('failure', 'error', 'skipped') for ch in tc):
        failed.add(name)
    else:
        passed.add(name)
os.remove(xml)
missing = sorted(want - passed)
print(f"baseline stable_pass={len(want)} now passed={len(passed)} failed={len(failed)} baseline-tests-not-passing={len(missing)} newly-passing={len(passed - want)}")
for m in missing[:20]:
    print("  NOT PASSING:", m)
sys.exit(1 if missing else 0)
