#!/usr/bin/env python3
"""Maintenance helper: behaviour-preserving refactorings must leave every claimed check silent.
For each <dir>/<k>/patch.diff: git -C /repo apply; run every claimed check (quick, no evidence written);
git -C /repo checkout -- . (and remove files the patch added).  Anything other than rc 0 is printed.
usage: python3-vt tools/run_refactors.py <dir with k/patch.diff> [...]"""
import json, os, re, subprocess, sys
sys.path.insert(0, os.path.dirname(os.path.dirname(os.path.abspath(__file__))))
from kdverif.__main__ import run_check

claimed = [c["property_id"] for c in json.load(open("/verif/MANIFEST.json"))["checks"]]
assert subprocess.run("git -C /repo status --porcelain", shell=True, capture_output=True,
                      text=True).stdout.strip() == "", "/repo not clean"
bad = 0
total = 0
for top in sys.argv[1:]:
    for k in sorted(os.listdir(top)):
        p = os.path.join(top, k, "patch.diff")
        if not os.path.isfile(p):
            continue
        total += 1
        r = subprocess.run(["git", "-C", "/repo", "apply", p], capture_output=True, text=True)
        if r.returncode != 0:
            print(p, "PATCH DOES NOT APPLY", r.stderr[:200])
            continue
        try:
            for prop in claimed:
                rc, rep = run_check(prop, "quick", write=False, quiet=True)
                if rc != 0:
                    bad += 1
                    print(f"{p}: {prop} rc={rc}")
                    for o in rep.fresh[:6]:
                        print("     ", f"{o.rule} | {o.func} | {o.construct} :: {o.detail[:260]}")
                    for e in rep.errors[:4]:
                        print("      ERR", e[:300])
        finally:
            subprocess.run("git -C /repo checkout -- . && git -C /repo clean -fdq", shell=True)
print("patches:", total, "bad:", bad)
