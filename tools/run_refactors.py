#!/usr/bin/env python3
"""Maintenance helper: behaviour-preserving refactorings must leave every claimed check silent.
Each /verif/refactors/<name>/patch.diff (or <dir>/<k>/patch.diff given on the command line) is applied *in memory* (source
overlays, /repo is not touched); every claimed check runs (quick, no evidence written).  Anything other than rc 0 is printed.
usage: python3-vt tools/run_refactors.py [<dir with k/patch.diff> | <name in /verif/refactors> ...]"""
import concurrent.futures as cf
import json, os, sys
sys.path.insert(0, os.path.dirname(os.path.dirname(os.path.abspath(__file__))))

claimed = [c["property_id"] for c in json.load(open("/verif/MANIFEST.json"))["checks"]]


def patches(argv):
    out = []
    tops = argv or ["/verif/refactors"]
    for top in tops:
        if not os.path.isdir(top) and os.path.isdir(os.path.join("/verif/refactors", top)):
            top = os.path.join("/verif/refactors", top)
        if os.path.isfile(os.path.join(top, "patch.diff")):
            out.append(os.path.join(top, "patch.diff"))
            continue
        for k in sorted(os.listdir(top)):
            p = os.path.join(top, k, "patch.diff")
            if os.path.isfile(p):
                out.append(p)
    return out


def one(p):
    from kdverif.__main__ import run_check
    from kdverif.patching import overlays_from_patch
    overlays = overlays_from_patch("/repo", open(p).read())
    if overlays is None:
        return p, [("-", "PATCH DOES NOT APPLY", [], [])]
    res = []
    for prop in claimed:
        rc, rep = run_check(prop, "quick", overlays=overlays, write=False, quiet=True)
        if rc != 0:
            res.append((prop, rc, [f"{o.rule} | {o.func} | {o.construct} :: {o.detail[:260]}" for o in rep.fresh[:6]],
                        [e[:300] for e in rep.errors[:4]]))
    return p, res


if __name__ == "__main__":
    ps = patches(sys.argv[1:])
    bad = 0
    with cf.ProcessPoolExecutor(max_workers=min(14, max(1, len(ps)))) as ex:
        for p, res in ex.map(one, ps):
            for prop, rc, vio, errs in res:
                bad += 1
                print(f"{p}: {prop} rc={rc}")
                for v in vio:
                    print("     ", v)
                for e in errs:
                    print("      ERR", e)
    print("patches:", len(ps), "bad:", bad)
