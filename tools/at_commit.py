#!/usr/bin/env python3
"""Maintenance helper: run a check against /repo as of an older commit (source overlays; nothing is checked out).
usage: python3-vt tools/at_commit.py <PROP> <commit-ish>"""
import subprocess, sys, os
sys.path.insert(0, os.path.dirname(os.path.dirname(os.path.abspath(__file__))))
from kdverif.__main__ import run_check
prop, rev = sys.argv[1], sys.argv[2]
files = subprocess.run(["git", "-C", "/repo", "diff", "--name-only", rev, "HEAD", "--", "kappadata"],
                       capture_output=True, text=True, check=True).stdout.split()
ov = {}
for f in files:
    r = subprocess.run(["git", "-C", "/repo", "show", f"{rev}:{f}"], capture_output=True, text=True)
    ov[f] = r.stdout if r.returncode == 0 else None
rc, rep = run_check(prop, "quick", overlays=ov, write=False)
for o in rep.fresh:
    print("KEY", o.key())
sys.exit(rc)
