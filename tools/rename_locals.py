#!/usr/bin/env python3
"""Robustness exercise (maintenance helper, not a check): rename every function-local variable of every kappadata module
(a behaviour-preserving edit) and run all claimed checks on the renamed tree via source overlays.  Any VIOLATION or
ANALYSIS-ERROR is a dependence of a rule on local names.   usage: python3-vt tools/rename_locals.py [PROP ...]"""
import ast, os, sys, symtable, json
sys.path.insert(0, os.path.dirname(os.path.dirname(os.path.abspath(__file__))))
from kdverif.__main__ import run_check
from kdverif.model import Program


class Renamer(ast.NodeTransformer):
    def __init__(self, src, path):
        self.tab = symtable.symtable(src, path, "exec")
        self.stack = []

    def _locals(self, node, tab):
        names = set()
        if any(isinstance(n, (ast.FunctionDef, ast.AsyncFunctionDef, ast.Lambda, ast.ClassDef)) for n in ast.walk(node) if n is not node):
            return names  # nested scopes: leave alone (free variables)
        params = {a.arg for a in node.args.posonlyargs + node.args.args + node.args.kwonlyargs}
        if node.args.vararg: params.add(node.args.vararg.arg)
        if node.args.kwarg: params.add(node.args.kwarg.arg)
        for s in tab.get_symbols():
            if s.is_local() and not s.is_parameter() and s.get_name() not in params and not s.is_global() \
                    and not s.get_name().startswith("__") and s.get_name() != "_":
                names.add(s.get_name())
        # comprehension variables live in their own scopes: names assigned only there are not in this table
        return names

    def visit_FunctionDef(self, node):
        tab = None
        def find(t):
            for ch in t.get_children():
                if ch.get_name() == node.name and ch.get_lineno() == node.lineno:
                    return ch
                r = find(ch)
                if r: return r
            return None
        tab = find(self.tab)
        names = self._locals(node, tab) if tab is not None else set()
        # names used inside comprehensions of this function that refer to the function's locals must be renamed too;
        # comprehension-bound names are left alone
        comp_bound = set()
        for n in ast.walk(node):
            if isinstance(n, ast.comprehension):
                for y in ast.walk(n.target):
                    if isinstance(y, ast.Name): comp_bound.add(y.id)
        names -= comp_bound
        if names:
            mapping = {nm: f"v{i}_{abs(hash((node.name, nm))) % 97}" for i, nm in enumerate(sorted(names))}
            for n in ast.walk(node):
                if isinstance(n, ast.Name) and n.id in names:
                    n.id = mapping[n.id]
            Renamer.count = getattr(Renamer, "count", 0) + len(names)
        self.generic_visit(node)
        return node
    visit_AsyncFunctionDef = visit_FunctionDef


def main():
    prog = Program("/repo", inline=False, normal=False)
    overlays = {}
    for rel, src in prog.files.items():
        try:
            tree = ast.parse(src)
            new = Renamer(src, rel).visit(tree)
            out = ast.unparse(new)
            ast.parse(out)
            overlays[rel] = out
        except Exception as e:
            print("skip", rel, e)
    print("renamed locals:", getattr(Renamer, "count", 0))
    props = sys.argv[1:] or [c["property_id"] for c in json.load(open("/verif/MANIFEST.json"))["checks"]]
    bad = 0
    for p in props:
        rc, rep = run_check(p, "quick", overlays=overlays, write=False, quiet=True)
        und = sum(o.verdict == "undecided" for o in rep.obs)
        print(p, "rc", rc, "obligations", len(rep.obs), "undecided", und, "errors", rep.errors[:1], [f"{o.rule}:{o.construct}"[:80] for o in rep.fresh][:4])
        bad += rc != (0)
    sys.exit(1 if bad else 0)

main()
