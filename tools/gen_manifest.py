#!/usr/bin/env python3
"""Maintenance helper: regenerate MANIFEST.json from the table below (claimed checks + not-applicable list)."""
import json
import subprocess

PROPS = [json.loads(l) for l in open('/verif/properties.jsonl')]

NOTE = ("Trusted base: the frozen effect / identity tables in kdverif (one reason per row), name-based resolution of "
        "the source as written (no monkey patching), third-party functional ops deterministic in their arguments. "
        "The check decides the listed structural clauses on every path of the current source - it does not decide "
        "the value-level behaviour of the property (see DESIGN.md section 4, 'N' lists).")

ALSO = {
    "C01": "no loader closure created in the constructor's loops reads a loop-bound variable as a free variable (late binding).",
    "C02": "__getattr__ of every dataset layer stores nothing on self (no instance-dict memo), so a delegated attribute cannot go "
           "stale after the wrapped dataset changes.",
    "C03": "no constructor parameter is re-bound from its own previous value inside a loop (a request is not narrowed cumulatively "
           "across classes / rounds); the bulk readers getall* / class-count helpers store nothing on the dataset they read.",
    "C04": "_training_loop writes no attribute of the sampler inside its loops: iteration progress is local and cannot leak from an "
           "abandoned iteration into the next.",
    "C06": "every random draw in __iter__ of a package sampler uses a generator created or re-seeded inside that call (the j-th pass "
           "of an object equals the first pass of a fresh object).",
    "C07": "torch draws with generator=self.<attr> count as uncontrolled when set_rng does not overwrite that attribute (a lazily "
           "derived generator is never invalidated by a re-injection).",
    "C08": "a wrapper that stores a seed and applies owned transforms constructs its generator in a method that receives the index "
           "(a generator bound at construction or at worker start does not make sample i a function of (seed, i)).",
    "C09": "a generator kept in an attribute of a dataset layer and drawn from per sample is re-assigned by that layer's worker hook.",
    "C10": "random partners are drawn as a permutation (the per-sample path scales partner rows in place); no class-level container "
           "shared by all instances receives values that depend on instance attributes its key does not depend on.",
    "C11": "to_one_hot_vector / to_one_hot_matrix return a tensor built in the call, never part of a module-level or memoised object "
           "(the label is mixed in place).",
    "C12": "every rank split - also one on a fast path - is followed by the cut to len(self) before its yield; the rank / world-size "
           "helpers are not memoised.",
    "C13": "__iter__ consumes no iterator that was created outside it and kept on the sampler; the bulk label readers store nothing "
           "on the dataset they read.",
    "C14": "image extents passed to package functions keep their axis: the (width, height) of get_image_size - also splatted - and "
           "names bound from them meet parameters of the same unit.",
    "C15": "no class-level container shared by all instances receives instance-dependent values (original bounds kept per instance).",
    "C16": "label accessors and shape queries write nothing onto the wrapper; the index map of an index-translating wrapper is never "
           "used as a store position of the bulk result.",
    "C17": "collate of the mask collators writes nothing onto the collator; a flat patch index r * S + c uses the column extent as "
           "stride; no freshly built default argument (a shared step counter) is kept by an instance.",
    "C19": "the object handed to the post-cache transform is not the cached object (known finding on the pinned tree: in-place "
           "transforms rewrite tensor entries of the Manager dict).",
    "C18": "KDComposeCollator.__call__ goes through _call_impl with the composite's own configuration on every path; collate of the "
           "padding collator writes nothing onto the collator; in the per-field loop of the padding collator no value computed from one field's data survives into the collation of a "
           "later field.",
}

ALSO3 = {
    "C01": "the fuse bookkeeping is followed by role (lists built locally and published into self.fused_items / self.fused_to_idxs); "
           "an element-wise slice / index-list path that runs the loaders itself normalises a negative list entry first.",
    "C02": "a table-driven __getattr__ keys its handlers by the part of the name before the first separator (a key cut at the last "
           "separator misses item names that contain it).",
    "C03": "a collection argument whose absence is marked by None is not also branched on by truth value (an empty selection is not "
           "'no selection').",
    "C04": "the stop condition, as a boolean function of the path conditions, equals under each single budget kind that budget's "
           "comparison with the counter of its own unit; a budget converted between updates and samples through the batch size "
           "outside a drop_last branch is reported; set_epoch precedes the point where an islice over the main sampler is created.",
    "C05": "the condition under which a config's pass runs - OR over all paths of their branch conditions, boolean locals substituted - "
           "equals OR over the interval kinds of (configured AND unit test) on the full truth table of its atomic tests (replaces "
           "the store-shaped decision rules); a verdict read from the previous config iteration is reported.",
    "C06": "merged completion branches are found on the CFG pruned by 'exactly start_<X> is given'.",
    "C08": "a complete seeding pre-pass over the member list (no early exit) counts as injection for every element.",
    "C10": "a per-sample paste takes its source row from the partner of the target row (row i of a partner-ordered gather, row "
           "perm[i] of a plain clone).",
    "C11": "in 'pad_or_cut_end' the padding amounts sit in the 'after' slots of the list handed to pad; the constructor's fuse "
           "bookkeeping rules of C01 (declared order, membership scope, paired appends, append-only) are part of this check.",
    "C12": "the epoch attribute does not occur only inside the fall-back arm of an 'or' in the seed; a draw shortened before "
           "repeat_interleave keeps ceil(len / num_repeats) entries; a global cut to len(self) * world size before an open-ended "
           "rank split is accepted as the truncation.",
    "C13": "the semi-supervised stream is recognised position-wise (i % (L+U) < L) or chunk-wise (divmod / islice of the pool "
           "iterators: L then U per full chunk, min(rest, L) then max(rest - L, 0) at the end).",
    "C14": "an extent measured with get_image_size / get_dimensions is not used after the image was re-bound by an operation that "
           "changes that axis.",
    "C15": "a _scale_strength never branches on the truth value of a constructed original (0 is a legal original); the drop_last and "
           "non-drop_last arms of the schedule length divide one and the same per-rank length.",
    "C16": "a label composed as low + (x % K) * S uses stride x modulus = the class count declared by getshape_class; every return "
           "of a label-rewriting getitem_class that tests for the unlabeled marker lies behind that test (pass-through returns "
           "excepted).",
    "C17": "whenever a context is given, every normal return of collate is preceded on every path by the store of each mask entry the "
           "collator produces.",
    "C18": "the collator pipeline is checked as a typestate model (loop body interpreted over its flags for every mode, return_ctx "
           "setting and reachable state; properties stated on ghost state 'collated' / 'context split'); a field reaches pad_sequence "
           "exactly if it is a tensor of rank >= 1 (path conditions of the pad_sequence / default_collate calls, ranks 0..4).",
    "C19": "a cache.get(idx) look-up counts as a hit only under 'idx in cache' or 'value is not None or idx in cache' (a cached None "
           "is a hit).",
    "C20": "marker order is judged on the feasible runs of the abstract interpreter (flags and persistent state followed); crash "
           "points are named by (effect, situation the call started in).",
}

ALSO4 = {
    "C02": "with balanced sampling the part list is built from the configured parts only; the name of a bulk helper is formed by "
           "prefix removal (lstrip strips characters).",
    "C04": "a main loop that takes its indices in chunks from one iter(self.main_sampler) per epoch is reported once as a "
           "construction the per-index rules do not decide; set_epoch before that iterator is taken is still decided.",
    "C05": "several spellings of a pass in exclusive branches are each judged; a pass emitted as one batch (flag at the last "
           "position only) stands behind len(config.sampler) <= config.batch_size or self.batch_size.",
    "C06": "whatever __init__ stores besides the checkpoint is computed, along every def-use chain and in every case 'checkpoint "
           "given as epoch / update / sample / not at all', from completed components - never from a start_* parameter that may "
           "still be None.",
    "C07": "a hook that walks a filtered view of the member list (constructor-made list, property, local, zip with a repeated "
           "argument) is judged like a guarded walk over the members: the filter (isinstance / boolean property / hasattr, any "
           "and / or / not combination) is evaluated per class that needs the hook, properties resolved through that class's MRO; "
           "constructing a class whose constructor chain calls get_rng_from_global on a __call__ path is reported (behind a "
           "memo-miss test: undecided).",
    "C08": "getitem methods store nothing on the instance, including in-place writes through rows handed out from a "
           "constructor-made table; a predicate property that decides whether a member gets a generator is evaluated per class.",
    "C09": "filtered views of member lists and per-class guard evaluation as for C07; a loop over a proper slice of the members "
           "does not cover them.",
    "C10": "what is gathered through the partner index is read before any write of the mix to the gathered tensor, and the partner "
           "index is never the destination of a scatter.",
    "C11": "a label vector written slot by slot into a fresh zero tensor adds the later weight (the two class slots coincide "
           "whenever the partner has the same class).",
    "C12": "the arithmetic rank split rank + world * arange(k) with its wrap-around is recognised; the slot is wrapped before it "
           "is divided by the repeat count.",
    "C14": "the four amounts of an explicit padding carry the axes (W, H, W, H).",
    "C16": "labels gathered for all ranks are read through the index table (gather), never written through it (scatter).",
    "C19": "any other method of a cache class that reads the wrapped dataset does so under a miss test on the cache itself, or on "
           "a snapshot of its keys that learns every key it loads before the next index.",
    "C20": "the result of an executor's map / submit in the unzip helpers is consumed, so that worker exceptions reach the "
           "caller before the end marker is written.",
}

ALSO5 = {
    "C01": "the mode helpers compute positions on the tokenised mode, never on the mode string (mode.index / 'in mode'); the "
           "search loop over the fused groups is left early only after the fused entry was registered (its else clause "
           "registers the plain item).",
    "C02": "the bulk helpers hand their own dataset and item on to getall.",
    "C03": "a quotient that is rounded up is a true division (ceil(a // b) rounds nothing).",
    "C04": "the stop condition is evaluated in the three orderings counter < / = / > budget (spelling-independent).",
    "C06": "dimensional analysis of the checkpoint completion over samples / updates / epochs (batch sizes: samples per update; "
           "epoch lengths: per epoch): each derived component has its own unit.",
    "C07": "the ready-made pipelines construct no torchvision transform that draws by itself.",
    "C10": "shuffle hands the permutation it drew back to its caller; the mode helpers used to read / write items work on the "
           "tokenised mode.",
    "C12": "an explicitly given rank / world size is what the constructor stores ('rank and get_rank()' is reported).",
    "C13": "effective_length follows the three documented length modes (polynomial identity per mode); the seed of the weighted "
           "sampler's draw does not depend on the rank; explicit rank / world size are used.",
    "C14": "a recorded extent (og_h / og_w) is measured on the version of the image the recorded operation is applied to.",
    "C16": "per-sample and bulk accessor mark a sample unlabeled by the same threshold comparison with the same strictness; the "
           "stride of a two-digit label whose low digit is a quotient is a rounded-up quotient.",
    "C18": "KDSingleCollatorWrapper returns (batch, ctx) exactly when self.return_ctx is true.",
    "C19": "__getattr__ never looks the requested name up on self again (unbounded recursion on copied / unpickled instances).",
    "C20": "start and end marker are files directly inside the destination folder of the copy.",
}

CLAIMS = {
    "C17": ("dominance / guard rules on the mask-writing paths, polynomial block bounds, dependence of block sizes on the step-seeded generator",
            "Decides: KDDinoMaskCollator generates masks only for masks[i], i < int(batch_size * num_views * mask_prob), out of "
            "batch_size * num_views empty masks; _generate_mask passes total - done and adds exactly the returned count; every "
            "write in _mask_block is dominated by 'unmasked patches in block <= remaining budget' and the count grows exactly "
            "where a patch is newly set; all block offsets (both collators) satisfy lo >= 0 and hi - 1 + extent <= grid extent "
            "of their axis, I-JEPA block sizes are clamped to extent - 1; the I-JEPA size generator is "
            "torch.Generator().manual_seed(self.step()), _sample_block_size draws only from it, step() increments and reads "
            "the counter under its lock; encoder masks are constrained by the complements of the same sample's predictor "
            "masks; every mask updates the running minimum and all are cut to it before collation; both collate methods "
            "return the batch unmodified. Ratio limits, disjointness, sortedness as tensor facts are not decided."),
    "C20": ("crash-closure typestate: abstract interpretation of the copy functions over a finite persistent-state domain, closed under 'die after / inside any effect, run again'",
            "Decides for copy_folder_from_global_to_local and its image-folder twin, over the closure of persistent states "
            "(folder present, start marker, end marker, data none/partial/complete, origin user/auto) reachable through any "
            "number of interrupted attempts: (I1) a normal return leaves complete data unless the folder is user-provided - "
            "reported per crash point; (I2) a folder with both markers is never deleted or re-copied; (I3) was_copied / "
            "was_deleted are true exactly on runs that copied / deleted; (I4) start marker, copy, end marker in this order on "
            "every path; (I5) both functions have the same abstraction. Six crash windows of I1 (three per function) are "
            "genuine defects of the pinned tree, listed in known_findings.json and reported as KNOWN-FINDING. Byte identity "
            "and durability are not decided."),
    "C14": ("polynomial bound facts with clamp case-splits, dimensional (axis-unit) analysis, def-use identity of recorded parameters, paired-operation path rules, pattern isomorphism, rational-function identity",
            "Decides: for the 10 offset draws of the crop / erase transforms, lo >= 0 and hi - 1 + extent <= image dimension "
            "as polynomial facts (max/min case-split, dominating branch conditions), row offsets paired with height, column "
            "offsets with width; a dimensional analysis of KDRandomResizedCrop.get_params (W, H, ratio = W/H) types every "
            "assignment / comparison and the result (H, W, H, W), covering the central-crop fallback's aspect convention; "
            "every geometric value recorded in ctx is the same variable version that is passed to the applied crop in the "
            "matching argument position, and no recorded object lives on the transform; in every semseg transform image and "
            "mask pass through the same operation with identical geometry arguments and no re-drawn geometry reaches one "
            "member without the other; Unpatchify* patterns mirror Patchify* up to axis renaming with matching ctx keys; "
            "denormalize(normalize(x)) simplifies to x for both norms. Output sizes / interpolation / float equality are "
            "not decided."),
    "C01": ("escape / def-use analysis of the per-sample context, pairing rules on the fuse / un-fuse loops, index-form normalisation, sibling tokenisers",
            "Decides in ModeWrapper: the context given to the loaders is a dict created in the same invocation (None when none "
            "is propagated), dominates the loader loop, is never stored on self, and is the object returned with return_ctx; "
            "loaders are called as loader(idx, ctx); the result is items[0] iff one item else tuple(items), the pair iff "
            "return_ctx; un-fusing stores component j of result i at fused_idxs[j] (plain results at their position) with "
            "one enumerate each; the constructor collects a fused group's positions by iterating the declared group in order, "
            "tests membership against the whole item list, pairs every position append with one loader-name append and adds "
            "exactly one loader per item; a negative index is normalised to len+idx before any loader runs (in the loop's "
            "function or at each of its call sites), slices / lists are served through self[i]; the ctx.<key> key is the item "
            "minus exactly the tested prefix; all tokenisers use one separator and only mode_wrapper.py splits modes; "
            "get_item / set_item / TorchWrapper address batch[index of item]; declared fused groups have projection "
            "accessors. Delivered values for arbitrary mode strings are not decided."),
    "C03": ("RNG-source typing, falsy-zero default analysis against the constructor's own validators, loop-progress guards, dependence sets",
            "Decides for the 10 selection-wrapper constructors: generators are default_rng(seed=<seed parameter>), the global "
            "NumPy RNG (np.random / GlobalRng) is bound or drawn from only under 'seed is None', a class object used as a "
            "generator is only asked for class-level attributes; no 'p = p or D' with non-zero D on an argument for which "
            "the constructor's own validation admits 0; every 'while v > 0' loop decrements by a positive constant or by "
            "the number taken from a pool whose non-emptiness is guarded before the loop; the indices handed to the subset "
            "base depend on every constructor argument (assert-only arguments exempt); no unbound names. The index list "
            "as a value (multiset / permutation / partition) is not decided."),
    "C02": ("index-space typing of the layer accessors, translation summaries compared between siblings, chain-continuation analysis",
            "Decides: KDSubset calls the wrapped accessor with self.indices[idx] and re-indexes the wrapped bulk result by "
            "self.indices in subset order (also the sampler weights); KDConcatDataset takes (part, local) from "
            "_to_concat_idx(idx) or the balanced round-robin with the modulus over the same part, looks the accessor up on "
            "that part, concatenates bulk results over all parts in order; __getattr__ routes getitem_*/getall_* to the "
            "matching handler; _to_concat_idx, _InterleavedConcatDataset.__getitem__ and the installed torch "
            "ConcatDataset.__getitem__ have one translation summary (negative, bisect_right, local offset); each of the 3 "
            "layer classes continues each of the 11 root-semantics members of KDDataset into the wrapped dataset(s) on every "
            "return / path (or resolves it through a delegating __getattr__), overriding subclasses keep the chain; the bulk "
            "helpers' fast / slow paths call getall_<item> / getitem_<item>(i) for i in range(len) and return what they "
            "loaded. Composed maps as values are not decided."),
    "C16": ("interception / index-space / dependence-set agreement between getitem_class and getall_class, borrowed-value mutation",
            "Decides for the 13 KDWrapper subclasses defining getitem_class: a wrapper that rewrites labels per sample also "
            "provides getall_class (else __getattr__ serves stale labels; 3 representation-changing wrappers exempt by "
            "table); own accessors are called with untranslated, the wrapped dataset's accessors with translated indices; "
            "the values returned in bulk depend on every configuration attribute the per-sample values depend on, under "
            "the configurations the bulk accessor does not reject (backward slices through helpers); a value borrowed from "
            "the wrapped dataset's bulk accessor is never written in place; constructors draw only from a generator seeded "
            "by the seed argument (GlobalRng only under seed None); label smoothing mass n*off + (on - off) = 1 with n = "
            "getdim_class(); one-hot via to_one_hot_vector; no unbound names. Label ranges / element-wise equality as "
            "values are not decided."),
    "C15": ("affine normal forms with end-point substitution and interval tables, read/write sets, hook propagation",
            "Decides for every _scale_strength of the transform family and MagnitudeSampler.scale_strength: each written "
            "attribute is affine in the factor (inside max/min clamps, int/float conversions), equals its constructed "
            "original (og_* partner from the constructor) at factor 1 with clamps non-binding over the original's range, "
            "and the identity point of the frozen table at factor 0; no value is computed from an attribute that scaling "
            "writes (no compounding); og_* attributes are written in constructors only; every class owning scalable "
            "members forwards scale_strength(<received factor>) to each of them; KDScheduledTransform computes the batch "
            "index (sample_counter // batch_size) * num_workers + rank, evaluates the schedule there, increments the "
            "counter by 1 afterwards, applies and reports the same strength, scales before applying. Sampled parameter "
            "values and partial batches are not decided."),
    "C11": ("dependence sets, def-use pairing of own/partner loads and polynomial normal forms in KDMixWrapper.getitem_xclass",
            "Decides: all draws of getitem_xclass are on one generator variable, built in the call from exactly {self.seed, "
            "idx} when a seed is set (get_rng_from_global otherwise), no global-RNG draw; partner data and label are "
            "loaded with one partner index drawn once over len(self), own data and label with idx; data and label are "
            "mixed as own*L + partner*(1-L) with the same drawn lambda, own with partner of the same item, after the shape "
            "unification on every mixing path; every return's label passed to_one_hot_vector(..., n_classes="
            "self.getdim_class()); the fused group ['x','class'] is declared and getitem_x / getitem_class are components "
            "0 / 1 of getitem_xclass(idx, ctx=ctx). Sum-to-one and pad/cut arithmetic as values are not decided."),
    "C10": ("def-use threading of the partner permutation, polynomial normal forms of the mixes, taint-typed per-sample indexing",
            "Decides in KDMixCollator: every shuffle passes and rebinds one permutation variable and shuffle() reuses a given "
            "permutation (same partner for image and label); every in-place mix is own*L + partner*(1-L) with L the "
            "variable reported as ctx['lambda'] (no re-definition in between) and partner a shuffle of the same item; every "
            "paste uses identical regions on both sides with the box unpacked from get_random_bbox in slice order, whose "
            "area-corrected lambda replaces the drawn one; inside the per-sample loop every tensor derived from rng draws "
            "is indexed by the loop variable; set_item writes back exactly the fetched items, binary labels are squeezed "
            "back iff unsqueezed; get_random_bbox clamps row/column edges to [0,h]/[0,w], stacks them (top,left,bot,right) "
            "and returns 1 - (bot-top)(right-left)/(hw). Pixel-fraction identity as tensor values is not decided."),
    "C18": ("guard-flag typestate on the CFG of KDCollatorBase._call_impl, def-use identity of the context at every collate call site",
            "Decides: every default_collate(batch) in _call_impl is reached only under a known-False 'collated' flag that is "
            "set in the same loop step on every path, one flag for all sites (collation at most once for any order of "
            "before/after/None collators); every context split is guarded by a flag, sets one of its guards, and any two "
            "split sites block each other; (batch, ctx) is returned iff return_ctx; at every call of a member's collate "
            "the result is bound whole to the batch, the ctx argument is a local and that local is what is returned as "
            "context; PadSequencesCollator appends every field exactly once, pads rank>=1 tensor fields with "
            "pad_sequence([b[i] for b in batch], batch_first=True) and default-collates the others with the same i. "
            "Context contents and padded values are not decided."),
    "C19": ("path obligations on the CFG of the cache lookup and the post-cache transform",
            "Decides for every CachedDataset implementation: the wrapped dataset is read only under 'idx not in cache' with "
            "the index parameter itself as key; the loaded value is stored under that key before returning and is the "
            "value returned; hits return cache[idx] of the same key; dispose() empties the cache on every path; the cache "
            "container is created per instance; CachedDataset.__getitem__ returns transform(_cached_getitem(idx)) exactly "
            "when a transform is set, else the cached sample, and stores nothing; __len__ is len(dataset). Multi-process "
            "sharing and value equality are not decided."),
    "C12": ("dependence sets of generator seeds, slice-shape and dominance rules on the samplers' __iter__",
            "Decides for ClassBalancedSampler, WeightedSampler and the repeated-augmentation path of DistributedSampler (and "
            "RandomSampler's repeat path): every draw takes generator=<torch.Generator seeded by an expression depending on "
            "self.seed and the attribute set_epoch writes, and on nothing rank-dependent>; no global-RNG draw; the rank "
            "split is the strided slice [rank : total : world] followed on every path by the truncation to len(self); "
            "__len__ = effective_length // world size; repeat_interleave(num_repeats)[:len(dataset)] dominates the rank "
            "split; no unbound names (the padding path). Equal length / reassembly as list values is not decided."),
    "C13": ("shape agreement and dependence sets on the composition loops of the three samplers",
            "Decides: SemiSampler - all draws take generator=, the stream seed depends on seed, rank and epoch; position i is "
            "labeled iff i % (L+U) < L; each branch indexes its own pool with an iterator built over the same pool; the pool "
            "iterator yields whole permutations endlessly; the stream has len(self) positions. WeightedSampler - "
            "multinomial(weights, effective_length, replacement=False). ClassBalancedSampler - per class the remaining "
            "count starts at samples_per_class, each round appends pool[perm[:remaining]] with perm over len(pool) of the "
            "same pool and decrements by the number taken. Exact counts / evenness as values are not decided."),
    "C04": ("CFG dominance / must-pass, counter typestate and normal-form comparison on InterleavedSampler._training_loop",
            "Decides on every path of _training_loop / _InterleavedBatchSampler.__iter__: set_epoch(<epoch counter>) precedes "
            "each epoch's iteration (guarded by hasattr only); sample / in-epoch / in-update counters +1 exactly once per "
            "main index before it is yielded, progress counters monotone, resets only at unit boundaries; the batch-closing "
            "flag condition equals the update condition; the stopping test sits in the update block after increments and "
            "interleaved passes and compares each budget with the counter of its own unit (samples with >=); the remainder "
            "is dropped only at the epoch end after the stopping test; epoch length formula (len | (len // b) * b with "
            "b = drop_last_batch_size if given else batch_size); the batch sampler emits exactly at flagged indices into "
            "fresh lists and asserts an empty remainder. Stream values for concrete (N, B, budget) are not decided."),
    "C05": ("path conditions of the pass as a boolean function (truth table over role-classified atomic tests), unit typing of "
            "interval tests, offset/index pairing and sibling summaries",
            "Decides: the condition under which a config's pass runs equals OR over the interval kinds of (interval configured "
            "AND its unit test) - no interval kind cancels another, no verdict leaks from the previous config; each interval "
            "kind is tested against the progress counter of its own "
            "unit, in the form counter % n == 0 (or the crossing form for samples), the epoch verdict requiring the epoch "
            "end; the config loop lies in the update block after the increments on every path, in config order; the "
            "'sample count at last update' is refreshed only after it; every pass index is index_offsets[k] + i with k, i "
            "from the same config step, every sampler element yielded once, flag = counter % (config.batch_size or "
            "self.batch_size) == 0 or counter == len(sampler); _eval_loop and the training pass have equal summaries; "
            "zero budget routes to _eval_loop which visits every config unconditionally; index_offsets is the prefix sum "
            "matching the order of the concat dataset parts and of the collator list; the collator dispatches on the "
            "(asserted unique) dataset index; _InterleavedConcatDataset.__getitem__ is the concat translation."),
    "C06": ("backward-slice dependence sets, case-wise pruned-CFG normal forms compared between constructor and loop",
            "Decides: epoch / update / sample counters and every local that copies a progress counter start from the "
            "checkpoint value of their own unit; __init__ stores the checkpoint component-wise; each derived checkpoint "
            "component depends on every geometry input its true value depends on (or the branch rejects the configuration "
            "by raising); for each geometry case (no drop_last | drop_last | drop_last_batch_size) the samples-per-epoch "
            "factor used to complete start_sample equals the epoch length _training_loop uses under the same assumptions "
            "(constructor asserts propagated), and updates-per-epoch is its ceiling division by batch_size; the zero-budget "
            "route asserts a zero checkpoint. Equality of two whole runs is not decided."),
    "C07": ("hook-propagation + RNG-source dataflow over the class hierarchy",
            "Decides, for all 81 classes of the KDTransform family and their ready-made pipelines at once: (1) set_rng "
            "reaches every owned member that holds a generator on every path (isinstance guards must admit every "
            "class that needs it), (2) every generator attribute is overwritten by set_rng, (3) every draw reachable "
            "from __call__ is on the controlled generator - no process-global / unseeded / uncontrolled draw, (4) "
            "get_rng_from_global only in constructors and worker hooks, (5) no unbound names. Necessary conditions "
            "of 'equal seeds => equal outputs, global RNG untouched'; value equality itself is not decided."),
    "C08": ("dependence-set + dominance analysis of the seeded getitem paths",
            "Decides for the 13 seeded sample-wrapper classes: under 'seed is not None' the per-sample generator is "
            "built in the call from exactly {self.seed, idx} (affine, non-zero coefficients), is injected into every "
            "owned transform that may hold a generator before that transform is applied (dominance on the pruned CFG), "
            "all other draws are on that generator, getitem methods store nothing into self, idx is handed through."),
    "C09": ("hook-propagation analysis of the worker_init_fn chain",
            "Decides: every dataset layer forwards worker_init_fn(rank, **kwargs) to what it wraps on every path; every "
            "dataset-family class owning transforms forwards the hook to each of them; KDTransform / collators re-seed "
            "via set_rng(get_rng_from_global()) whose seed depends only on a draw from the global NumPy RNG; collator "
            "composites forward set_rng; no generator in a getitem path may be built without a seed (OS entropy)."),
}

NA_REASON = "check under construction in this session (planned clauses: DESIGN.md section 4)"


def main():
    commits = subprocess.run("git -C /repo log --format=%h --grep '^fix:' d5c9574..HEAD", shell=True,
                             capture_output=True, text=True).stdout.split()
    checks = []
    for p in PROPS:
        pid = p["id"]
        if pid not in CLAIMS:
            continue
        tech, text = CLAIMS[pid]
        if pid in ALSO:
            text = text + " Also decided (added with the second round of independent changes): " + ALSO[pid]
        if pid in ALSO3:
            text = text + " Added / re-founded with the third round (clean-ups with one buried mistake, and their repaired twins): " \
                + ALSO3[pid]
        if pid in ALSO4:
            text = text + " Added with the fourth round (optimisation / API-extension commits with one buried mistake, and their " \
                "repaired twins): " + ALSO4[pid]
        if pid in ALSO5:
            text = text + " Added with the fifth round (small slips with benign neighbours on the same lines): " + ALSO5[pid]
        checks.append({
            "property_id": pid,
            "quick_cmd": f"./check {pid} quick",
            "thorough_cmd": f"./check {pid} thorough",
            "evidence_file": f"/verif/evidence/{pid}.json",
            "replay_cmd_template": "./check --explain {path}",
            "engine": "kdverif",
            "level_claimed": {"category": "other", "text": text, "design_ref": f"DESIGN.md section 4, {pid}"},
            "level_note": NOTE,
            "technique": "static analysis: " + tech,
        })
    m = {
        "version": 1,
        "setup_cmd": "true",
        "hooks": {
            "guard": "BENEDIKTALKIN_KAPPADATA_VERIF",
            "enable": "no hooks: the checks parse /repo's source; nothing in /repo is instrumented or executed",
            "baseline_off_cmd": "cd /repo && /venv/bin/python -m pytest -ra -q -p no:cacheprovider --timeout=900 "
                                "--continue-on-collection-errors",
            "source_commits": [],
            "add_only": True,
        },
        "engines": [{"name": "kdverif", "path": "kdverif", "serves_properties": sorted(CLAIMS),
                     "kind_free_text": "repository-specific static analyser: program model + per-function CFG, "
                                       "dominators, reaching definitions, symbolic normal forms (ast + networkx), "
                                       "run with python3-vt; nothing from /repo is imported or executed"}],
        "checks": checks,
        "notes": "exit codes: 0 = all obligations discharged (KNOWN-FINDING lines allowed), 1 = VIOLATION, 2 = "
                 "ANALYSIS-ERROR (vanished anchor / instance floor not met / analyser crash) - never a verdict. No hooks: "
                 "hooks.source_commits is empty. Repairs of genuine defects are the unguarded 'fix:' commits of /repo ("
                 + ", ".join(commits[::-1]) + "), each recorded as 'fixed' in known_findings.json; the six known C20 crash "
                 "windows are recorded there as 'known'. Independent seeded changes: /verif/seeded (see DESIGN.md section 6).",
        "not_applicable": [{"property_id": p["id"], "reason": NA_REASON} for p in PROPS if p["id"] not in CLAIMS],
    }
    json.dump(m, open('/verif/MANIFEST.json', 'w'), indent=1)
    print(f"{len(checks)} checks, {len(m['not_applicable'])} not applicable, {len(commits)} fix commits")


if __name__ == "__main__":
    main()
