#!/usr/bin/env python3
"""Differential self-test of the normal form (kdverif/normal.py + kdverif/inline.py): a synthetic package with the helper /
spelling patterns the passes rewrite is executed twice - as written and after normalisation (ast.unparse of the rewritten
trees) - on a grid of inputs; results, yielded sequences, raised exception types and the order of observable side effects
must agree.  Also compiles the normalised tree of every module of /repo (well-formedness).
This tests the *machinery*; it executes only the synthetic package, never the repository.
usage: python3-vt tools/test_normal_form.py"""
import ast, itertools, os, shutil, sys, tempfile, types
sys.path.insert(0, os.path.dirname(os.path.dirname(os.path.abspath(__file__))))
from kdverif.model import Program

SRC = r'''
LOG = []
_NAME = "marker.txt"


def use_cond_tmp(a, b):
    c = _log(a) > b
    if c:
        return ("gt", a)
    d = _log(b) > 0
    if d:
        r = ("pos", d)
    else:
        r = ("neg", b)
    e = a == b
    if e:
        return r, "eq"
    return r, e


def _log(x):
    LOG.append(x)
    return x


def _is_big(a, b):
    return a > b and a > 0


def _clip(v, lo, hi):
    if v < lo:
        return lo
    if v > hi:
        return hi
    return v


def _pair(a, b):
    s = a + b
    d = a - b
    return s, d


def _gen(xs, k):
    for x in xs:
        if x % k == 0:
            yield x


def _first_even(xs):
    for x in xs:
        if x % 2 == 0:
            return x
    return None


def _find(xs, lo, hi):
    n = 0
    while n < len(xs):
        v = xs[n]
        if v < lo:
            n += 1
            continue
        if v > hi:
            return ("high", n)
        if v == lo:
            return ("exact", n)
        n += 2
    return ("none", n)


def _two_yields(xs):
    for x in xs:
        if x < 0:
            yield -x
        yield x


def use_find(xs, lo):
    kind, pos = _find(xs, lo, lo + 5)
    return kind + str(pos)


def use_find_test(xs, lo):
    if _find(xs, lo, lo + 5)[0] == "none":
        return 0
    return 1


def use_two_yields(xs):
    out = []
    for v in _two_yields(xs):
        out.append(v + 1)
    return out


def use_bounds(a, b):
    t = (a, b, a + b)
    p, q, r = t
    return p * q - r


def _mutate(lst, v):
    lst.append(v)


def _reassign(x, n):
    x = x + n
    x = x * 2
    return x


def _list_of(xs):
    return [x + 1 for x in xs]


def use_pred(a, b):
    if _is_big(a, b):
        return "big"
    return "small"


def use_clip(v):
    r = _clip(v, 0, 10)
    return r + 1


def use_clip_ret(v):
    return _clip(v, -3, 3)


def use_pair(a, b):
    s, d = _pair(a, b)
    return s * d


def use_pair_attr(a, b):
    o = types_ns()
    o.s, o.d = _pair(a, b)
    return o.s - o.d


def types_ns():
    class NS:
        pass
    return NS()


def use_gen(xs, k):
    out = []
    for v in _gen(xs, k):
        out.append(v * 2)
    return out


def use_gen_yield_from(xs, k):
    yield from _gen(xs, k)
    yield -1


def use_list_yield_from(xs):
    yield from _list_of(xs)


def use_first_even(xs):
    r = _first_even(xs)
    if r is not None:
        return r * 10
    return -1


def use_mutate(v):
    acc = []
    _mutate(acc, v)
    _mutate(acc, v + 1)
    return acc


def use_reassign(x, n):
    y = _reassign(x, n)
    return x, y


def use_reassign_dead(x, n):
    y = _reassign(x, n)
    return y + n


def use_reassign_loop(x, n):
    out = []
    for k in range(3):
        y = _reassign(x, n + k)
        out.append((x, y))
    return out


def use_reassign_ret(x, n):
    return _reassign(x, n)


def use_aug(xs):
    total = []
    for x in xs:
        total += _list_of([x])
    return total


def use_order(a):
    r = _log(a) + _clip(_log(a + 1), 0, 5)
    return r, list(LOG)


def use_tuple_assign(a, b):
    a, b = b, a
    x, y = a + 1, b + 1
    return a, b, x, y


def use_chain(a):
    p = q = 0
    p, q = p + a, q - a
    return p, q


def use_ifexp(a):
    x = a + 1 if a > 0 else a - 1
    return x


def use_enum(xs):
    out = []
    for c, x in enumerate(xs, start=1):
        out.append((c, x))
    return out


def use_while(n):
    out = []
    while True:
        if not n > 0:
            break
        out.append(n)
        n -= 2
    return out


def use_displays(a):
    xs = list()
    d = dict()
    xs += [a]
    d.update(k=a, j=a + 1)
    return xs, d, xs[0:1], xs[slice(0, 1)]


def use_comp_dispatch(fs, v):
    rs = [f(v) for f in fs]
    return rs


def use_const():
    return _NAME


def _evens(xs, kind=int):
    return [x for x in xs if isinstance(x, kind) and x % 2 == 0]


def _scaled(xs, by=(2, 3)):
    return [x * by[0] + by[1] for x in xs]


def use_filter_loop(xs):
    out = []
    for x in _evens(xs):
        out.append(_log(x))
    return out


def use_filter_loop_tmp(xs):
    out = []
    sel = [x for x in xs if x > 1]
    for v in sel:
        if v == 9:
            continue
        out.append(_log(v))
    else:
        out.append("done")
    return out


def use_proj_loop(xs):
    out = []
    x = 100
    for y in _scaled(xs):
        out.append(y + x)
        if y > 20:
            break
    return out, x


def use_genexp_loop(xs):
    out = []
    for v in (_log(x) for x in xs if x != 3):
        out.append(v)
    return out


def use_display_loop(a, b):
    out = []
    for v in [a, b, a + b]:
        out.append(_log(v) * 2)
    for w in (a,):
        out.append(w)
    return out


class _Opt:
    def __init__(self, has):
        if has:
            self.ping = lambda v: _log(("ping", v))


def use_getattr_method(has, n):
    o = _Opt(has)
    f = getattr(o, "ping", None)
    out = []
    for i in range(n):
        if f is not None:
            out.append(f(i))
    if f:
        out.append("yes")
    return out


def use_quantifiers(a, b):
    xs = [a, b, 3]
    r1 = all(x is None or x > 0 for x in xs)
    r2 = any(x == 0 for x in [a, b])
    b = b + 1
    r3 = any(x == 1 for x in xs)
    return r1, r2, r3, all(isinstance(x, int) for x in (a,))


def use_range_len(xs):
    out = []
    for i in range(len(xs)):
        out.append((i, _log(xs[i]) + xs[i]))
    return out


def use_range_len_store(xs):
    xs = list(xs)
    for i in range(len(xs)):
        xs[i] = xs[i] + 1
        _log(xs[i])
    return xs


def use_enum_sub(xs):
    out = []
    for i, x in enumerate(xs):
        out.append(xs[i] * 2 + x)
    return out


def use_display_loop_rebind(a, b):
    out = []
    for v in [a, b]:
        b = b + 1
        out.append(v + b)
    return out


class K:
    def __init__(self, n):
        self.n = n
        self.log = []

    def _bump(self, by):
        self.n += by
        return self.n

    def _check(self):
        if self.n > 5:
            return True
        return False

    def _items(self):
        for i in range(self.n):
            if i % 2:
                yield i

    @staticmethod
    def _twice(v):
        return v * 2

    def run(self, by):
        v = self._bump(by)
        if self._check():
            self.log.append("hi")
        w = K._twice(v)
        return v, w, self.log, [i for i in self._items()]

    def loop(self):
        out = []
        for i in self._items():
            out.append(i)
        return out

    def ret(self, by):
        return self._bump(by)

    @classmethod
    def _geom(cls, a, b):
        lo, hi = cls._order(a, b)
        return hi - lo, cls.__name__

    @staticmethod
    def _order(a, b):
        if a <= b:
            return a, b
        return b, a

    def geom(self, by):
        d, name = self._geom(self.n, by)
        return d, name, self._geom(by, 2)

    def _chunk(self, k, log):
        out = []
        left = k
        while left > 0:
            take = min(left, 2)
            out.append((k, take))
            log.append(k)
            left -= take
        return out

    def chunks(self, by):
        log = []
        flat = tuple([c for k in range(self.n) if k != by for c in self._chunk(k, log)])
        acc = []
        for c in self._chunk(by, log):
            acc.append(c)
        return flat, acc, log

    @property
    def _odd_items(self):
        return [i for i in range(self.n) if i % 2]

    def prop(self, by):
        out = []
        for i in self._odd_items:
            out.append(i + by)
        return out, self._odd_items
'''


def build(src, tag):
    m = types.ModuleType("tpkg_" + tag)
    exec(compile(src, "tpkg_" + tag, "exec"), m.__dict__)
    return m


def outcome(mod, name, args):
    mod.LOG.clear()
    try:
        f = getattr(mod, name)
        r = f(*args)
        if isinstance(r, types.GeneratorType):
            r = ("gen", list(r))
        return ("ok", repr(r), list(mod.LOG))
    except Exception as e:  # noqa
        return ("exc", type(e).__name__, list(mod.LOG))


def main():
    tmp = tempfile.mkdtemp(prefix="nf_")
    try:
        os.makedirs(os.path.join(tmp, "tpkg"))
        open(os.path.join(tmp, "tpkg", "__init__.py"), "w").write("")
        open(os.path.join(tmp, "tpkg", "m.py"), "w").write(SRC)
        prog = Program(tmp, pkg="tpkg")
        m = prog.by_relpath["tpkg/m.py"]
        norm_src = ast.unparse(m.tree)
        n_inl = len(prog.inliner.inlined)
    finally:
        shutil.rmtree(tmp, ignore_errors=True)
    a, b = build(SRC, "orig"), build(norm_src, "norm")
    ints = [-4, -1, 0, 1, 3, 7, 12]
    lists = [[], [1], [2, 3], [1, 3, 5], [4, 6, 9, 12], [5, 4, 3, 2, 1], [-2, 7, -1, 0], [0, 2, 9]]
    cases = []
    for x, y in itertools.product(ints, ints):
        for f in ("use_cond_tmp", "use_quantifiers", "use_display_loop", "use_display_loop_rebind", "use_pred", "use_pair", "use_pair_attr", "use_reassign", "use_reassign_ret", "use_tuple_assign", "use_bounds", "use_reassign_dead", "use_reassign_loop"):
            cases.append((f, (x, y)))
    for x in ints:
        for f in ("use_clip", "use_clip_ret", "use_mutate", "use_order", "use_chain", "use_ifexp", "use_while", "use_displays"):
            cases.append((f, (x,)))
    for xs in lists:
        for f in ("use_first_even", "use_aug", "use_enum", "use_list_yield_from", "use_filter_loop", "use_filter_loop_tmp",
                  "use_proj_loop", "use_genexp_loop", "use_range_len", "use_range_len_store", "use_enum_sub"):
            cases.append((f, (xs,)))
        for f in ("use_two_yields",):
            cases.append((f, (xs,)))
        for lo in (0, 2, 4):
            cases.append(("use_find", (xs, lo)))
            cases.append(("use_find_test", (xs, lo)))
        for k in (1, 2, 3):
            cases.append(("use_gen", (xs, k)))
            cases.append(("use_gen_yield_from", (xs, k)))
    cases.append(("use_const", ()))
    for has in (True, False):
        for n in (0, 2):
            cases.append(("use_getattr_method", (has, n)))
    cases.append(("use_comp_dispatch", ([abs, str, lambda v: v + 1], 3)))
    bad = 0
    for f, args in cases:
        ra, rb = outcome(a, f, args), outcome(b, f, args)
        if ra != rb:
            bad += 1
            print("MISMATCH", f, args, ra, rb)
    for n in (0, 3, 6, 9):
        for by in (0, 1, 4):
            for meth in ("run", "ret", "prop", "geom", "chunks"):
                ra = repr(getattr(a.K(n), meth)(by))
                rb = repr(getattr(b.K(n), meth)(by))
                if ra != rb:
                    bad += 1
                    print("MISMATCH K.", meth, n, by, ra, rb)
            if repr(a.K(n).loop()) != repr(b.K(n).loop()):
                bad += 1
                print("MISMATCH K.loop", n)
    print(f"synthetic package: {len(cases)} function cases + class cases, {n_inl} helper calls inlined, mismatches: {bad}")
    # well-formedness of the normal form of the real package
    prog = Program("/repo")
    n = 0
    for rel, mod in sorted(prog.by_relpath.items()):
        try:
            compile(ast.unparse(mod.tree), rel, "exec")
            n += 1
        except SyntaxError as e:
            bad += 1
            print("NORMAL FORM DOES NOT COMPILE", rel, e)
    print(f"/repo: normal form of {n} modules compiles; {len(prog.inliner.inlined)} helper calls inlined")
    if "--show" in sys.argv:
        print(norm_src)
    sys.exit(1 if bad else 0)


if __name__ == "__main__":
    main()
