#!/usr/bin/env python3
"""Maintenance helper (never used by checks): add an entry to known_findings.json.
usage: tools/kf.py fixed|known <property> <key> <commit|-> <what>"""
import json, sys
status, prop, key, commit, what = sys.argv[1:6]
p = '/verif/known_findings.json'
d = json.load(open(p))
e = {"property": prop, "key": key, "status": status, "what": what}
if commit != '-':
    e["commit"] = commit
d["findings"] = [x for x in d["findings"] if not (x["property"] == prop and x["key"] == key)] + [e]
json.dump(d, open(p, 'w'), indent=1)
