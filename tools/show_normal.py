#!/usr/bin/env python3
"""Maintenance helper: print the normal form (after normal.py + inline.py) of one function, optionally with a patch applied
in memory.  usage: show_normal.py [--patch <file>] [--raw] <Class> <method>   |   ... - <func> <relpath>"""
import ast, os, sys
sys.path.insert(0, os.path.dirname(os.path.dirname(os.path.abspath(__file__))))
from kdverif.model import Program
from kdverif.patching import overlays_from_patch
argv = sys.argv[1:]
ov = None
raw = False
while argv and argv[0].startswith("--"):
    if argv[0] == "--patch":
        ov = overlays_from_patch("/repo", open(argv[1]).read()); argv = argv[2:]
    elif argv[0] == "--raw":
        raw = True; argv = argv[1:]
p = Program("/repo", overlays=ov) if ov else Program("/repo")
if raw:
    p = p.raw
cls, name = argv[0], argv[1]
fi = p.method(cls, name, own=True) if cls != "-" else p.func(argv[2], name)
print(ast.unparse(fi.node))
