#!/usr/bin/env python3
"""Robustness exercise (maintenance helper): rewrite every 'if c: A else: B' of kappadata as 'if not c: B else: A' (behaviour
preserving) and run all claimed checks on the rewritten tree via overlays.   usage: python3-vt tools/flip_ifs.py [PROP ...]"""
import ast, os, sys, json
sys.path.insert(0, os.path.dirname(os.path.dirname(os.path.abspath(__file__))))
from kdverif.__main__ import run_check
from kdverif.model import Program

class Flip(ast.NodeTransformer):
    n = 0
    def visit_If(self, node):
        self.generic_visit(node)
        if node.orelse:
            Flip.n += 1
            t = node.test
            nt = t.operand if isinstance(t, ast.UnaryOp) and isinstance(t.op, ast.Not) else ast.UnaryOp(ast.Not(), t)
            return ast.copy_location(ast.If(test=nt, body=node.orelse, orelse=node.body), node)
        return node

prog = Program("/repo", inline=False, normal=False)
ov = {}
for rel, src in prog.files.items():
    tree = Flip().visit(ast.parse(src))
    ast.fix_missing_locations(tree)
    ov[rel] = ast.unparse(tree)
    ast.parse(ov[rel])
print("flipped ifs:", Flip.n)
props = sys.argv[1:] or [c["property_id"] for c in json.load(open("/verif/MANIFEST.json"))["checks"]]
bad = 0
for p in props:
    rc, rep = run_check(p, "quick", overlays=ov, write=False, quiet=True)
    und = sum(o.verdict == "undecided" for o in rep.obs)
    if rc or und:
        print(p, "rc", rc, "undecided", und, rep.errors[:1], [f"{o.rule}:{o.construct}:{o.detail}"[:200] for o in rep.fresh][:4],
              [f"{o.rule}:{o.construct}"[:80] for o in rep.obs if o.verdict == "undecided"][:4])
    bad += rc != 0
print("bad:", bad)
