#!/usr/bin/env python3
"""Maintenance helper: confirm a sub-agent's seeded change in a fresh scratch worktree and file it under /verif/seeded.
usage: tools/seeded.py <PROP> <agent out dir> <name>   (e.g. C05 /tmp/wt/C05/out/1 C05-1)"""
import json, os, shutil, subprocess, sys
prop, src, name = sys.argv[1:4]
wt = f"/tmp/wt/verify_{name}"
def sh(cmd, **kw):
    return subprocess.run(cmd, shell=True, capture_output=True, text=True, **kw)
sh(f"git -C /repo worktree remove --force {wt}")
r = sh(f"git -C /repo worktree add --detach {wt} HEAD")
assert r.returncode == 0, r.stderr
res = {}
try:
    demo = os.path.join(src, "demo.py")
    r = sh(f"cd {wt} && PYTHONPATH={wt} /venv/bin/python {demo}")
    res["demo_clean_exit"] = r.returncode
    r = sh(f"git -C {wt} apply {os.path.join(src, 'patch.diff')}")
    res["apply"] = r.returncode
    if r.returncode != 0:
        res["apply_err"] = r.stderr[-300:]
    r = sh(f"cd {wt} && PYTHONPATH={wt} /venv/bin/python {demo}")
    res["demo_patched_exit"] = r.returncode
    res["demo_patched_tail"] = (r.stdout + r.stderr)[-400:]
    r = sh(f"cd {wt} && /venv/bin/python /verif/tools/baseline_check.py {wt}")
    res["baseline_patched_exit"] = r.returncode
    res["baseline_patched"] = r.stdout.strip().splitlines()[-1] if r.stdout.strip() else ""
finally:
    sh(f"git -C /repo worktree remove --force {wt}")
ok = res.get("demo_clean_exit") == 0 and res.get("apply") == 0 and res.get("demo_patched_exit") not in (0, None) \
    and res.get("baseline_patched_exit") == 0
res["confirmed"] = ok
print(json.dumps(res, indent=1))
if ok:
    dst = f"/verif/seeded/{name}"
    os.makedirs(dst, exist_ok=True)
    shutil.copy(os.path.join(src, "patch.diff"), dst)
    shutil.copy(demo, dst)
    notes = open(os.path.join(src, "notes.md")).read() if os.path.exists(os.path.join(src, "notes.md")) else ""
    meta = {"property": prop, "source": "independent sub-agent given only the property text and a scratch worktree",
            "needs_to_manifest": "see notes", "notes": notes,
            "confirmed_by": {"cmds": ["demo on clean worktree of /repo HEAD (exit 0)", "git apply patch.diff",
                                      "demo on patched worktree (exit != 0)",
                                      "tools/baseline_check.py on patched worktree (301 baseline tests pass)"],
                             "results": res}}
    json.dump(meta, open(os.path.join(dst, "meta.json"), "w"), indent=1)
sys.exit(0 if ok else 1)
