"""Program model of /repo/kappadata, rebuilt from source text on every run.

Nothing here imports or executes kappadata.  Modules are parsed with ``ast``; names are resolved
through the import statements the source contains (incl. star re-exports through ``__init__``
files); classes get a C3 MRO in which bases that live outside the package are opaque ``ext:`` nodes.

Source overlays (``{relative path: source text}``) replace / add files without touching the disk;
the self-test corpora use them to analyse variants of the tree.
"""
from __future__ import annotations

import ast
import hashlib
import os
from dataclasses import dataclass, field
from typing import Dict, List, Optional, Tuple, Union

PKG = "kappadata"


class AnalysisError(Exception):
    """The analysis itself cannot be carried out (vanished anchor, unparsable file, ...)."""


@dataclass
class Module:
    name: str
    relpath: str
    src: str
    tree: ast.Module
    is_pkg: bool
    # name -> binding, filled by Program._bind
    bindings: Dict[str, tuple] = field(default_factory=dict)
    star_from: List[str] = field(default_factory=list)
    unresolved_imports: List[str] = field(default_factory=list)

    @property
    def package(self) -> str:
        return self.name if self.is_pkg else self.name.rsplit(".", 1)[0]


@dataclass
class FuncInfo:
    name: str
    qualname: str
    module: Module
    node: Union[ast.FunctionDef, ast.AsyncFunctionDef]
    cls: Optional["ClassInfo"] = None

    @property
    def decorators(self) -> List[str]:
        out = []
        for d in self.node.decorator_list:
            if isinstance(d, ast.Name):
                out.append(d.id)
            elif isinstance(d, ast.Attribute):
                out.append(d.attr)
            elif isinstance(d, ast.Call):
                f = d.func
                out.append(f.id if isinstance(f, ast.Name) else getattr(f, "attr", "?"))
        return out

    @property
    def is_property(self):
        return "property" in self.decorators

    @property
    def is_static(self):
        return "staticmethod" in self.decorators

    @property
    def is_classmethod(self):
        return "classmethod" in self.decorators

    @property
    def where(self) -> str:
        return f"{self.module.relpath}:{self.node.lineno} {self.qualname}"

    def params(self) -> List[str]:
        a = self.node.args
        names = [x.arg for x in a.posonlyargs + a.args]
        if a.vararg:
            names.append(a.vararg.arg)
        names += [x.arg for x in a.kwonlyargs]
        if a.kwarg:
            names.append(a.kwarg.arg)
        return names


@dataclass
class ClassInfo:
    name: str
    module: Module
    node: ast.ClassDef
    bases: List[Union["ClassInfo", str]] = field(default_factory=list)
    methods: Dict[str, FuncInfo] = field(default_factory=dict)
    class_attrs: Dict[str, ast.AST] = field(default_factory=dict)
    annotations: Dict[str, ast.AST] = field(default_factory=dict)
    _mro: Optional[list] = None

    @property
    def qualname(self) -> str:
        return f"{self.module.name}.{self.name}"

    @property
    def where(self) -> str:
        return f"{self.module.relpath}:{self.node.lineno} {self.name}"

    def __hash__(self):
        return hash(self.qualname)

    def __eq__(self, other):
        return isinstance(other, ClassInfo) and other.qualname == self.qualname

    def __repr__(self):
        return f"<class {self.qualname}>"

    # ---- hierarchy ------------------------------------------------------------------------
    def mro(self) -> list:
        if self._mro is None:
            self._mro = _c3(self)
        return self._mro

    def mro_classes(self) -> List["ClassInfo"]:
        return [c for c in self.mro() if isinstance(c, ClassInfo)]

    def ext_bases(self) -> List[str]:
        return [c for c in self.mro() if isinstance(c, str)]

    def is_subclass_of(self, other: Union["ClassInfo", str]) -> bool:
        return other in self.mro()

    def lookup(self, name: str) -> Optional[FuncInfo]:
        """Method resolution in the context of this concrete class (package classes only)."""
        for c in self.mro_classes():
            if name in c.methods:
                return c.methods[name]
        return None

    def lookup_after(self, owner: "ClassInfo", name: str) -> Optional[FuncInfo]:
        """What ``super().name`` resolves to when written in ``owner`` and self is of this class."""
        seq = self.mro()
        if owner not in seq:
            return None
        for c in seq[seq.index(owner) + 1:]:
            if isinstance(c, ClassInfo) and name in c.methods:
                return c.methods[name]
        return None

    def ext_after(self, owner: "ClassInfo") -> List[str]:
        seq = self.mro()
        if owner not in seq:
            return []
        return [c for c in seq[seq.index(owner) + 1:] if isinstance(c, str)]

    def defines(self, name: str) -> bool:
        return name in self.methods or name in self.class_attrs


def _c3(cls: ClassInfo) -> list:
    seqs = []
    for b in cls.bases:
        if isinstance(b, ClassInfo):
            seqs.append(list(b.mro()))
        else:
            seqs.append([b])
    seqs.append(list(cls.bases))
    res = [cls]
    seqs = [s for s in seqs if s]
    while seqs:
        for s in seqs:
            cand = s[0]
            if not any(cand in t[1:] for t in seqs):
                break
        else:  # inconsistent hierarchy: fall back to a depth-first order
            cand = seqs[0][0]
        res.append(cand)
        seqs = [[x for x in s if x != cand] for s in seqs]
        seqs = [s for s in seqs if s]
    return res


class Program:
    def __init__(self, root: str = "/repo", overlays: Optional[Dict[str, str]] = None, pkg: str = PKG,
                 extra_files: Optional[Dict[str, str]] = None, inline: bool = True,
                 normal: bool = True):
        self.root = root
        self.pkg = pkg
        self._ctor = (root, overlays, pkg, extra_files)
        self._raw = None
        self.modules: Dict[str, Module] = {}
        self.by_relpath: Dict[str, Module] = {}
        self.classes: Dict[str, ClassInfo] = {}
        self.functions: Dict[str, FuncInfo] = {}
        self.parse_errors: List[str] = []
        overlays = dict(overlays or {})
        files: Dict[str, str] = {}
        base = os.path.join(root, pkg)
        for dirpath, dirnames, filenames in os.walk(base):
            dirnames[:] = sorted(d for d in dirnames if d != "__pycache__")
            for fn in sorted(filenames):
                if fn.endswith(".py"):
                    full = os.path.join(dirpath, fn)
                    rel = os.path.relpath(full, root)
                    with open(full, encoding="utf-8") as f:
                        files[rel] = f.read()
        for rel, src in overlays.items():
            if src is None:
                files.pop(rel, None)
            else:
                files[rel] = src
        for rel, src in (extra_files or {}).items():
            files[rel] = src
        self.files = files
        for rel, src in sorted(files.items()):
            modname = rel[:-3].replace(os.sep, ".")
            is_pkg = modname.endswith(".__init__")
            if is_pkg:
                modname = modname[: -len(".__init__")]
            try:
                tree = ast.parse(src, filename=rel)
            except SyntaxError as e:
                self.parse_errors.append(f"{rel}: {e}")
                continue
            m = Module(modname, rel, src, tree, is_pkg)
            self.modules[modname] = m
            self.by_relpath[rel] = m
        for m in self.modules.values():
            self._collect_defs(m)
        for m in self.modules.values():
            self._bind_imports(m)
        for c in self.classes.values():
            self._resolve_bases(c)
        self._dead = None
        self.inliner = None
        if normal:
            # normal form: interchangeable spellings of one statement (kdverif/normal.py)
            from .normal import normalise as _normalise_spellings
            _normalise_spellings(self)
        if inline:
            # normal form: private helpers are inlined into their callers (kdverif/inline.py)
            from .inline import normalise
            self.inliner = normalise(self)

    def keeping(self, *helpers: str) -> "Program":
        """The same sources in normal form, except that the named private helpers stay calls (for rules that summarise those
        helpers as units while everything around them is inlined)."""
        if self.inliner is None:
            return self
        key = tuple(sorted(helpers))
        cache = self.__dict__.setdefault("_keeping", {})
        if key not in cache:
            root, overlays, pkg, extra = self._ctor
            q = Program(root, overlays=overlays, pkg=pkg, extra_files=extra, inline=False)
            from .inline import normalise
            q.inliner = normalise(q, exclude=key)
            q._ctor = self._ctor
            cache[key] = q
        return cache[key]

    @property
    def raw(self) -> "Program":
        """The same sources without the helper-inlining normal form (for rules that summarise a helper as a unit)."""
        if self.inliner is None:
            return self
        if self._raw is None:
            root, overlays, pkg, extra = self._ctor
            self._raw = Program(root, overlays=overlays, pkg=pkg, extra_files=extra, inline=False)
        return self._raw

    # ------------------------------------------------------------------------------------------
    def digest(self, relpaths=None) -> str:
        h = hashlib.sha256()
        for rel in sorted(relpaths or self.files):
            h.update(rel.encode())
            h.update(self.files.get(rel, "").encode())
        return h.hexdigest()[:16]

    def _collect_defs(self, m: Module):
        for node in m.tree.body:
            self._collect_stmt(m, node)

    def _collect_stmt(self, m: Module, node):
        if isinstance(node, ast.ClassDef):
            ci = ClassInfo(node.name, m, node)
            for st in node.body:
                if isinstance(st, (ast.FunctionDef, ast.AsyncFunctionDef)):
                    ci.methods[st.name] = FuncInfo(st.name, f"{node.name}.{st.name}", m, st, ci)
                elif isinstance(st, ast.Assign):
                    for t in st.targets:
                        if isinstance(t, ast.Name):
                            ci.class_attrs[t.id] = st.value
                elif isinstance(st, ast.AnnAssign) and isinstance(st.target, ast.Name):
                    ci.annotations[st.target.id] = st.annotation
                    if st.value is not None:
                        ci.class_attrs[st.target.id] = st.value
            self.classes[ci.qualname] = ci
            m.bindings[node.name] = ("class", ci)
        elif isinstance(node, (ast.FunctionDef, ast.AsyncFunctionDef)):
            fi = FuncInfo(node.name, node.name, m, node, None)
            self.functions[f"{m.name}.{node.name}"] = fi
            m.bindings[node.name] = ("func", fi)
        elif isinstance(node, (ast.Assign, ast.AnnAssign, ast.AugAssign)):
            targets = node.targets if isinstance(node, ast.Assign) else [node.target]
            for t in targets:
                for n in ast.walk(t):
                    if isinstance(n, ast.Name):
                        m.bindings.setdefault(n.id, ("var", node))
        elif isinstance(node, (ast.If, ast.Try, ast.With, ast.For, ast.While)):
            for sub in ast.iter_child_nodes(node):
                if isinstance(sub, ast.stmt):
                    self._collect_stmt(m, sub)
                elif isinstance(sub, ast.ExceptHandler):
                    for s2 in sub.body:
                        self._collect_stmt(m, s2)

    def _abs_module(self, m: Module, level: int, name: Optional[str]) -> str:
        if level == 0:
            return name or ""
        parts = m.package.split(".")
        if level > 1:
            parts = parts[: len(parts) - (level - 1)]
        base = ".".join(parts)
        return f"{base}.{name}" if name else base

    def _bind_imports(self, m: Module):
        for node in ast.walk(m.tree):
            if isinstance(node, ast.Import):
                for a in node.names:
                    if a.asname:
                        m.bindings[a.asname] = ("modref", a.name)
                    else:
                        m.bindings[a.name.split(".")[0]] = ("modref", a.name.split(".")[0])
            elif isinstance(node, ast.ImportFrom):
                target = self._abs_module(m, node.level, node.module)
                internal = target == self.pkg or target.startswith(self.pkg + ".")
                if internal and target not in self.modules:
                    # ``from .pkg import submodule`` style is handled below; a missing module is recorded
                    m.unresolved_imports.append(target)
                for a in node.names:
                    if a.name == "*":
                        m.star_from.append(target)
                        continue
                    m.bindings[a.asname or a.name] = ("from", target, a.name)

    def _resolve_bases(self, c: ClassInfo):
        for b in c.node.bases:
            r = self.resolve_expr(c.module, b)
            if r and r[0] == "class":
                c.bases.append(r[1])
            elif r and r[0] == "ext":
                c.bases.append("ext:" + r[1])
            else:
                c.bases.append("ext:?" + ast.unparse(b))

    # ---- name resolution ------------------------------------------------------------------------
    def resolve_name(self, m: Module, name: str, _seen=None):
        """-> ('class', ClassInfo) | ('func', FuncInfo) | ('module', Module) | ('ext', dotted) |
        ('var', node) | None"""
        _seen = _seen or set()
        key = (m.name, name)
        if key in _seen:
            return None
        _seen.add(key)
        b = m.bindings.get(name)
        if b is None:
            for target in m.star_from:
                tm = self.modules.get(target)
                if tm is None:
                    continue
                r = self.resolve_name(tm, name, _seen)
                if r is not None:
                    return r
            return None
        kind = b[0]
        if kind in ("class", "func", "var"):
            return b
        if kind == "modref":
            dotted = b[1]
            if dotted in self.modules:
                return ("module", self.modules[dotted])
            return ("ext", dotted)
        if kind == "from":
            target, nm = b[1], b[2]
            internal = target == self.pkg or target.startswith(self.pkg + ".")
            if not internal:
                return ("ext", f"{target}.{nm}")
            sub = f"{target}.{nm}"
            tm = self.modules.get(target)
            if tm is not None:
                r = self.resolve_name(tm, nm, _seen)
                if r is not None:
                    return r
            if sub in self.modules:
                return ("module", self.modules[sub])
            return None
        return None

    def resolve_expr(self, m: Module, e: ast.AST):
        """Resolve a Name / dotted Attribute chain appearing in module ``m``."""
        if isinstance(e, ast.Name):
            return self.resolve_name(m, e.id)
        if isinstance(e, ast.Attribute):
            base = self.resolve_expr(m, e.value)
            if base is None:
                return None
            if base[0] == "module":
                return self.resolve_name(base[1], e.attr)
            if base[0] == "ext":
                return ("ext", f"{base[1]}.{e.attr}")
            if base[0] == "class":
                f = base[1].lookup(e.attr)
                if f is not None:
                    return ("func", f)
            return None
        return None

    def ext_name(self, m: Module, e: ast.AST) -> Optional[str]:
        """Dotted external name of an expression such as ``np.random.default_rng`` or None."""
        r = self.resolve_expr(m, e)
        if r and r[0] == "ext":
            return r[1]
        return None

    # ---- lookups used by the rules -------------------------------------------------------------
    def cls(self, name: str, required=True) -> Optional[ClassInfo]:
        """Find a class by bare or qualified name (unique)."""
        if name in self.classes:
            return self.classes[name]
        hits = [c for c in self.classes.values() if c.name == name and not self.is_dead(c.module)]
        if len(hits) == 1:
            return hits[0]
        if not hits:
            if required:
                raise AnalysisError(f"anchor-missing: class {name}")
            return None
        raise AnalysisError(f"ambiguous class name {name}: {[c.qualname for c in hits]}")

    def method(self, cls_name: str, meth: str, required=True, own=False) -> Optional[FuncInfo]:
        c = self.cls(cls_name, required)
        if c is None:
            return None
        f = c.methods.get(meth) if own else c.lookup(meth)
        if f is None and required:
            raise AnalysisError(f"anchor-missing: method {cls_name}.{meth}")
        return f

    def concrete_method(self, c: "ClassInfo", meth: str) -> Optional[FuncInfo]:
        """The method as it runs on an instance of the concrete class c: looked up through the MRO and, when it is a template
        method (it calls private helpers / reads private properties that c or a base re-defines), with those resolved for c and
        inlined."""
        f = c.lookup(meth)
        if f is None:
            return None
        inl = getattr(self, "inliner", None)
        return inl.specialise(f, c) if inl is not None else f

    def func(self, relpath: str, name: str, required=True) -> Optional[FuncInfo]:
        m = self.by_relpath.get(relpath)
        if m is None:
            if required:
                raise AnalysisError(f"anchor-missing: file {relpath}")
            return None
        b = m.bindings.get(name)
        if b and b[0] == "func":
            return b[1]
        if required:
            raise AnalysisError(f"anchor-missing: function {relpath}:{name}")
        return None

    def module(self, relpath: str, required=True) -> Optional[Module]:
        m = self.by_relpath.get(relpath)
        if m is None and required:
            raise AnalysisError(f"anchor-missing: file {relpath}")
        return m

    def subclasses(self, base: Union[ClassInfo, str], include_self=True, include_dead=False) -> List[ClassInfo]:
        if isinstance(base, str) and not base.startswith("ext:"):
            base = self.cls(base)
        out = []
        for c in self.classes.values():
            if not include_dead and self.is_dead(c.module):
                continue
            if base in c.mro() and (include_self or c != base):
                out.append(c)
        return sorted(out, key=lambda c: c.qualname)

    def is_dead(self, m: Module) -> bool:
        """A module that cannot be imported (unresolvable intra-package import) and is referenced
        by no other module."""
        if self._dead is None:
            self._dead = set()
            referenced = set()
            for mm in self.modules.values():
                for b in mm.bindings.values():
                    if b[0] == "from":
                        referenced.add(b[1])
                        referenced.add(f"{b[1]}.{b[2]}")
                for t in mm.star_from:
                    referenced.add(t)
            for mm in self.modules.values():
                if mm.unresolved_imports and mm.name not in referenced:
                    self._dead.add(mm.name)
        return m.name in self._dead

    def dead_modules(self) -> List[str]:
        self.is_dead(next(iter(self.modules.values())))
        return sorted(self._dead)

    def all_functions(self, modules=None):
        """Yield every FuncInfo (module level functions and methods, incl. nested defs as part of
        their parent)."""
        for m in (modules or self.modules.values()):
            for b in m.bindings.values():
                if b[0] == "func" and b[1].module is m:
                    yield b[1]
                elif b[0] == "class" and b[1].module is m:
                    yield from b[1].methods.values()


def src_of(node: ast.AST) -> str:
    try:
        return ast.unparse(node)
    except Exception:  # pragma: no cover
        return "<?>"


def norm_stmt(node: ast.AST, limit=160) -> str:
    s = " ".join(src_of(node).split())
    return s if len(s) <= limit else s[: limit - 3] + "..."
