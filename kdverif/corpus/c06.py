"""Mutant / benign corpus for C06 (InterleavedSampler resume)."""
F = "kappadata/samplers/interleaved_sampler.py"

MUTANTS = [
    ("start_update derived by dividing samples by updates per epoch", [(F, "            start_update = start_sample // batch_size\n", "            start_update = start_sample // updates_per_epoch\n")], "G6.derivation-units"),
    ("start_sample derived as updates times updates per epoch", [(F, "            start_sample = start_update * batch_size\n", "            start_sample = start_update * updates_per_epoch\n")], "G6.derivation-units"),
    ("a trigger table computed from start_sample before the checkpoint is completed", [(F, "        # infer full start checkpoint from one of epoch/update/sample\n", "        self.first_triggers = [None if c.every_n_samples is None else ((start_sample or 0) // c.every_n_samples + 1) * c.every_n_samples for c in configs]\n        # infer full start checkpoint from one of epoch/update/sample\n")], "G9.checkpoint-complete-at-use"),
    ("bookkeeping starts at 0 (the original defect)", [(F, "        sample_at_last_update = self.start_sample\n", "        sample_at_last_update = 0\n")], "G8.init-units"),
    ("bookkeeping starts at the update checkpoint", [(F, "        sample_at_last_update = self.start_sample\n", "        sample_at_last_update = self.start_update\n")], "G8.init-units"),
    ("update counter starts at 0", [(F, "        update = self.start_update\n", "        update = 0\n")], "G8.init-units"),
    ("sample counter starts at the update checkpoint", [(F, "        sample = self.start_sample\n", "        sample = self.start_update\n")], "G8.init-units"),
    ("epoch counter re-initialised inside the while loop", [(F, "        while True:\n            sample_in_epoch = 0\n", "        while True:\n            sample_in_epoch = 0\n            if epoch is None:\n                epoch = 0\n")], None),
    ("start_update stored from start_sample", [(F, "        self.start_update = start_update\n", "        self.start_update = start_sample\n")], "G9.checkpoint-stores"),
    ("checkpoint stored before the derivation", [(F, "        self.start_epoch = start_epoch\n        self.start_update = start_update\n        self.start_sample = start_sample\n", "        self.start_epoch = start_epoch or 0\n        self.start_update = start_epoch or 0\n        self.start_sample = start_sample or 0\n")], "G9.checkpoint-stores"),
    ("epoch length in __init__ ignores drop_last (the original defect)",
     [(F, "        if drop_last:\n            epoch_batch_size = drop_last_batch_size or batch_size\n            samples_per_epoch = len(main_sampler) // epoch_batch_size * epoch_batch_size\n        else:\n            samples_per_epoch = len(main_sampler)\n",
       "        samples_per_epoch = len(main_sampler) // batch_size * batch_size\n")], "G4.derivation-deps"),
    ("epoch length in __init__ ignores drop_last_batch_size", [(F, "            epoch_batch_size = drop_last_batch_size or batch_size\n", "            epoch_batch_size = batch_size\n")], "G4.derivation-deps"),
    ("epoch length prefers batch_size", [(F, "            epoch_batch_size = drop_last_batch_size or batch_size\n", "            epoch_batch_size = batch_size or drop_last_batch_size\n")], "G9.epoch-length-agreement"),
    ("drop_last branches swapped in __init__",
     [(F, "        if drop_last:\n            epoch_batch_size = drop_last_batch_size or batch_size\n", "        if not drop_last:\n            epoch_batch_size = drop_last_batch_size or batch_size\n")], "G9.epoch-length-agreement"),
    ("updates per epoch rounded down", [(F, "        updates_per_epoch = (samples_per_epoch + batch_size - 1) // batch_size\n", "        updates_per_epoch = samples_per_epoch // batch_size\n")], "G9.epoch-length-agreement"),
    ("updates per epoch rounded up once too often", [(F, "        updates_per_epoch = (samples_per_epoch + batch_size - 1) // batch_size\n", "        updates_per_epoch = (samples_per_epoch + batch_size) // batch_size\n")], "G9.epoch-length-agreement"),
    ("start_sample derived from the update count", [(F, "            start_sample = samples_per_epoch * start_epoch\n", "            start_sample = start_update * batch_size\n")], "G9.epoch-length-agreement"),
    ("start_update branch no longer rejects missing drop_last",
     [(F, "            start_sample = start_update * batch_size\n            if start_update % updates_per_epoch != 0 or not drop_last:\n", "            start_sample = start_update * batch_size\n            if start_update % updates_per_epoch != 0:\n")], "G4.derivation-deps"),
    ("start_sample branch leaves start_epoch at 0", [(F, "            start_update = start_sample // batch_size\n            start_epoch = int(start_update / updates_per_epoch)\n", "            start_update = start_sample // batch_size\n            start_epoch = 0\n")], "G4.derivation-deps"),
    ("zero-budget route forgets the checkpoint assertion", [(F, "            assert self.start_epoch == 0 and self.start_update == 0 and self.start_sample == 0\n", "")], "G8.zero-budget-checkpoint"),
    ("loop's epoch length without drop_last rounded", [(F, "            samples_per_epoch = len(self.main_sampler)\n", "            samples_per_epoch = len(self.main_sampler) // self.batch_size * self.batch_size\n")], "G9.epoch-length-agreement"),
]

BENIGN = [
    ("a trigger table computed from the completed start_sample", [(F, "        self.main_sampler = main_sampler\n        self.drop_last = drop_last\n", "        self.first_triggers = [None if c.every_n_samples is None else (start_sample // c.every_n_samples + 1) * c.every_n_samples for c in configs]\n        self.main_sampler = main_sampler\n        self.drop_last = drop_last\n")]),
    ("bookkeeping initialised from the counter", [(F, "        sample_at_last_update = self.start_sample\n", "        sample_at_last_update = sample\n")]),
    ("updates per epoch hoisted differently", [(F, "        updates_per_epoch = (samples_per_epoch + batch_size - 1) // batch_size\n", "        updates_per_epoch = (batch_size + samples_per_epoch - 1) // batch_size\n")]),
    ("start_sample factor order", [(F, "            start_sample = samples_per_epoch * start_epoch\n", "            start_sample = start_epoch * samples_per_epoch\n")]),
    ("explicit None test for drop_last_batch_size", [(F, "            epoch_batch_size = drop_last_batch_size or batch_size\n", "            epoch_batch_size = batch_size if drop_last_batch_size is None else drop_last_batch_size\n")]),
    ("epoch length as early else", [(F, "        if drop_last:\n            epoch_batch_size = drop_last_batch_size or batch_size\n            samples_per_epoch = len(main_sampler) // epoch_batch_size * epoch_batch_size\n        else:\n            samples_per_epoch = len(main_sampler)\n",
                                    "        samples_per_epoch = len(main_sampler)\n        if drop_last:\n            epoch_batch_size = drop_last_batch_size or batch_size\n            samples_per_epoch = samples_per_epoch // epoch_batch_size * epoch_batch_size\n")]),
]
