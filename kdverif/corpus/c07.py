"""Mutant / benign corpus for C07 (seed injection into transforms)."""
T = "kappadata/transforms/"
CO, ST, SC, RA, PW = T + "base/kd_compose_transform.py", T + "base/kd_stochastic_transform.py", T + "base/kd_scheduled_transform.py", T + "kd_random_apply.py", T + "patchwise_transform.py"
AN, RT, RCJ, ER, SRC, TA = T + "kd_random_additive_gaussian_noise.py", T + "kd_random_threshold.py", T + "kd_random_color_jitter.py", T + "kd_random_erasing.py", T + "kd_simple_random_crop.py", T + "kd_three_augment.py"
GN = T + "kd_additive_gaussian_noise.py"

MUTANTS = [
    ("compose forwards only to stochastic members", [(CO, "    def set_rng(self, rng):\n        for t in self.transforms:\n            if isinstance(t, KDTransform):\n                t.set_rng(rng)", "    def set_rng(self, rng):\n        for t in self.transforms:\n            if isinstance(t, KDTransform) and not t.is_deterministic:\n                t.set_rng(rng)")], "G3.set_rng"),
    ("compose stops at the first member", [(CO, "    def set_rng(self, rng):\n        for t in self.transforms:\n            if isinstance(t, KDTransform):\n                t.set_rng(rng)", "    def set_rng(self, rng):\n        for t in self.transforms:\n            if isinstance(t, KDTransform):\n                t.set_rng(rng)\n                break")], "G3.set_rng"),
    ("compose forwards a fresh generator", [(CO, "                t.set_rng(rng)\n        return self", "                t.set_rng(get_rng_from_global())\n        return self"), (CO, "from .kd_transform import KDTransform", "from .kd_transform import KDTransform\nfrom kappadata.utils.random import get_rng_from_global")], "G3.set_rng"),
    ("scheduled transform drops set_rng (original defect)", [(SC, "    def set_rng(self, rng):\n        if isinstance(self.transform, KDTransform):\n            self.transform.set_rng(rng)\n        return self\n\n", "")], "G3.set_rng"),
    ("random apply guard too narrow (original defect)", [(RA, "    def set_rng(self, rng):\n        if isinstance(self.transform, KDTransform):", "    def set_rng(self, rng):\n        if isinstance(self.transform, KDRandomApplyBase):")], "G3.set_rng"),
    ("noise member not reached (original defect)", [(AN, "        self.noise.set_rng(rng)\n", "")], "G3.set_rng"),
    ("simple random crop forgets its crop member", [(SRC, "        self.random_crop.set_rng(rng)\n", "")], "G3.set_rng"),
    ("three augment forgets its blur member", [(TA, "        self.gaussian_blur.set_rng(rng)\n", "")], "G3.set_rng"),
    ("stochastic base keeps its old generator", [(ST, "    def set_rng(self, rng):\n        self.rng = rng\n        return self", "    def set_rng(self, rng):\n        if self.rng is None:\n            self.rng = rng\n        return self")], "G3.reinject"),
    ("random apply does not store its own generator", [(RA, "        return super().set_rng(rng)", "        return self")], "G3.reinject"),
    ("noise drawn with numpy's global RNG", [(GN, "noise = torch.from_numpy(self.rng.normal(scale=magnitude * self.std, size=x.shape)).float()", "noise = torch.from_numpy(np.random.normal(scale=magnitude * self.std, size=x.shape)).float()"), (GN, "import torch\n", "import torch\nimport numpy as np\n")], "G2.draws"),
    ("erasing count from python's random", [(ER, "n_rects = int(self.rng.integers(self.min_count, self.max_count))", "n_rects = random.randint(self.min_count, self.max_count)"), (ER, "import math\n", "import math\nimport random\n")], "G2.draws"),
    ("erasing replacement from torch's global RNG", [(ER, "return torch.from_numpy(self.rng.standard_normal(size=(c, h, w), dtype=np.float32))", "return torch.randn(c, h, w)")], "G2.draws"),
    ("generator re-created inside the call", [(GN, "        magnitude = self.magnitude_sampler.sample(self.rng)", "        self.rng = get_rng_from_global()\n        magnitude = self.magnitude_sampler.sample(self.rng)"), (GN, "import torch\n", "import torch\nfrom kappadata.utils.random import get_rng_from_global\n")], "G2"),
    ("colour jitter member rebuilt on rescale", [(RCJ, "    def _scale_strength(self, factor):\n        self.color_jitter.scale_strength(factor)", "    def _scale_strength(self, factor):\n        self.color_jitter = KDColorJitter(ctx_prefix=self.ctx_prefix)\n        self.color_jitter.scale_strength(factor)")], "G3.member-stable"),
    ("patchwise: undefined name in set_rng", [(PW, "        return self.transform.set_rng(rng)", "        return transform.set_rng(rng)")], "G1.unbound-name"),
]

BENIGN = [
    ("compose: loop variable renamed", [(CO, "    def set_rng(self, rng):\n        for t in self.transforms:\n            if isinstance(t, KDTransform):\n                t.set_rng(rng)", "    def set_rng(self, rng):\n        for member in self.transforms:\n            if isinstance(member, KDTransform):\n                member.set_rng(rng)")]),
    ("compose: early continue", [(CO, "    def set_rng(self, rng):\n        for t in self.transforms:\n            if isinstance(t, KDTransform):\n                t.set_rng(rng)", "    def set_rng(self, rng):\n        for t in self.transforms:\n            if not isinstance(t, KDTransform):\n                continue\n            t.set_rng(rng)")]),
    ("random apply: super first", [(RA, "        if isinstance(self.transform, KDTransform):\n            self.transform.set_rng(rng)\n        return super().set_rng(rng)", "        super().set_rng(rng)\n        if isinstance(self.transform, KDTransform):\n            self.transform.set_rng(rng)\n        return self")]),
    ("noise: generator via a local", [(GN, "        magnitude = self.magnitude_sampler.sample(self.rng)", "        rng = self.rng\n        magnitude = self.magnitude_sampler.sample(rng)")]),
]
