"""Mutant / benign corpus for C04 (InterleavedSampler main stream)."""
F = "kappadata/samplers/interleaved_sampler.py"

MUTANTS = [
    ("set_epoch gets epoch+1", [(F, "self.main_sampler.set_epoch(epoch)", "self.main_sampler.set_epoch(epoch + 1)")], "G8.set_epoch"),
    ("set_epoch only for later epochs", [(F, '            if hasattr(self.main_sampler, "set_epoch"):\n                self.main_sampler.set_epoch(epoch)',
                                         '            if hasattr(self.main_sampler, "set_epoch") and epoch > self.start_epoch:\n                self.main_sampler.set_epoch(epoch)')], "G8.set_epoch"),
    ("set_epoch before the while loop only", [(F, '        while True:\n            sample_in_epoch = 0\n            if hasattr(self.main_sampler, "set_epoch"):\n                self.main_sampler.set_epoch(epoch)\n',
                                               '        if hasattr(self.main_sampler, "set_epoch"):\n            self.main_sampler.set_epoch(epoch)\n        while True:\n            sample_in_epoch = 0\n')], "G8.set_epoch"),
    ("sample counter incremented after the yield", [(F, "                sample += 1\n                sample_in_epoch += 1\n                sample_in_update += 1\n                if sample_in_update == self.batch_size or sample_in_epoch == samples_per_epoch:\n                    yield True, main_idx\n                else:\n                    yield False, main_idx\n",
                                                     "                sample_in_epoch += 1\n                sample_in_update += 1\n                if sample_in_update == self.batch_size or sample_in_epoch == samples_per_epoch:\n                    yield True, main_idx\n                else:\n                    yield False, main_idx\n                sample += 1\n")], "G8.counters"),
    ("in-update counter not reset", [(F, "                    sample_in_update = 0\n                    # increase counters", "                    # increase counters")], "G8.counters"),
    ("in-epoch counter reset per update", [(F, "                    sample_in_update = 0\n                    # increase counters", "                    sample_in_update = 0\n                    sample_in_epoch = 0\n                    # increase counters")], None),
    ("flag condition ignores the epoch end", [(F, "                if sample_in_update == self.batch_size or sample_in_epoch == samples_per_epoch:\n                    yield True, main_idx",
                                               "                if sample_in_update == self.batch_size:\n                    yield True, main_idx")], "G9.flag-vs-update"),
    ("flags swapped", [(F, "                    yield True, main_idx\n                else:\n                    yield False, main_idx", "                    yield False, main_idx\n                else:\n                    yield True, main_idx")], "G9.flag-vs-update"),
    ("samples budget with ==", [(F, "(self.samples is not None and sample >= self.samples)", "(self.samples is not None and sample == self.samples)")], "G8.budget"),
    ("samples budget strict", [(F, "(self.samples is not None and sample >= self.samples)", "(self.samples is not None and sample > self.samples)")], "G8.budget"),
    ("updates budget compared with epoch counter", [(F, "(self.updates is not None and update == self.updates)", "(self.updates is not None and epoch == self.updates)")], "G8.budget"),
    ("epochs budget one late", [(F, "(self.epochs is not None and epoch == self.epochs)", "(self.epochs is not None and epoch > self.epochs)")], "G8.budget"),
    ("budget test before the interleaved passes", [(F, "                    for config_idx, config in enumerate(self.configs):\n                        # check if interleaved dataset has to be iterated\n",
                                                    "                    if (\n                            (self.epochs is not None and epoch == self.epochs) or\n                            (self.updates is not None and update == self.updates) or\n                            (self.samples is not None and sample >= self.samples)\n                    ):\n                        return\n                    for config_idx, config in enumerate(self.configs):\n                        # check if interleaved dataset has to be iterated\n")], "G8.budget"),
    ("budget test outside the update block", [(F, "                    sample_at_last_update = sample\n                    # check if end is reached\n                    if (\n                            (self.epochs is not None and epoch == self.epochs) or\n                            (self.updates is not None and update == self.updates) or\n                            (self.samples is not None and sample >= self.samples)\n                    ):\n                        return\n",
                                               "                    sample_at_last_update = sample\n                # check if end is reached\n                if (\n                        (self.epochs is not None and epoch == self.epochs) or\n                        (self.updates is not None and update == self.updates) or\n                        (self.samples is not None and sample >= self.samples)\n                ):\n                    return\n                if sample_in_update != 0:\n                    continue\n                if True:\n")], "G8.budget"),
    ("epoch increment unconditional", [(F, "                    if sample_in_epoch == samples_per_epoch:\n                        epoch += 1\n", "                    if sample_in_epoch >= samples_per_epoch - 1:\n                        epoch += 1\n")], "G8.epoch-end"),
    ("no break at the epoch end", [(F, "                    if sample_in_epoch == samples_per_epoch:\n                        break", "                    if sample_in_epoch == samples_per_epoch:\n                        pass")], "G8.epoch-end"),
    ("epoch length uses batch_size although drop_last_batch_size is given", [(F, "            samples_per_epoch = len(self.main_sampler) // batch_size * batch_size", "            samples_per_epoch = len(self.main_sampler) // self.batch_size * batch_size")], "G6.epoch-length"),
    ("epoch length without drop_last rounded down", [(F, "            samples_per_epoch = len(self.main_sampler)\n", "            samples_per_epoch = len(self.main_sampler) // self.batch_size * self.batch_size\n")], "G6.epoch-length"),
    ("batch sampler reuses the emitted list", [(F, "                yield idxs\n                idxs = []", "                yield idxs\n                idxs.clear()")], "G8.batch-sampler"),
    ("batch sampler emits on not-flag", [(F, "            if is_full_batch:\n                yield idxs", "            if not is_full_batch:\n                yield idxs")], "G8.batch-sampler"),
    ("batch sampler appends after emission", [(F, "            idxs.append(idx)\n            if is_full_batch:\n                yield idxs\n                idxs = []\n", "            if is_full_batch:\n                yield idxs\n                idxs = []\n            idxs.append(idx)\n")], "G8.batch-sampler"),
    ("batch sampler drops the final assertion", [(F, "        assert len(idxs) == 0\n", "        pass\n")], "G8.batch-sampler"),
]

BENIGN = [
    ("rename locals", [(F, "sample_in_update", "n_in_upd")]) if False else
    ("hoist the update condition into a variable", [(F, "                if sample_in_update == self.batch_size or sample_in_epoch == samples_per_epoch:\n                    yield True, main_idx\n                else:\n                    yield False, main_idx\n",
                                                     "                is_full = sample_in_epoch == samples_per_epoch or sample_in_update == self.batch_size\n                yield is_full, main_idx\n")]),
    ("flip comparison operands", [(F, "(self.samples is not None and sample >= self.samples)", "(self.samples is not None and self.samples <= sample)")]),
    ("budget test with >= for updates", [(F, "(self.updates is not None and update == self.updates)", "(self.updates is not None and update >= self.updates)")]),
    ("early-continue instead of nested update block", [(F, "                    if sample_in_epoch == samples_per_epoch:\n                        break", "                    if not (sample_in_epoch == samples_per_epoch):\n                        continue\n                    break")]),
    ("batch sampler builds the new list with list()", [(F, "                yield idxs\n                idxs = []", "                yield idxs\n                idxs = list()")]),
    ("add logging", [(F, "        epoch = self.start_epoch\n", "        epoch = self.start_epoch\n        _dbg = f\"start at {epoch}\"\n")]),
]
