"""Mutant / benign corpus for C20 (global-to-local copy)."""
F = "kappadata/copying/folder.py"
I = "kappadata/copying/image_folder.py"
END_F = "    # create end_copy_file\n    with open(end_copy_file, \"w\") as f:\n        f.write(\"this file indicates that copying the dataset automatically was successful\")\n"
START_F = "    # create start_copy_file\n    with open(start_copy_file, \"w\") as f:\n        f.write(\"this file indicates that an attempt to copy the dataset automatically was started\")\n"

MUTANTS = [
    ("end marker written right after the start marker", [(F, START_F, START_F + END_F.replace("# create end_copy_file", "# both markers up front")), (F, "\n" + END_F + "\n    log(log_fn, \"finished", "\n    log(log_fn, \"finished")], None),
    ("end marker before the copy (image folder)", [(I, "    # copy\n    was_zip = False\n", END_F + "    # copy\n    was_zip = False\n"), (I, "\n" + END_F + "\n    log(log_fn, \"finished", "\n    log(log_fn, \"finished")], None),
    ("start marker written after the copy", [(F, START_F, ""), (F, END_F, START_F + END_F)], None),
    ("start marker alone counts as complete", [(F, "            if end_copy_file.exists():\n                # already automatically copied -> do nothing", "            if True:\n                # already automatically copied -> do nothing")], "I1"),
    ("end marker decides alone, missing start deletes", [(F, "        if start_copy_file.exists():\n            if end_copy_file.exists():", "        if end_copy_file.exists() or start_copy_file.exists():\n            if end_copy_file.exists() and not start_copy_file.exists():")], None),
    ("completed copy redone when the end marker exists", [(F, "            if end_copy_file.exists():\n                # already automatically copied -> do nothing", "            if not end_copy_file.exists():\n                # already automatically copied -> do nothing")], None),
    ("user folder is wiped", [(F, "        else:\n            log(log_fn, f\"using manually copied dataset '{dst_path}'\")\n            return CopyFolderResult(was_copied=False, was_deleted=False, source_format=None)", "        else:\n            shutil.rmtree(dst_path)\n            dst_path.mkdir()")], None),
    ("result claims nothing was deleted", [(F, "        was_deleted=was_deleted,\n        source_format=source_format,", "        was_deleted=False,\n        source_format=source_format,")], "I3"),
    ("result claims a copy on the skip path", [(F, "                return CopyFolderResult(\n                    was_copied=False,", "                return CopyFolderResult(\n                    was_copied=True,")], "I3"),
    ("deletion flag set before the test", [(F, "    was_deleted = False\n    if dst_path.exists():", "    was_deleted = True\n    if dst_path.exists():")], "I3"),
    ("end marker removed before re-copy only", [(F, "                shutil.rmtree(dst_path)\n                was_deleted = True\n                dst_path.mkdir()\n", "                start_copy_file.unlink()\n                shutil.rmtree(dst_path)\n                was_deleted = True\n                dst_path.mkdir()\n")], "I1"),
]

BENIGN = [
    ("markers created with touch", [(F, END_F, "    # create end_copy_file\n    end_copy_file.touch()\n")]),
    ("log after the marker", [(F, "    log(log_fn, \"finished copying data from global to local\")\n", "    log(log_fn, \"finished copying\")\n")]),
    ("explicit else after return", [(I, "                shutil.rmtree(dst_path)\n                was_deleted = True\n                dst_path.mkdir()\n", "                shutil.rmtree(dst_path)\n                dst_path.mkdir()\n                was_deleted = True\n")]),
]
