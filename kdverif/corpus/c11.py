"""Mutant / benign corpus for C11 (KDMixWrapper)."""
F = "kappadata/wrappers/sample_wrappers/kd_mix_wrapper.py"
OH = "kappadata/utils/one_hot.py"

MUTANTS = [
    ("mixed label written slot by slot, second weight assigned", [(OH, "def to_one_hot_matrix(y, n_classes):", "def to_mixed_vector(y1, y2, weight, n_classes):\n    mixed = torch.zeros(n_classes)\n    mixed[y1] = weight\n    mixed[y2] = 1. - weight\n    return mixed\n\n\ndef to_one_hot_matrix(y, n_classes):")], "G6.slot-accumulate"),
    ("lambda drawn from the global RNG", [(F, "lamb = torch.tensor([rng.beta(alpha, alpha)])", "lamb = torch.tensor([np.random.beta(alpha, alpha)])")], None),
    ("partner drawn from a second generator", [(F, "        idx2 = rng.integers(len(self))\n", "        rng2 = get_rng_from_global()\n        idx2 = rng2.integers(len(self))\n")], "G4.one-draw"),
    ("seed ignores the index", [(F, "rng = np.random.default_rng(seed=self.seed + idx)", "rng = np.random.default_rng(seed=self.seed)")], "G4.one-draw"),
    ("partner label loaded with the own index", [(F, "        cls2 = self.dataset.getitem_class(idx2, ctx=ctx)\n", "        cls2 = self.dataset.getitem_class(idx, ctx=ctx)\n")], "G9.one-partner"),
    ("partner label from a second draw", [(F, "        cls2 = self.dataset.getitem_class(idx2, ctx=ctx)\n", "        cls2 = self.dataset.getitem_class(rng.integers(len(self)), ctx=ctx)\n")], "G9.one-partner"),
    ("partner drawn over the root dataset", [(F, "idx2 = rng.integers(len(self))", "idx2 = rng.integers(len(self.root_dataset))")], "G9.one-partner"),
    ("label weights exchanged", [(F, "cls.mul_(lamb).add_(cls2.mul_(1. - lamb))", "cls.mul_(1. - lamb).add_(cls2.mul_(lamb))")], "G6.convex-mix"),
    ("label partner weight not complementary", [(F, "cls.mul_(lamb).add_(cls2.mul_(1. - lamb))", "cls.mul_(lamb).add_(cls2.mul_(lamb))")], "G6.convex-mix"),
    ("data mixed with itself", [(F, "x.mul_(x_lamb).add_(x2.mul_(1. - x_lamb))", "x.mul_(x_lamb).add_(x.mul_(1. - x_lamb))")], "G6.convex-mix"),
    ("label mixed with a fresh lambda", [(F, "            cls.mul_(lamb).add_(cls2.mul_(1. - lamb))", "            lamb2 = torch.tensor([rng.beta(alpha, alpha)])\n            cls.mul_(lamb2).add_(cls2.mul_(1. - lamb2))")], "G6.convex-mix"),
    ("unmixed path returns the integer label", [(F, "            cls = to_one_hot_vector(cls, n_classes=n_classes)\n            return x, cls\n", "            return x, cls\n")], "G8.label-one-hot"),
    ("one-hot over the batch's label value", [(F, "        cls = to_one_hot_vector(cls, n_classes=n_classes)\n        cls2 = to_one_hot_vector(cls2, n_classes=n_classes)\n", "        cls = to_one_hot_vector(cls, n_classes=int(cls) + 1)\n        cls2 = to_one_hot_vector(cls2, n_classes=n_classes)\n")], "G8.label-one-hot"),
    ("getitem_class is the wrapped label", [(F, "    def getitem_class(self, idx, ctx=None):\n        return self.getitem_xclass(idx, ctx=ctx)[1]", "    def getitem_class(self, idx, ctx=None):\n        return to_one_hot_vector(self.dataset.getitem_class(idx, ctx=ctx), n_classes=self.getdim_class())")], "G9.fused-projection"),
    ("getitem_x takes the label component", [(F, "        return self.getitem_xclass(idx, ctx=ctx)[0]", "        return self.getitem_xclass(idx, ctx=ctx)[1]")], "G9.fused-projection"),
    ("fused declaration dropped", [(F, "        return super().fused_operations + [[\"x\", \"class\"]]", "        return super().fused_operations")], "G9.fused-projection"),
    ("mix before shape unification", [(F, "            # pad/cut samples\n            if self.mixup_unify_shapes_mode is None:", "            x_lamb = lamb.view(*[1] * x.ndim)\n            x.mul_(x_lamb).add_(x2.mul_(1. - x_lamb))\n            # pad/cut samples\n            if self.mixup_unify_shapes_mode is None:")], None),
    ("one_hot without num_classes", [(OH, "y = one_hot(y, num_classes=n_classes)\n    assert y.ndim == 1", "y = one_hot(y)\n    assert y.ndim == 1")], "G8.label-one-hot"),
]

BENIGN = [
    ("mixed label written slot by slot, second weight added", [(OH, "def to_one_hot_matrix(y, n_classes):", "def to_mixed_vector(y1, y2, weight, n_classes):\n    mixed = torch.zeros(n_classes)\n    mixed[y1] = weight\n    mixed[y2] += 1. - weight\n    return mixed\n\n\ndef to_one_hot_matrix(y, n_classes):")]),
    ("label mix via the view", [(F, "cls.mul_(lamb).add_(cls2.mul_(1. - lamb))", "cls.mul_(lamb).add_(cls2.mul_(-lamb + 1.))")]),
    ("projection without keyword", [(F, "        return self.getitem_xclass(idx, ctx=ctx)[0]", "        return self.getitem_xclass(idx, ctx)[0]")]),
    ("partner index via local bound", [(F, "        idx2 = rng.integers(len(self))\n", "        idx2 = rng.integers(len(self))\n        assert 0 <= idx2\n")]),
]
