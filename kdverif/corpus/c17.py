"""Mutant / benign corpus for C17 (mask collators)."""
D = "kappadata/collators/kd_dino_mask_collator.py"
J = "kappadata/collators/kd_ijepa_mask_collator.py"

MUTANTS = [
    ("dino: every mask is generated", [(D, "        for i in range(num_masked_samples):", "        for i in range(len(masks)):")], "G8.dino-budget"),
    ("dino: budget ignores the view count", [(D, "num_masked_samples = int(batch_size * self.num_views * self.mask_prob)", "num_masked_samples = int(batch_size * self.mask_prob)")], "G8.dino-budget"),
    ("dino: one mask per sample only", [(D, "for _ in range(batch_size * self.num_views)]", "for _ in range(batch_size)]")], "G8.dino-budget"),
    ("dino: always the first mask", [(D, "self._generate_mask(masks[i], num_masked_patches_total)", "self._generate_mask(masks[0], num_masked_patches_total)")], "G8.dino-budget"),
    ("dino: total budget passed as remaining", [(D, "delta = self._mask_block(mask, num_masked_patches_remaining)", "delta = self._mask_block(mask, num_masked_patches_total)")], "G8.dino-budget"),
    ("dino: budget test dropped", [(D, "            if num_unmasked_patches_in_block > num_remaining_patches_to_mask:\n                continue\n", "")], "G8.dino-budget"),
    ("dino: budget test inverted", [(D, "            if num_unmasked_patches_in_block > num_remaining_patches_to_mask:\n                continue\n", "            if num_unmasked_patches_in_block < num_remaining_patches_to_mask:\n                continue\n")], "G8.dino-budget"),
    ("dino: count grows for every patch of the block", [(D, "                    if mask[i, j] == 0:\n                        mask[i, j] = 1\n                        delta += 1", "                    if mask[i, j] == 0:\n                        mask[i, j] = 1\n                    delta += 1")], "G8.dino-budget"),
    ("dino: block may start too low", [(D, "top = self.rng.integers(0, self.height - h + 1)", "top = self.rng.integers(0, self.height - h + 2)")], "G6.block-bounds"),
    ("dino: column offset from the height", [(D, "left = self.rng.integers(0, self.width - w + 1)", "left = self.rng.integers(0, self.height - w + 1)")], "G6.block-bounds"),
    ("dino: batch replaced", [(D, "        ctx[\"mask\"] = mask\n        return batch", "        ctx[\"mask\"] = mask\n        batch = (batch, mask)\n        return batch")], "G9.batch-pass-through"),
    ("ijepa: sizes from a fixed seed", [(J, "generator = torch.Generator().manual_seed(seed)", "generator = torch.Generator().manual_seed(0)")], "G4.step-seeded-sizes"),
    ("ijepa: sizes from the collator rng", [(J, "rand = torch.rand(1, generator=generator).item()", "rand = float(self.rng.random())")], "G4.step-seeded-sizes"),
    ("ijepa: step without the lock", [(J, "        with i.get_lock():\n            i.value += 1\n            v = i.value", "        i.value += 1\n        v = i.value")], "G4.step-seeded-sizes"),
    ("ijepa: value read after releasing the lock", [(J, "        with i.get_lock():\n            i.value += 1\n            v = i.value", "        with i.get_lock():\n            i.value += 1\n        v = i.value")], "G4.step-seeded-sizes"),
    ("ijepa: complements accumulated over the batch", [(J, "        for _ in range(batch_size):\n            # predictor masks\n            pred_masks, pred_masks_complement = [], []", "        pred_masks_complement = []\n        for _ in range(batch_size):\n            # predictor masks\n            pred_masks = []")], "G9.own-complements"),
    ("ijepa: encoder constrained by the masks themselves", [(J, "                pred_masks_complement.append(mask_complement)", "                pred_masks_complement.append(mask)")], "G9.own-complements"),
    ("ijepa: minimum length not updated for encoder masks", [(J, "                min_keep_enc = min(min_keep_enc, len(mask))\n", "")], "G9.own-complements"),
    ("ijepa: predictor masks not cut", [(J, "predictor_masks = [[mask[:min_keep_pred] for mask in masks] for masks in predictor_masks]", "predictor_masks = [[mask for mask in masks] for masks in predictor_masks]")], "G9.own-complements"),
    ("ijepa: block height not clamped", [(J, "        h = min(h, self.seqlen_h - 1)\n", "")], "G6.block-bounds"),
    ("ijepa: offset range includes the far edge", [(J, "    def _sample_block_mask(self, block_size):\n        block_h, block_w = block_size\n\n        # sample bounding box\n        top = self.rng.integers(0, self.seqlen_h - block_h)", "    def _sample_block_mask(self, block_size):\n        block_h, block_w = block_size\n\n        # sample bounding box\n        top = self.rng.integers(0, self.seqlen_h - block_h + 2)")], "G6.block-bounds"),
]

BENIGN = [
    ("dino: budget via locals", [(D, "num_masked_samples = int(batch_size * self.num_views * self.mask_prob)", "n_total = batch_size * self.num_views\n        num_masked_samples = int(n_total * self.mask_prob)")]),
    ("dino: remaining inline", [(D, "            num_masked_patches_remaining = num_masked_patches_total - num_masked_patches\n            delta = self._mask_block(mask, num_masked_patches_remaining)", "            delta = self._mask_block(mask, num_masked_patches_total - num_masked_patches)")]),
    ("ijepa: seed inline", [(J, "        seed = self.step()\n        generator = torch.Generator().manual_seed(seed)", "        generator = torch.Generator().manual_seed(self.step())")]),
    ("ijepa: tighter offset range", [(J, "    def _sample_block_mask(self, block_size):\n        block_h, block_w = block_size\n\n        # sample bounding box\n        top = self.rng.integers(0, self.seqlen_h - block_h)", "    def _sample_block_mask(self, block_size):\n        block_h, block_w = block_size\n\n        # sample bounding box\n        top = self.rng.integers(0, self.seqlen_h - block_h + 1)")]),
]
