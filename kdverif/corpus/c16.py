"""Mutant / benign corpus for C16 (label-rewriting wrappers)."""
AG = "kappadata/wrappers/dataset_wrappers/allgather_class_wrapper.py"
OW = "kappadata/wrappers/dataset_wrappers/overwrite_classes_wrapper.py"
PL = "kappadata/wrappers/dataset_wrappers/kd_pseudo_label_wrapper.py"
SM = "kappadata/wrappers/sample_wrappers/semi_wrapper.py"
SW = "kappadata/wrappers/dataset_wrappers/swap_label_wrapper.py"
CG = "kappadata/wrappers/dataset_wrappers/class_groups_wrapper.py"
RS = "kappadata/wrappers/dataset_wrappers/random_superclass_wrapper.py"
LS = "kappadata/wrappers/sample_wrappers/label_smoothing_wrapper.py"
RC = "kappadata/wrappers/sample_wrappers/kd_random_class_wrapper.py"
OH = "kappadata/wrappers/sample_wrappers/one_hot_wrapper.py"

MUTANTS = [
    ("pseudo labels: bulk threshold strict where per-sample is not", [(PL, "argmax[probs <= self.threshold] = -1", "argmax[probs < self.threshold] = -1")], "G9.threshold-twins"),
    ("pseudo labels: per-sample threshold made inclusive", [(PL, "if pseudo_label_probs[argmax] > self.threshold:", "if pseudo_label_probs[argmax] >= self.threshold:")], "G9.threshold-twins"),
    ("allgather double translation (original defect)", [(AG, "return [self.getitem_class(idx) for idx in range(len(self))]", "return [self.getitem_class(self.indices[idx]) for idx in range(len(self))]")], "G5.index-space"),
    # not detectable by a sound structural rule (the index map simply becomes unused; flagging unused attributes would also
    # fire on behaviour-preserving edits): ("allgather per-sample path untranslated", getitem_class without self.indices)
    ("overwrite wrapper loses its bulk accessor (original defect)", [(OW, "\n    def getall_class(self):\n        return [self.getitem_class(idx) for idx in range(len(self))]\n", "\n")], "G9.bulk-twin"),
    ("pseudo labels: bulk ignores the threshold (original defect)", [(PL, "            if self.threshold is None:\n                return self.pseudo_labels.argmax(dim=1).tolist()\n            # same thresholding as in _getitem_class\n            probs, argmax = self.pseudo_labels.softmax(dim=1).max(dim=1)\n            argmax[probs <= self.threshold] = -1\n            return argmax.tolist()\n", "            return self.pseudo_labels.argmax(dim=1).tolist()\n")], "G4.common-source"),
    ("pseudo labels: bulk no longer rejects sampled labels", [(PL, "        if self.tau is not None or self.topk is not None:\n            raise NotImplementedError\n        if self.pseudo_labels.ndim == 1:\n            return self.pseudo_labels.tolist()", "        if self.pseudo_labels.ndim == 1:\n            return self.pseudo_labels.tolist()")], "G4.common-source"),
    ("semi wrapper mutates the borrowed list (original defect)", [(SM, "        cls = list(self.dataset.getall_class())\n", "        cls = self.dataset.getall_class()\n")], "G8.no-borrowed-mutation"),
    ("semi wrapper bulk ignores the unlabeled set", [(SM, "        for idx in self.semi_idxs:\n            cls[idx] = -1\n        return cls", "        return cls")], "G4.common-source"),
    ("semi wrapper unseeded", [(SM, "rng = np.random.default_rng(seed=seed)", "rng = np.random.default_rng()")], "G2.seeded-construction"),
    ("swap labels drawn from the global RNG", [(SW, "new_classes = rng.integers(low=0, high=num_classes, size=(len(dataset),))", "new_classes = np.random.randint(low=0, high=num_classes, size=(len(dataset),))")], "G2.seeded-construction"),
    ("swap wrapper bulk returns the original labels", [(SW, "    def getall_class(self):\n        return self.classes.tolist()", "    def getall_class(self):\n        return self.dataset.getall_class()")], "G4.common-source"),
    ("swap wrapper getall_apply NameError (original defect)", [(SW, "return self.apply.tolist()", "return self.apply[idx].tolist()")], "G1.unbound-name"),
    ("class groups: bulk skips the within-class index", [(CG, "return [self._map_cls(idx=idx, cls=cls) for idx, cls in enumerate(classes)]", "return [int(self.cls_to_clsgroup[cls]) * self.classes_per_group for cls in classes]")], "G4.common-source"),
    ("class groups: generator ignores the seed", [(CG, "rng = GlobalRng() if seed is None else np.random.default_rng(seed=seed)", "rng = GlobalRng() if seed is None else np.random.default_rng(seed=0)")], "G2.seeded-construction"),
    ("class groups: always the global RNG", [(CG, "rng = GlobalRng() if seed is None else np.random.default_rng(seed=seed)", "rng = GlobalRng()")], "G2.seeded-construction"),
    ("random superclass: bulk without the split offset", [(RS, "        return [self._map_cls(idx=idx, cls=cls) for idx, cls in enumerate(classes)]", "        return [self.perm[cls] // self.classes_per_superclass for cls in classes]")], "G4.common-source"),
    ("random class wrapper: global randint", [(RC, "return torch.randint(num_classes, size=(size,), generator=generator)", "return torch.randint(num_classes, size=(size,))")], "G2.seeded-construction"),
    ("label smoothing: on-value without the off share", [(LS, "on_value = 1. - self.smoothing + off_value", "on_value = 1. - self.smoothing")], "G6.smoothing-mass"),
    ("label smoothing: off-value over n-1", [(LS, "off_value = self.smoothing / n_classes\n        on_value", "off_value = self.smoothing / (n_classes - 1)\n        on_value")], "G6.smoothing-mass"),
    ("one-hot over a fixed class count", [(OH, "return to_one_hot_vector(y, n_classes=self.dataset.getdim_class())", "return to_one_hot_vector(y, n_classes=1000)")], "G6.smoothing-mass"),
]

BENIGN = [
    ("pseudo labels: bulk threshold mirrored", [(PL, "argmax[probs <= self.threshold] = -1", "argmax[self.threshold >= probs] = -1")]),
    ("semi wrapper copies with slicing", [(SM, "        cls = list(self.dataset.getall_class())\n", "        cls = self.dataset.getall_class()[:]\n")]) if False else
    ("semi wrapper builds a new list", [(SM, "        cls = list(self.dataset.getall_class())\n        for idx in self.semi_idxs:\n            cls[idx] = -1\n        return cls", "        cls = self.dataset.getall_class()\n        return [-1 if i in self.semi_idxs else c for i, c in enumerate(cls)]")]),
    ("overwrite bulk via the table", [(OW, "        return [self.getitem_class(idx) for idx in range(len(self))]", "        return [self.getitem_class(i) for i in range(len(self.classes))]")]),
    ("allgather bulk through the wrapped accessor", [(AG, "return [self.getitem_class(idx) for idx in range(len(self))]", "return [self.dataset.getitem_class(self.indices[idx]) for idx in range(len(self))]")]),
    ("smoothing on-value reordered", [(LS, "on_value = 1. - self.smoothing + off_value", "on_value = off_value + (1. - self.smoothing)")]),
]
