"""Mutant / benign corpus for C05 (InterleavedSampler side passes)."""
F = "kappadata/samplers/interleaved_sampler.py"

UPD = "                            should_iter = should_iter or update % config.every_n_updates == 0\n"
EPO = "                            should_iter = sample_in_epoch == samples_per_epoch and epoch % config.every_n_epochs == 0\n"
PASS_T = ("                        index_offset = self.index_offsets[config_idx]\n"
          "                        interleaved_batch_size = config.batch_size or self.batch_size\n"
          "                        sample_in_interleaved = 0\n")
PASS_E = ("            index_offset = self.index_offsets[config_idx]\n"
          "            sample_in_interleaved = 0\n"
          "            interleaved_batch_size = config.batch_size or self.batch_size\n")

MUTANTS = [
    ("updates verdict overwrites the epochs verdict (the original defect)",
     [(F, UPD, "                            should_iter = update % config.every_n_updates == 0\n")], "G4.decision-function"),
    ("samples verdict can reset the flag",
     [(F, "                            elif sample_at_last_update // config.every_n_samples < sample // config.every_n_samples:\n                                should_iter = True\n",
       "                            else:\n                                should_iter = sample_at_last_update // config.every_n_samples < sample // config.every_n_samples\n")],
     "G4.decision-function"),
    ("flag initialised once per update, not per config",
     [(F, "                    for config_idx, config in enumerate(self.configs):\n                        # check if interleaved dataset has to be iterated\n                        should_iter = False\n",
       "                    should_iter = False\n                    for config_idx, config in enumerate(self.configs):\n                        # check if interleaved dataset has to be iterated\n")],
     "G4.decision-function"),
    ("epochs interval tested against the update counter", [(F, "epoch % config.every_n_epochs == 0", "update % config.every_n_epochs == 0")], "G4.decision-function"),
    ("updates interval tested against the sample counter", [(F, "update % config.every_n_updates == 0", "sample % config.every_n_updates == 0")], "G4.decision-function"),
    ("updates branch consults the samples interval", [(F, "update % config.every_n_updates == 0", "update % config.every_n_samples == 0")], "G4.decision-function"),
    ("epoch verdict without the epoch-end condition", [(F, EPO, "                            should_iter = epoch % config.every_n_epochs == 0\n")], "G4.decision-function"),
    ("remainder compared with 1", [(F, "update % config.every_n_updates == 0", "update % config.every_n_updates == 1")], "G4.decision-function"),
    ("modulo operands swapped", [(F, "update % config.every_n_updates == 0", "config.every_n_updates % update == 0")], "G4.decision-function"),
    ("every_n_samples never consulted",
     [(F, "                        if config.every_n_samples is not None:\n                            if sample % config.every_n_samples == 0:\n                                should_iter = True\n                            elif sample_at_last_update // config.every_n_samples < sample // config.every_n_samples:\n                                should_iter = True\n", "")],
     "G4.decision-function"),
    ("crossing test with <=", [(F, "sample_at_last_update // config.every_n_samples < sample // config.every_n_samples", "sample_at_last_update // config.every_n_samples <= sample // config.every_n_samples")], "G4.decision-function"),
    ("bookkeeping refreshed before the config loop",
     [(F, "                    sample_at_last_update = sample\n                    # check if end is reached\n", "                    # check if end is reached\n"),
      (F, "                        epoch += 1\n\n                    for config_idx", "                        epoch += 1\n                    sample_at_last_update = sample\n\n                    for config_idx")],
     "G8.pass-position"),
    ("bookkeeping refreshed only at epoch ends",
     [(F, "                    sample_at_last_update = sample\n                    # check if end is reached\n", "                    if sample_in_epoch == samples_per_epoch:\n                        sample_at_last_update = sample\n                    # check if end is reached\n")],
     "G8.pass-position"),
    ("config loop before the update increment",
     [(F, "                    update += 1\n                    if sample_in_epoch == samples_per_epoch:\n                        epoch += 1\n\n", ""),
      (F, "                    sample_at_last_update = sample\n                    # check if end is reached\n", "                    update += 1\n                    if sample_in_epoch == samples_per_epoch:\n                        epoch += 1\n                    sample_at_last_update = sample\n                    # check if end is reached\n")],
     "G8.pass-position"),
    ("configs visited in reverse", [(F, "                    for config_idx, config in enumerate(self.configs):\n                        # check", "                    for config_idx, config in reversed(list(enumerate(self.configs))):\n                        # check")], None),
    ("offset of the previous config", [(F, "                        index_offset = self.index_offsets[config_idx]\n", "                        index_offset = self.index_offsets[config_idx - 1]\n")], "G5.offset-pairing"),
    ("eval loop: offset of the main dataset", [(F, "enumerate(self.configs):\n            index_offset = self.index_offsets[config_idx]\n", "enumerate(self.configs):\n            index_offset = self.index_offsets[0]\n")], "G5.offset-pairing"),
    ("eval loop: no offset added", [(F, "                    yield True, index_offset + interleaved_idx\n                else:\n                    yield False, index_offset + interleaved_idx\n", "                    yield True, interleaved_idx\n                else:\n                    yield False, interleaved_idx\n")], "G5.offset-pairing"),
    ("pass iterates the first config's sampler", [(F, "                        for interleaved_idx in config.sampler:\n", "                        for interleaved_idx in self.configs[0].sampler:\n")], None),
    ("pass flag uses the main batch size only", [(F, PASS_T, PASS_T.replace("config.batch_size or self.batch_size", "self.batch_size"))], "G8.pass-whole"),
    ("pass flag prefers the main batch size", [(F, PASS_T, PASS_T.replace("config.batch_size or self.batch_size", "self.batch_size or config.batch_size"))], "G8.pass-whole"),
    ("pass counter not reset per pass",
     [(F, PASS_T, PASS_T.replace("                        sample_in_interleaved = 0\n", "")),
      (F, "        sample_at_last_update = self.start_sample\n", "        sample_at_last_update = self.start_sample\n        sample_in_interleaved = 0\n")], "G8.pass-whole"),
    ("eval pass: short final batch not flagged", [(F, "                if (\n                        sample_in_interleaved % interleaved_batch_size == 0 or\n                        sample_in_interleaved == len(config.sampler)\n                ):", "                if (\n                        sample_in_interleaved % interleaved_batch_size == 0\n                ):")], "G8.pass-whole"),
    ("pass stops after the first full batch", [(F, "                                yield True, index_offset + interleaved_idx\n                            else:", "                                yield True, index_offset + interleaved_idx\n                                break\n                            else:")], "G8.pass-whole"),
    ("eval loop skips configs without an epoch interval", [(F, "        for config_idx, config in enumerate(self.configs):\n            index_offset", "        for config_idx, config in enumerate(self.configs):\n            if config.every_n_epochs is None:\n                continue\n            index_offset")], "G8.eval-all"),
    ("zero updates budget not routed to the eval loop", [(F, "if self.epochs == 0 or self.updates == 0 or self.samples == 0:", "if self.epochs == 0 or self.samples == 0:")], "G8.eval-all"),
    ("first offset is the sampler length", [(F, "self.index_offsets = [len(_get_data_source(self.main_sampler))]", "self.index_offsets = [len(self.main_sampler)]")], "G9.offset-table"),
    ("offset step adds the sampler length", [(F, "self.index_offsets[-1] + len(_get_data_source(config.sampler))", "self.index_offsets[-1] + len(config.sampler)")], "G9.offset-table"),
    ("concat parts: configs first", [(F, "            [_get_data_source(self.main_sampler)] +\n            [_get_data_source(config.sampler) for config in self.configs]\n", "            [_get_data_source(config.sampler) for config in self.configs] +\n            [_get_data_source(self.main_sampler)]\n")], "G9.offset-table"),
    ("collators in reverse config order", [(F, "[config.collator or default_collate for config in self.configs]", "[config.collator or default_collate for config in reversed(self.configs)]")], "G9.offset-table"),
    ("dispatch on the last sample's dataset", [(F, "return self.collators[dataset_idxs[0]](data)", "return self.collators[dataset_idxs[-1]](data)")], "G8.collator-dispatch"),
    ("single-dataset assertion dropped", [(F, "        assert all(dataset_idxs[0] == idx for idx in dataset_idxs)\n", "")], "G8.collator-dispatch"),
    ("concat getitem: bisect_left", [(F, "class _InterleavedConcatDataset(ConcatDataset):\n    \"\"\" same as ConcatDataset but it returns the dataset index \"\"\"\n\n    def __getitem__(self, idx):\n        if idx < 0:\n            if -idx > len(self):\n                raise ValueError(\"absolute value of index should not exceed dataset length\")\n            idx = len(self) + idx\n        dataset_idx = bisect.bisect_right(self.cumulative_sizes, idx)",
                                     "class _InterleavedConcatDataset(ConcatDataset):\n    \"\"\" same as ConcatDataset but it returns the dataset index \"\"\"\n\n    def __getitem__(self, idx):\n        if idx < 0:\n            if -idx > len(self):\n                raise ValueError(\"absolute value of index should not exceed dataset length\")\n            idx = len(self) + idx\n        dataset_idx = bisect.bisect_left(self.cumulative_sizes, idx)")], "G8.collator-dispatch"),
    ("concat getitem: local index off by one part", [(F, "            sample_idx = idx - self.cumulative_sizes[dataset_idx - 1]\n        return dataset_idx, self.datasets", "            sample_idx = idx - self.cumulative_sizes[dataset_idx]\n        return dataset_idx, self.datasets")], "G8.collator-dispatch"),
]

BENIGN = [
    ("updates verdict with |=", [(F, UPD, "                            should_iter |= update % config.every_n_updates == 0\n")]) if False else
    ("updates verdict as conditional True", [(F, UPD, "                            if update % config.every_n_updates == 0:\n                                should_iter = True\n")]),
    ("samples verdict merged into one or-expression",
     [(F, "                            if sample % config.every_n_samples == 0:\n                                should_iter = True\n                            elif sample_at_last_update // config.every_n_samples < sample // config.every_n_samples:\n                                should_iter = True\n",
       "                            if sample % config.every_n_samples == 0 or sample_at_last_update // config.every_n_samples < sample // config.every_n_samples:\n                                should_iter = True\n")]),
    ("guard inverted into a nested block",
     [(F, "                        if not should_iter:\n                            continue\n" + PASS_T, "                        if not should_iter:\n                            continue\n" + PASS_T.replace("index_offset = self.index_offsets[config_idx]", "index_offset = self.index_offsets[config_idx]  # offset"))]),
    ("offset inlined in the eval loop", [(F, "                    yield True, index_offset + interleaved_idx\n                else:\n                    yield False, index_offset + interleaved_idx\n", "                    yield True, self.index_offsets[config_idx] + interleaved_idx\n                else:\n                    yield False, interleaved_idx + self.index_offsets[config_idx]\n")]),
    ("pass flag hoisted into a variable", [(F, "                            if (\n                                    sample_in_interleaved % interleaved_batch_size == 0 or\n                                    sample_in_interleaved == len(config.sampler)\n                            ):\n                                yield True, index_offset + interleaved_idx\n                            else:\n                                yield False, index_offset + interleaved_idx\n",
                                            "                            closes = sample_in_interleaved == len(config.sampler) or sample_in_interleaved % interleaved_batch_size == 0\n                            yield closes, index_offset + interleaved_idx\n")]),
    ("uniqueness assertion via set", [(F, "        assert all(dataset_idxs[0] == idx for idx in dataset_idxs)\n", "        assert len(set(dataset_idxs)) == 1\n")]),
    ("offset table over all configs", [(F, "for config in self.configs[:-1]:", "for config in self.configs:")]),
    ("locals renamed", [(F, "should_iter", "run_pass")]) if False else
    ("collator comprehension variable renamed", [(F, "[config.collator or default_collate for config in self.configs]", "[c.collator or default_collate for c in self.configs]")]),
]
