"""Mutant / benign corpus for C13 (balanced / semi / weighted samplers)."""
CB = "kappadata/samplers/class_balanced_sampler.py"
WS = "kappadata/samplers/weighted_sampler.py"
SS = "kappadata/samplers/semi_sampler.py"

MUTANTS = [
    ("weighted: epoch draw seeded per rank", [(WS, "manual_seed(self.seed + self.epoch)", "manual_seed(self.seed + self.epoch + self.rank)")], "G9.weighted-no-repeat"),
    ("semi: mode all counts the labeled pool twice", [(SS, "(len(self.labeled_idxs) + len(self.unlabeled_idxs)) // (self.num_labeled + self.num_unlabeled)", "(len(self.labeled_idxs) + len(self.labeled_idxs)) // (self.num_labeled + self.num_unlabeled)")], "G9.semi-length"),
    ("semi: mode unlabeled divides by the labeled chunk", [(SS, "num_chunks = len(self.unlabeled_idxs) // self.num_unlabeled", "num_chunks = len(self.unlabeled_idxs) // self.num_labeled")], "G9.semi-length"),
    ("semi: stream seed without the rank", [(SS, "manual_seed(self.seed + rank_seed.item() + epoch_seed.item())", "manual_seed(self.seed + epoch_seed.item())")], "G4.semi-seed"),
    ("semi: stream seed without the epoch", [(SS, "manual_seed(self.seed + rank_seed.item() + epoch_seed.item())", "manual_seed(self.seed + rank_seed.item())")], "G4.semi-seed"),
    ("semi: rank seed drawn from the epoch", [(SS, "rank_seed = torch.empty((), dtype=torch.int32).random_(generator=torch.Generator().manual_seed(self.rank))", "rank_seed = torch.empty((), dtype=torch.int32).random_(generator=torch.Generator().manual_seed(self.epoch))")], "G4.semi-seed"),
    ("semi: pool permutation on the global RNG", [(SS, "yield from torch.randperm(len(idxs), generator=generator).tolist()", "yield from torch.randperm(len(idxs)).tolist()")], "G4.semi-seed"),
    ("semi: unlabeled positions index the labeled pool", [(SS, "                yield self.unlabeled_idxs[next(unlabeled_iterator)]", "                yield self.labeled_idxs[next(unlabeled_iterator)]")], "G9.semi-pools"),
    ("semi: iterators built over the wrong pools", [(SS, "        labeled_iterator = _iterator(self.labeled_idxs)\n        unlabeled_iterator = _iterator(self.unlabeled_idxs)\n", "        labeled_iterator = _iterator(self.unlabeled_idxs)\n        unlabeled_iterator = _iterator(self.labeled_idxs)\n")], "G9.semi-pools"),
    ("semi: split uses <=", [(SS, "if i % (self.num_labeled + self.num_unlabeled) < self.num_labeled:", "if i % (self.num_labeled + self.num_unlabeled) <= self.num_labeled:")], "G9.semi-pools"),
    ("semi: split modulo num_labeled only", [(SS, "if i % (self.num_labeled + self.num_unlabeled) < self.num_labeled:", "if i % self.num_labeled < self.num_labeled:")], "G9.semi-pools"),
    ("semi: pool iterator draws single random elements", [(SS, "                yield from torch.randperm(len(idxs), generator=generator).tolist()", "                yield torch.randint(len(idxs), size=(), generator=generator).item()")], "G9.semi-pools"),
    ("semi: pool iterator yields half a permutation", [(SS, "                yield from torch.randperm(len(idxs), generator=generator).tolist()", "                yield from torch.randperm(len(idxs) // 2 + 1, generator=generator).tolist()")], "G9.semi-pools"),
    ("semi: stream runs over the effective length", [(SS, "        for i in range(len(self)):", "        for i in range(self.effective_length):")], "G9.semi-pools"),
    ("weighted: with replacement", [(WS, "replacement=False, generator=generator)", "replacement=True, generator=generator)")], "G9.weighted-no-repeat"),
    ("weighted: draws len(self) samples", [(WS, "torch.multinomial(self.weights, self.effective_length, replacement=False", "torch.multinomial(self.weights, len(self), replacement=False")], "G9.weighted-no-repeat"),
    ("balanced: permutation over the number of classes", [(CB, "perm = torch.randperm(len(indices_per_class), generator=generator)", "perm = torch.randperm(self.num_classes, generator=generator)")], "G8.balanced-progress"),
    ("balanced: takes the whole permutation", [(CB, "                perm = perm[:remaining_indices]\n", "")], "G8.balanced-progress"),
    ("balanced: decrement by one", [(CB, "                remaining_indices -= len(perm)", "                remaining_indices -= 1")], "G8.balanced-progress"),
    ("balanced: remaining count not reset per class", [(CB, "        for indices_per_class in self.indices_per_class:\n            remaining_indices = self.samples_per_class\n", "        remaining_indices = self.samples_per_class\n        for indices_per_class in self.indices_per_class:\n")], "G8.balanced-progress"),
    ("balanced: indexes the first class's pool", [(CB, "                indices.append(indices_per_class[perm])", "                indices.append(self.indices_per_class[0][perm])")], "G8.balanced-progress"),
]

BENIGN = [
    ("weighted: generator seeded in a second statement", [(WS, "generator = torch.Generator().manual_seed(self.seed + self.epoch)", "generator = torch.Generator()\n        generator.manual_seed(self.epoch + self.seed)")]),
    ("semi: mode all through a local, operands swapped", [(SS, "num_chunks = (len(self.labeled_idxs) + len(self.unlabeled_idxs)) // (self.num_labeled + self.num_unlabeled)", "num_samples = len(self.unlabeled_idxs) + len(self.labeled_idxs)\n            num_chunks = num_samples // (self.num_unlabeled + self.num_labeled)")]),
    ("semi: positional split rewritten", [(SS, "if i % (self.num_labeled + self.num_unlabeled) < self.num_labeled:", "if self.num_labeled > i % (self.num_unlabeled + self.num_labeled):")]),
    ("semi: seed via local", [(SS, "        generator = torch.Generator().manual_seed(self.seed + rank_seed.item() + epoch_seed.item())\n", "        stream_seed = self.seed + rank_seed.item() + epoch_seed.item()\n        generator = torch.Generator().manual_seed(stream_seed)\n")]),
    ("weighted: keyword arguments", [(WS, "torch.multinomial(self.weights, self.effective_length, replacement=False", "torch.multinomial(input=self.weights, num_samples=self.effective_length, replacement=False")]),
    ("balanced: taken indices in a separate local", [(CB, "                perm = perm[:remaining_indices]\n                indices.append(indices_per_class[perm])\n                remaining_indices -= len(perm)", "                taken = perm[:remaining_indices]\n                indices.append(indices_per_class[taken])\n                remaining_indices -= len(taken)")]),
]
