"""Mutant / benign corpus for C03 (dataset-manipulation wrappers)."""
D = "kappadata/wrappers/dataset_wrappers/"
PF, SU, CS, OS, IC, SH, FS, RP, CF, SC = (D + n + ".py" for n in (
    "percent_filter_wrapper", "subset_wrapper", "classwise_subset_wrapper", "oversampling_wrapper",
    "intra_class_shuffle_wrapper", "shuffle_wrapper", "fewshot_wrapper", "repeat_wrapper", "class_filter_wrapper",
    "sort_by_class_wrapper"))

MUTANTS = [
    ("percent filter: falsy zero upper bound (original defect)", [(PF, "self.to_percent = 1. if to_percent is None else to_percent", "self.to_percent = to_percent or 1.")], "G7.falsy-zero"),
    ("subset: falsy zero end index (original defect)", [(SU, "end_index = len(dataset) if end_index is None else end_index", "end_index = end_index or len(dataset)")], "G7.falsy-zero"),
    ("subset: falsy zero end percent (original defect)", [(SU, "end_percent = 1. if end_percent is None else end_percent", "end_percent = end_percent or 1.")], "G7.falsy-zero"),
    ("classwise: falsy zero end percent (original defect)", [(CS, "end_percent = 1. if end_percent is None else end_percent", "end_percent = end_percent or 1.")], "G7.falsy-zero"),
    ("oversampling: absent class guard removed (original defect)", [(OS, "                if len(indices_for_cur_class) == 0:\n                    continue\n", "")], "G8.loop-progress"),
    ("oversampling: guard after the loop", [(OS, "                # if class is not contained in dataset -> cant oversample\n                if len(indices_for_cur_class) == 0:\n                    continue\n                while remaining_indices > 0:\n                    perm = torch.arange(len(indices_for_cur_class))[:remaining_indices]\n                    indices.append(indices_for_cur_class[perm])\n                    remaining_indices -= len(perm)\n",
                                             "                while remaining_indices > 0:\n                    perm = torch.arange(len(indices_for_cur_class))[:remaining_indices]\n                    indices.append(indices_for_cur_class[perm])\n                    remaining_indices -= len(perm)\n                if len(indices_for_cur_class) == 0:\n                    continue\n")], "G8.loop-progress"),
    ("intra-class shuffle: class instead of instance (original defect)", [(IC, "rng = GlobalRng() if seed is None", "rng = GlobalRng if seed is None")], "G1.class-attribute"),
    ("intra-class shuffle: always the global RNG", [(IC, "rng = GlobalRng() if seed is None else np.random.default_rng(seed=seed)", "rng = GlobalRng()")], None),
    ("intra-class shuffle: fixed seed", [(IC, "np.random.default_rng(seed=seed)", "np.random.default_rng(seed=0)")], "G2.seed-only"),
    ("shuffle: global shuffle although seeded", [(SH, "        rng.shuffle(indices)", "        np.random.shuffle(indices)")], None),
    ("shuffle: module RNG bound unconditionally", [(SH, "        if seed is not None:\n            rng = np.random.default_rng(seed=seed)\n        else:\n            rng = np.random\n", "        rng = np.random\n")], None),
    ("fewshot: unseeded generator", [(FS, "rng = np.random.default_rng(seed=seed)", "rng = np.random.default_rng()")], None),
    ("fewshot: num_shots ignored", [(FS, "perm = rng.permutation(len(cur_indices))[:num_shots]", "perm = rng.permutation(len(cur_indices))[:1]")], "G4.selection-deps"),
    ("percent filter: ceil flag ignored", [(PF, "self.to_index = np.ceil(self.to_index) if self.ceil_to_index else int(self.to_index)", "self.to_index = int(self.to_index)")], "G4.selection-deps"),
    # out of reach (the selection still depends on whether min_size is None): ("repeat: min_size ignored", repetitions = 1)
    ("class filter: invalid classes ignored", [(CF, "            indices = all_indices[~np.isin(classes, list(self.invalid_classes))]", "            indices = all_indices")], "G4.selection-deps"),
    ("subset wrapper hands over all indices", [(SU, "        super().__init__(dataset=dataset, indices=indices)", "        super().__init__(dataset=dataset, indices=np.arange(len(dataset)))")], "G4.selection-deps"),
]

BENIGN = [
    ("explicit None test for the lower bound", [(SU, "                start_index = start_index or 0\n                assert start_index <= end_index\n                indices", "                start_index = 0 if start_index is None else start_index\n                assert start_index <= end_index\n                indices")]),
    ("oversampling guard via the class count", [(OS, "                if len(indices_for_cur_class) == 0:\n                    continue\n", "                if class_counts[i] == 0:\n                    continue\n")]),
    ("shuffle via permutation", [(SH, "        indices = np.arange(len(dataset), dtype=np.int64)\n        rng.shuffle(indices)\n", "        indices = np.arange(len(dataset), dtype=np.int64)\n        indices = indices[rng.permutation(len(indices))]\n")]),
    ("fewshot keyword", [(FS, "rng = np.random.default_rng(seed=seed)", "rng = np.random.default_rng(seed)")]),
]
