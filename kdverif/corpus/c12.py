"""Mutant / benign corpus for C12 (rank-aware samplers)."""
CB = "kappadata/samplers/class_balanced_sampler.py"
WS = "kappadata/samplers/weighted_sampler.py"
DS = "kappadata/samplers/distributed_sampler.py"
RS = "kappadata/samplers/random_sampler.py"

MUTANTS = [
    ("class-balanced: seed without epoch", [(CB, "torch.Generator().manual_seed(self.seed + self.epoch)", "torch.Generator().manual_seed(self.seed)")], "G4.seed-epoch"),
    ("class-balanced: seed includes the rank", [(CB, "torch.Generator().manual_seed(self.seed + self.epoch)", "torch.Generator().manual_seed(self.seed + self.epoch + self.rank)")], "G4.seed-epoch"),
    ("class-balanced: final shuffle on the global RNG", [(CB, "indices = indices[torch.randperm(len(indices), generator=generator)]", "indices = indices[torch.randperm(len(indices))]")], "G4.seed-epoch"),
    ("class-balanced: set_epoch stores elsewhere", [(CB, "    def set_epoch(self, epoch):\n        self.epoch = epoch", "    def set_epoch(self, epoch):\n        self.current_epoch = epoch")], "G4.seed-epoch"),
    ("class-balanced: rank and world swapped in the slice", [(CB, "indices[self.rank:self.effective_length:self.world_size]", "indices[self.world_size:self.effective_length:self.rank]")], "G9.rank-split"),
    ("class-balanced: truncation dropped", [(CB, "        indices = indices[:len(self)]\n", "")], "G9.rank-split"),
    ("class-balanced: __len__ rounds up", [(CB, "        return self.effective_length // self.world_size", "        return (self.effective_length + self.world_size - 1) // self.world_size")], "G9.rank-split"),
    ("weighted: seed without the seed attribute", [(WS, "torch.Generator().manual_seed(self.seed + self.epoch)", "torch.Generator().manual_seed(self.epoch)")], "G4.seed-epoch"),
    ("weighted: global multinomial", [(WS, "replacement=False, generator=generator)", "replacement=False)")], "G4.seed-epoch"),
    ("weighted: slice starts at rank + 1", [(WS, "indices[self.rank:self.effective_length:self.world_size]", "indices[self.rank + 1:self.effective_length:self.world_size]")], "G9.rank-split"),
    ("weighted: __len__ is the global length", [(WS, "        return self.effective_length // self.world_size", "        return self.effective_length")], "G9.rank-split"),
    ("distributed: seed without epoch", [(DS, "torch.Generator().manual_seed(self.seed + self.epoch)", "torch.Generator().manual_seed(self.seed)")], "G4.seed-epoch"),
    ("distributed: repeat after the rank split",
     [(DS, "        indices = indices.repeat_interleave(repeats=self.num_repeats)[:len(self.dataset)].tolist()\n", "        indices = indices.tolist()\n"),
      (DS, "        indices = indices[self.rank:self.total_size:self.num_replicas]\n", "        indices = indices[self.rank:self.total_size:self.num_replicas]\n        indices = torch.tensor(indices).repeat_interleave(repeats=self.num_repeats)[:self.num_samples].tolist()\n")], "G8.repeat-before-split"),
    ("distributed: repeated draw not cut back", [(DS, "indices.repeat_interleave(repeats=self.num_repeats)[:len(self.dataset)].tolist()", "indices.repeat_interleave(repeats=self.num_repeats).tolist()")], "G8.repeat-before-split"),
    ("distributed: step is the rank", [(DS, "indices[self.rank:self.total_size:self.num_replicas]", "indices[self.num_replicas:self.total_size:self.rank]")], "G9.rank-split"),
    ("distributed: math import removed again", [(DS, "import math\n\n", "")], "G1.unbound-name"),
    ("random: randperm without the generator", [(RS, "idxs = torch.randperm(n, generator=generator)", "idxs = torch.randperm(n)")], "G4.seed-epoch"),
]

BENIGN = [
    ("class-balanced: seed operands swapped", [(CB, "torch.Generator().manual_seed(self.seed + self.epoch)", "torch.Generator().manual_seed(self.epoch + self.seed)")]),
    ("class-balanced: seed via a local", [(CB, "        generator = torch.Generator().manual_seed(self.seed + self.epoch)\n", "        epoch_seed = self.seed + self.epoch\n        generator = torch.Generator().manual_seed(epoch_seed)\n")]),
    ("weighted: seed hashes epoch", [(WS, "torch.Generator().manual_seed(self.seed + self.epoch)", "torch.Generator().manual_seed(self.seed * 1000003 + self.epoch)")]),
    ("weighted: slice without explicit stop", [(WS, "indices[self.rank:self.effective_length:self.world_size]", "indices[self.rank::self.world_size]")]),
]
