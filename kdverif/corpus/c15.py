"""Mutant / benign corpus for C15 (strength scaling)."""
CJ = "kappadata/transforms/kd_color_jitter.py"
GB = "kappadata/transforms/kd_gaussian_blur_pil.py"
SO = "kappadata/transforms/kd_solarize.py"
GR = "kappadata/transforms/kd_random_grayscale.py"
RO = "kappadata/transforms/kd_random_rotation.py"
MS = "kappadata/utils/magnitude_sampler.py"
SC = "kappadata/transforms/base/kd_scheduled_transform.py"
CO = "kappadata/transforms/base/kd_compose_transform.py"
RA = "kappadata/transforms/kd_random_apply.py"
RC = "kappadata/transforms/kd_random_color_jitter.py"

MUTANTS = [
    ("colour jitter upper bound mirrored (original defect)", [(CJ, "self.brightness_ub = 1. + (self.og_brightness_ub - 1.) * factor", "self.brightness_ub = 1. + (1. - self.og_brightness_ub) * factor")], "G6.scale-endpoints"),
    ("hue upper clamp from below (original defect)", [(CJ, "self.hue_ub = min(0.5, self.og_hue_ub * factor)", "self.hue_ub = max(0.5, self.og_hue_ub * factor)")], "G6.scale-endpoints"),
    ("contrast lower bound scaled from the live value", [(CJ, "self.contrast_lb = max(0, 1 - (1 - self.og_contrast_lb) * factor)", "self.contrast_lb = max(0, 1 - (1 - self.contrast_lb) * factor)")], "G8.no-compounding"),
    ("saturation collapses to 0 instead of 1", [(CJ, "self.saturation_lb = max(0, 1 - (1 - self.og_saturation_lb) * factor)", "self.saturation_lb = max(0, self.og_saturation_lb * factor)")], "G6.scale-endpoints"),
    ("hue lower bound clamped at zero", [(CJ, "self.hue_lb = max(-0.5, self.og_hue_lb * factor)", "self.hue_lb = max(0, self.og_hue_lb * factor)")], "G6.scale-endpoints"),
    ("blur upper bound compounds", [(GB, "self.sigma_ub = self.sigma_lb + (self.og_sigma_ub - self.sigma_lb) * factor", "self.sigma_ub = self.sigma_lb + (self.sigma_ub - self.sigma_lb) * factor")], "G8.no-compounding"),
    ("blur collapses to sigma 0", [(GB, "self.sigma_ub = self.sigma_lb + (self.og_sigma_ub - self.sigma_lb) * factor", "self.sigma_ub = self.og_sigma_ub * factor")], "G6.scale-endpoints"),
    ("solarize PIL threshold interpolates towards 255", [(SO, "self.threshold = int(256 - (256 - self.og_threshold) * factor)", "self.threshold = int(255 - (255 - self.og_threshold) * factor)")], "G6.scale-endpoints"),
    ("solarize tensor threshold inverted", [(SO, "self.threshold = 1. - (1. - self.og_threshold) * factor", "self.threshold = self.og_threshold * factor")], "G6.scale-endpoints"),
    ("grayscale probability scaled from the live value", [(GR, "self.p = self.og_p * factor", "self.p = self.p * factor")], "G8.no-compounding"),
    ("grayscale probability complement", [(GR, "self.p = self.og_p * factor", "self.p = self.og_p * (1 - factor)")], "G6.scale-endpoints"),
    ("rotation lower bound not scaled to its own original", [(RO, "self.degree_lb = self.og_degree_lb * factor", "self.degree_lb = -self.og_degree_ub * factor")], "G6.scale-endpoints"),
    ("magnitude sampler overwrites its original", [(MS, "        self.magnitude = self.og_magnitude * factor\n", "        self.og_magnitude = self.og_magnitude * factor\n        self.magnitude = self.og_magnitude\n")], "G8.no-compounding"),
    ("magnitude std not reset", [(MS, "self.magnitude_std = self.og_magnitude_std * factor", "self.magnitude_std = self.magnitude_std * factor")], "G8.no-compounding"),
    ("magnitude minimum keeps its original", [(MS, "self.magnitude_min = self.og_magnitude_min * factor", "self.magnitude_min = self.og_magnitude_min + 0 * factor")], None),
    ("compose skips stochastic members", [(CO, "        for t in self.transforms:\n            if isinstance(t, KDTransform):\n                t.scale_strength(factor)", "        for t in self.transforms:\n            if isinstance(t, KDTransform) and t.is_deterministic:\n                t.scale_strength(factor)")], "G3.scale-forward"),
    ("compose halves the factor", [(CO, "                t.scale_strength(factor)", "                t.scale_strength(factor * 0.5)")], None),
    ("random apply stops forwarding (original defect)", [(RA, "    def _scale_strength(self, factor):\n        if isinstance(self.transform, KDTransform):\n            self.transform.scale_strength(factor)\n\n", "")], "G3.scale-forward"),
    ("random colour jitter forwards a constant", [(RC, "self.color_jitter.scale_strength(factor)", "self.color_jitter.scale_strength(1.)")], None),
    ("scheduled: worker term dropped from the batch index", [(SC, "batch_idx = self.sample_counter // self.batch_size * self.num_workers + self.rank", "batch_idx = self.sample_counter // self.batch_size + self.rank")], "G6.schedule-index"),
    ("scheduled: rank multiplied", [(SC, "batch_idx = self.sample_counter // self.batch_size * self.num_workers + self.rank", "batch_idx = self.sample_counter // self.batch_size * (self.num_workers + self.rank)")], "G6.schedule-index"),
    ("scheduled: true division", [(SC, "batch_idx = self.sample_counter // self.batch_size * self.num_workers + self.rank", "batch_idx = self.sample_counter / self.batch_size * self.num_workers + self.rank")], "G6.schedule-index"),
    ("scheduled: counter incremented before the index", [(SC, "            batch_idx = self.sample_counter // self.batch_size * self.num_workers + self.rank\n            strength = self.schedule.get_value(batch_idx, self.n_batches)\n            self.sample_counter += 1\n", "            self.sample_counter += 1\n            batch_idx = self.sample_counter // self.batch_size * self.num_workers + self.rank\n            strength = self.schedule.get_value(batch_idx, self.n_batches)\n")], "G6.schedule-index"),
    ("scheduled: counter counts batches", [(SC, "            self.sample_counter += 1\n", "            self.sample_counter += self.batch_size\n")], "G6.schedule-index"),
    ("scheduled: context reports the batch index", [(SC, "                ctx[self.ctx_key] = strength", "                ctx[self.ctx_key] = batch_idx")], "G6.schedule-index"),
    ("scheduled: applied strength rounded", [(SC, "            self.transform.scale_strength(strength)", "            self.transform.scale_strength(round(strength, 1))")], "G6.schedule-index"),
    ("scheduled: hook stores rank as worker count", [(SC, "        self.num_workers = num_workers\n", "        self.num_workers = rank\n")], "G6.schedule-index"),
]

BENIGN = [
    ("upper bound reordered", [(CJ, "self.brightness_ub = 1. + (self.og_brightness_ub - 1.) * factor", "self.brightness_ub = (1. - factor) + self.og_brightness_ub * factor")]),
    ("blur interpolation expanded", [(GB, "self.sigma_ub = self.sigma_lb + (self.og_sigma_ub - self.sigma_lb) * factor", "self.sigma_ub = self.sigma_lb * (1 - factor) + self.og_sigma_ub * factor")]),
    ("batch index reordered", [(SC, "batch_idx = self.sample_counter // self.batch_size * self.num_workers + self.rank", "batch_idx = self.rank + self.num_workers * (self.sample_counter // self.batch_size)")]),
    ("strength via a second local", [(SC, "            self.transform.scale_strength(strength)", "            value = strength\n            self.transform.scale_strength(value)")]) if False else
    ("grayscale factor first", [(GR, "self.p = self.og_p * factor", "self.p = factor * self.og_p")]),
]
