"""Mutant / benign corpus for C19 (in-memory cache)."""
SD = "kappadata/caching/shared_dict_dataset.py"
CD = "kappadata/caching/cached_dataset.py"

MUTANTS = [
    ("batched access tests a snapshot of the keys that never learns", [(SD, "    def dispose(self):\n        self.shared_dict.clear()", "    def _cached_getitems(self, indices):\n        cached_keys = set(self.shared_dict.keys())\n        samples = []\n        for idx in indices:\n            if idx in cached_keys:\n                sample = self.shared_dict[idx]\n            else:\n                sample = self.dataset[idx]\n                self.shared_dict[idx] = sample\n            samples.append(sample)\n        return samples\n\n    def dispose(self):\n        self.shared_dict.clear()")], "G8.other-loads"),
    ("load not stored", [(SD, "            sample = self.dataset[idx]\n            self.shared_dict[idx] = sample\n", "            sample = self.dataset[idx]\n")], "G8.lookup-or-load"),
    ("unconditional load", [(SD, "        if idx not in self.shared_dict:\n            sample = self.dataset[idx]\n            self.shared_dict[idx] = sample\n        else:\n            sample = self.shared_dict[idx]\n", "        sample = self.dataset[idx]\n        self.shared_dict[idx] = sample\n")], "G8.lookup-or-load"),
    ("stored under a wrapped key", [(SD, "            self.shared_dict[idx] = sample\n", "            self.shared_dict[idx % 1024] = sample\n")], "G8.lookup-or-load"),
    ("hit returns the previous key's entry", [(SD, "            sample = self.shared_dict[idx]\n", "            sample = self.shared_dict[idx - 1]\n")], "G8.lookup-or-load"),
    ("branches inverted", [(SD, "        if idx not in self.shared_dict:", "        if idx in self.shared_dict:")], "G8.lookup-or-load"),
    ("loads a neighbouring sample", [(SD, "            sample = self.dataset[idx]\n", "            sample = self.dataset[idx + 1]\n")], "G8.lookup-or-load"),
    ("stores a different object", [(SD, "            self.shared_dict[idx] = sample\n", "            self.shared_dict[idx] = idx\n")], "G8.lookup-or-load"),
    ("negative index normalised before lookup", [(SD, "    def _cached_getitem(self, idx):\n", "    def _cached_getitem(self, idx):\n        idx = abs(idx)\n")], "G8.lookup-or-load"),
    ("dispose keeps the entries", [(SD, "        self.shared_dict.clear()", "        pass")], "G8.dispose-clears"),
    ("dispose clears only large caches", [(SD, "        self.shared_dict.clear()", "        if len(self.shared_dict) > 1000:\n            self.shared_dict.clear()")], "G8.dispose-clears"),
    ("cache is a class attribute", [(SD, "class SharedDictDataset(CachedDataset):\n    def __init__(self, dataset, **kwargs):\n        super().__init__(dataset=dataset, **kwargs)\n        manager = Manager()\n        self.shared_dict = manager.dict()\n", "class SharedDictDataset(CachedDataset):\n    shared_dict = {}\n\n    def __init__(self, dataset, **kwargs):\n        super().__init__(dataset=dataset, **kwargs)\n")], None),
    ("transform never applied", [(CD, "        if self.transform is not None:\n            sample = self.transform(sample)\n", "")], "G8.transform-after-cache"),
    ("transform applied unconditionally", [(CD, "        if self.transform is not None:\n            sample = self.transform(sample)\n", "        sample = self.transform(sample)\n")], "G8.transform-after-cache"),
    ("transform result discarded", [(CD, "            sample = self.transform(sample)\n", "            self.transform(sample)\n")], "G8.transform-after-cache"),
    ("transformed sample memoised", [(CD, "            sample = self.transform(sample)\n", "            sample = self.transform(sample)\n            self.last_sample = sample\n")], "G8.transform-after-cache"),
    ("sample fetched with a shifted index", [(CD, "        sample = self._cached_getitem(idx)\n", "        sample = self._cached_getitem(idx + 1)\n")], "G8.transform-after-cache"),
    ("len of the cache", [(CD, "        return len(self.dataset)", "        return len(self.__dict__)")], "G8.transform-after-cache"),
]

BENIGN = [
    ("batched access with a snapshot that learns every loaded key", [(SD, "    def dispose(self):\n        self.shared_dict.clear()", "    def _cached_getitems(self, indices):\n        cached_keys = set(self.shared_dict.keys())\n        samples = []\n        for idx in indices:\n            if idx in cached_keys:\n                sample = self.shared_dict[idx]\n            else:\n                sample = self.dataset[idx]\n                self.shared_dict[idx] = sample\n                cached_keys.add(idx)\n            samples.append(sample)\n        return samples\n\n    def dispose(self):\n        self.shared_dict.clear()")]),
    ("batched access through the per-index lookup", [(SD, "    def dispose(self):\n        self.shared_dict.clear()", "    def _cached_getitems(self, indices):\n        return [self._cached_getitem(idx) for idx in indices]\n\n    def dispose(self):\n        self.shared_dict.clear()")]),
    ("early return on hit", [(SD, "        if idx not in self.shared_dict:\n            sample = self.dataset[idx]\n            self.shared_dict[idx] = sample\n        else:\n            sample = self.shared_dict[idx]\n        return sample\n", "        if idx in self.shared_dict:\n            return self.shared_dict[idx]\n        sample = self.dataset[idx]\n        self.shared_dict[idx] = sample\n        return sample\n")]),
    ("store inline", [(SD, "            sample = self.dataset[idx]\n            self.shared_dict[idx] = sample\n", "            self.shared_dict[idx] = sample = self.dataset[idx]\n")]),
    ("transform via conditional expression", [(CD, "        if self.transform is not None:\n            sample = self.transform(sample)\n        return sample\n", "        if self.transform is not None:\n            return self.transform(sample)\n        return sample\n")]),
    ("transform on a deep copy (repairs the aliasing finding)", [
        (CD, "import logging\n", "import copy\nimport logging\n"),
        (CD, "            sample = self.transform(sample)\n", "            sample = self.transform(copy.deepcopy(sample))\n")]),
    ("dispose replaces the dict", [(SD, "        self.shared_dict.clear()", "        self.shared_dict.clear()\n        self.logger.info('cleared')")]),
]
