"""Mutant / benign corpus for C01 (ModeWrapper)."""
F = "kappadata/wrappers/mode_wrapper.py"
TW = "kappadata/wrappers/torch_wrapper.py"
MX = "kappadata/wrappers/sample_wrappers/kd_mix_wrapper.py"

MUTANTS = [
    ("context kept on the instance", [(F, "        ctx = {} if self.propagate_ctx else None\n", "        if not hasattr(self, '_ctx'):\n            self._ctx = {}\n        ctx = self._ctx if self.propagate_ctx else None\n")], "G8.ctx-fresh"),
    ("context created per loader", [(F, "        for getitem_fn in self._getitem_fns:\n            item = getitem_fn(idx, ctx)\n", "        for getitem_fn in self._getitem_fns:\n            ctx = {} if self.propagate_ctx else None\n            item = getitem_fn(idx, ctx)\n")], "G8.ctx-fresh"),
    ("context created when not propagated", [(F, "ctx = {} if self.propagate_ctx else None", "ctx = None if self.propagate_ctx else {}")], "G8.ctx-fresh"),
    ("context stored for debugging", [(F, "        if self.return_ctx:\n            return items, ctx\n        return items\n\n    def __len__", "        self.last_ctx = ctx\n        if self.return_ctx:\n            return items, ctx\n        return items\n\n    def __len__")], "G8.ctx-fresh"),
    ("loader gets (ctx, idx)", [(F, "item = getitem_fn(idx, ctx)", "item = getitem_fn(ctx, idx)")], "G8.ctx-fresh"),
    ("pair returned without return_ctx", [(F, "        if self.return_ctx:\n            return items, ctx\n        return items\n\n    def __len__", "        if self.propagate_ctx:\n            return items, ctx\n        return items\n\n    def __len__")], "G9.return-shape"),
    ("single item kept in a tuple", [(F, "        if len(items) == 1:\n            # single item -> no tuple\n            items = items[0]", "        if len(items) == 0:\n            # single item -> no tuple\n            items = items[0]")], "G9.return-shape"),
    ("fused components stored at position j", [(F, "unpacked_items[fused_idx] = items[i][j]", "unpacked_items[j] = items[i][j]")], "G5.unfuse-pairing"),
    ("fused components read from result j", [(F, "unpacked_items[fused_idx] = items[i][j]", "unpacked_items[fused_idx] = items[j][i]")], "G5.unfuse-pairing"),
    ("plain result read by position", [(F, "unpacked_items[fused_idxs] = items[i]", "unpacked_items[fused_idxs] = items[fused_idxs]")], "G5.unfuse-pairing"),
    ("negative index not normalised", [(F, "        if idx < 0:\n            idx = len(self) + idx\n", "")], "G6.index-forms"),
    ("negative index normalised with the wrong sign", [(F, "            idx = len(self) + idx\n\n        items = []", "            idx = len(self) - idx\n\n        items = []")], "G6.index-forms"),
    ("positions collected in mode order", [(F, "                            idxs = []\n                            for op in fused_ops:\n                                idx = temp_items.index(op)\n                                temp_items[idx] = None\n                                idxs.append(idx)\n", "                            idxs = [j for j, it in enumerate(temp_items) if it in fused_ops]\n                            for j in idxs:\n                                temp_items[j] = None\n")], "G5.fuse-bookkeeping"),
    ("position append without loader-name append", [(F, "                    self.fused_to_idxs.append(i)\n                    self.fused_items.append(item)", "                    self.fused_to_idxs.append(i)")], "G5.fuse-bookkeeping"),
    ("group fused only when members follow", [(F, "if all(op in temp_items for op in fused_ops[1:]):", "if all(op in temp_items[i + 1:] for op in fused_ops[1:]):")], "G5.fuse-bookkeeping"),
    ("index item adds no loader when fused", [(F, "            if item == \"index\":\n                self._getitem_fns.append(self._getitem_index)", "            if item == \"index\":\n                if len(self.fused_items) == 0:\n                    self._getitem_fns.append(self._getitem_index)")], "G5.fuse-bookkeeping"),
    ("ctx key by character stripping", [(F, "ctx_key = item[len(\"ctx.\"):]", "ctx_key = item.lstrip(\"ctx.\")")], "G9.ctx-key"),
    ("ctx key slice one short", [(F, "ctx_key = item[len(\"ctx.\"):]", "ctx_key = item[3:]")], "G9.ctx-key"),
    ("has_item splits on commas", [(F, "        return item in mode.split(\" \")", "        return item in mode.split(\",\")")], "G9.tokeniser"),
    ("set_item replaces the following position", [(F, "return tuple(it if i != idx else value for i, it in enumerate(batch))", "return tuple(it if i == idx else value for i, it in enumerate(batch))")], "G9.tokeniser"),
    ("index loader returns the context", [(F, "    def _getitem_index(idx, _=None):\n        return idx", "    def _getitem_index(idx, _=None):\n        return _")], "G9.tokeniser"),
    ("torch wrapper returns the whole sample", [(TW, "        return batch[item_idx]", "        return batch")], "G9.tokeniser"),
    ("mix wrapper projection takes the wrong component", [(MX, "        return self.getitem_xclass(idx, ctx=ctx)[1]", "        return self.getitem_xclass(idx, ctx=ctx)[0]")], "G9.fused-projection"),
]

BENIGN = [
    ("context via dict()", [(F, "ctx = {} if self.propagate_ctx else None", "ctx = dict() if self.propagate_ctx else None")]),
    ("context via if statement", [(F, "        ctx = {} if self.propagate_ctx else None\n", "        ctx = None\n        if self.propagate_ctx:\n            ctx = {}\n")]) if False else
    ("tuple decision reordered", [(F, "        if len(items) == 1:\n            # single item -> no tuple\n            items = items[0]\n        else:\n            # multiple items -> wrap into tuple\n            items = tuple(items)", "        if len(items) != 1:\n            items = tuple(items)\n        else:\n            items = items[0]")]),
    ("ctx key by literal length", [(F, "ctx_key = item[len(\"ctx.\"):]", "ctx_key = item[4:]")]),
    ("ctx key by removeprefix", [(F, "ctx_key = item[len(\"ctx.\"):]", "ctx_key = item.removeprefix(\"ctx.\")")]),
    ("loop variables renamed in un-fusing", [(F, "                    for j, fused_idx in enumerate(fused_idxs):\n                        unpacked_items[fused_idx] = items[i][j]", "                    for k, pos in enumerate(fused_idxs):\n                        unpacked_items[pos] = items[i][k]")]),
]
