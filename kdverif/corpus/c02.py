"""Mutant / benign corpus for C02 (subset / concat / wrapper layers)."""
SU = "kappadata/datasets/kd_subset.py"
CO = "kappadata/datasets/kd_concat_dataset.py"
WR = "kappadata/datasets/kd_wrapper.py"
GA = "kappadata/utils/getall_as_tensor.py"
IS = "kappadata/samplers/interleaved_sampler.py"

MUTANTS = [
    ("subset: untranslated index", [(SU, "return func(self.indices[idx], *args, **kwargs)", "return func(idx, *args, **kwargs)")], "G5.subset-index"),
    ("subset: bulk in dataset order", [(SU, "return [result[i] for i in self.indices]", "return [result[i] for i in sorted(self.indices)]")], "G5.subset-index"),
    ("subset: bulk not re-indexed", [(SU, "        result = getattr(self.dataset, item)()\n        return [result[i] for i in self.indices]", "        result = getattr(self.dataset, item)()\n        return [result[i] for i in range(len(self.indices))]")], "G5.subset-index"),
    ("subset: sampler weights of the whole dataset", [(SU, "return sampler_weights[self.indices]", "return sampler_weights")], "G5.subset-index"),
    ("subset: getall routed to the per-sample handler", [(SU, "            return partial(self._call_getall, item)", "            return partial(self._call_getitem, getattr(self.dataset, item))")], "G9.getattr-routing"),
    ("subset: root_dataset is the subset itself", [(SU, "    def root_dataset(self):\n        return self.dataset.root_dataset", "    def root_dataset(self):\n        return self")], "G3.introspection-chain"),
    ("subset: all_wrappers skips the rest of the stack", [(SU, "        return [self] + self.dataset.all_wrappers", "        return [self]")], "G3.introspection-chain"),
    ("subset: has_wrapper_type stops at a mismatch", [(SU, "        if type(self) == wrapper_type:\n            return True\n        return self.dataset.has_wrapper_type(wrapper_type)", "        return type(self) == wrapper_type")], "G3.introspection-chain"),
    ("subset: worker hook dropped", [(SU, "    def worker_init_fn(self, rank, **kwargs):\n        self.dataset.worker_init_fn(rank, **kwargs)", "    def worker_init_fn(self, rank, **kwargs):\n        pass")], "G3.introspection-chain"),
    ("concat: balanced local index modulo the first part", [(CO, "sample_idx = int(idx / len(self.datasets)) % len(self.datasets[dataset_idx])", "sample_idx = int(idx / len(self.datasets)) % len(self.datasets[0])")], "G5.concat-index"),
    ("concat: balanced part by floor division", [(CO, "dataset_idx = idx % len(self.datasets)", "dataset_idx = idx // len(self.datasets)")], "G5.concat-index"),
    ("concat: (local, part) unpacked in the wrong order", [(CO, "dataset_idx, sample_idx = self._to_concat_idx(idx)", "sample_idx, dataset_idx = self._to_concat_idx(idx)")], "G5.concat-index"),
    ("concat: accessor of the first part", [(CO, "func = getattr(self.datasets[dataset_idx], item)", "func = getattr(self.datasets[0], item)")], "G5.concat-index"),
    ("concat: bulk result of the first part only", [(CO, "        for dataset in self.datasets:\n            dataset_result = getattr(dataset, item)()\n", "        for dataset in self.datasets[:1]:\n            dataset_result = getattr(dataset, item)()\n")], "G5.concat-index"),
    ("concat: bisect_left", [(CO, "dataset_idx = bisect.bisect_right(self.cumulative_sizes, idx)\n        if dataset_idx == 0:\n            sample_idx = idx\n        else:\n            sample_idx = idx - self.cumulative_sizes[dataset_idx - 1]\n        return dataset_idx, sample_idx", "dataset_idx = bisect.bisect_left(self.cumulative_sizes, idx)\n        if dataset_idx == 0:\n            sample_idx = idx\n        else:\n            sample_idx = idx - self.cumulative_sizes[dataset_idx - 1]\n        return dataset_idx, sample_idx")], "G9.concat-translation"),
    ("concat: negative index not normalised", [(CO, "            idx = len(self) + idx\n        dataset_idx = bisect.bisect_right(self.cumulative_sizes, idx)\n        if dataset_idx == 0:\n            sample_idx = idx\n        else:\n            sample_idx = idx - self.cumulative_sizes[dataset_idx - 1]\n        return dataset_idx, sample_idx", "            idx = len(self) - idx\n        dataset_idx = bisect.bisect_right(self.cumulative_sizes, idx)\n        if dataset_idx == 0:\n            sample_idx = idx\n        else:\n            sample_idx = idx - self.cumulative_sizes[dataset_idx - 1]\n        return dataset_idx, sample_idx")], "G9.concat-translation"),
    ("concat: local index relative to the own boundary", [(CO, "            sample_idx = idx - self.cumulative_sizes[dataset_idx - 1]\n        return dataset_idx, sample_idx", "            sample_idx = idx - self.cumulative_sizes[dataset_idx]\n        return dataset_idx, sample_idx")], "G9.concat-translation"),
    ("concat: dispose only the first part", [(CO, "    def dispose(self):\n        for dataset in self.datasets:\n            dataset.dispose()", "    def dispose(self):\n        self.datasets[0].dispose if False else None")], "G3.introspection-chain"),
    ("wrapper: dispose not forwarded", [(WR, "    def dispose(self):\n        self.dataset.dispose()", "    def dispose(self):\n        pass")], "G3.introspection-chain"),
    ("wrapper: root_dataset removed", [(WR, "    @property\n    def root_dataset(self):\n        # KDDataset implements root_dataset -> __getitem__ doesn't trigger\n        return self.dataset.root_dataset\n", "")], "G3.introspection-chain"),
    ("wrapper: get_wrappers_of_type returns only itself on a match", [(WR, "        if type(self) == wrapper_type:\n            return [self] + wrappers\n        return wrappers", "        if type(self) == wrapper_type:\n            return [self]\n        return wrappers")], None),
    ("wrapper: requires_propagate_ctx constant", [(WR, "        return self.dataset.requires_propagate_ctx", "        return False")], "G3.introspection-chain"),
    ("getall: slow path over the wrong range", [(GA, "return [getitem(i) for i in range(len(dataset))]", "return [getitem(i) for i in range(len(dataset) - 1)]")], "G9.bulk-fallback"),
    ("getall: fast path calls the per-sample accessor", [(GA, "        return getattr(dataset, getall_attr)()", "        return getattr(dataset, getitem_attr)()")], "G9.bulk-fallback"),
    ("getall_as_tensor returns an undefined name (original defect)", [(GA, "        return torch.tensor(items)\n    return items", "        return torch.tensor(items)\n    return classes")], None),
]

BENIGN = [
    ("subset: index via a local", [(SU, "return func(self.indices[idx], *args, **kwargs)", "return func(self.indices[idx], *args, **kwargs)  # translated")]),
    ("concat: explicit locals in the balanced branch", [(CO, "            dataset_idx = idx % len(self.datasets)\n            sample_idx = int(idx / len(self.datasets)) % len(self.datasets[dataset_idx])", "            n_parts = len(self.datasets)\n            dataset_idx = idx % n_parts\n            sample_idx = int(idx / n_parts) % len(self.datasets[dataset_idx])")]),
    ("wrapper: all_wrappers via a local", [(WR, "        return [self] + self.dataset.all_wrappers", "        below = self.dataset.all_wrappers\n        return [self] + below")]),
    ("getall slow path via enumerate-free loop", [(GA, "        getitem = getattr(dataset, getitem_attr)\n        return [getitem(i) for i in range(len(dataset))]", "        return [getattr(dataset, getitem_attr)(i) for i in range(len(dataset))]")]),
]
