"""Mutant / benign corpus for C18 (collator pipeline)."""
CB = "kappadata/collators/base/kd_collator_base.py"
SW = "kappadata/collators/base/kd_single_collator_wrapper.py"
PS = "kappadata/collators/pad_sequences_collator.py"

MUTANTS = [
    ("after branch forgets the flag (original defect)", [(CB, "                batch = default_collate(batch)\n                called_default_collate = True\n\n", "                batch = default_collate(batch)\n\n")], "G8.collate-once"),
    ("before branch forgets the flag", [(CB, "                        \"ModeWrapper.return_ctx should be equal to KDComposeCollator.return_ctx\"\n                called_default_collate = True\n", "                        \"ModeWrapper.return_ctx should be equal to KDComposeCollator.return_ctx\"\n")], "G8"),
    ("before branch not guarded by the flag", [(CB, "if collator.default_collate_mode == \"before\" and not called_default_collate:", "if collator.default_collate_mode == \"before\":")], "G8"),
    ("after branch assertion dropped", [(CB, "            if collator.default_collate_mode == \"after\":\n                assert not called_default_collate\n", "            if collator.default_collate_mode == \"after\":\n")], "G8.collate-once"),
    ("flag set only when a context is returned", [(CB, "                        \"ModeWrapper.return_ctx should be equal to KDComposeCollator.return_ctx\"\n                called_default_collate = True\n", "                        \"ModeWrapper.return_ctx should be equal to KDComposeCollator.return_ctx\"\n                    called_default_collate = True\n")], "G8"),
    ("post-collation split not guarded (original defect)", [(CB, "                if return_ctx and not removed_ctx_from_batch:\n", "                if return_ctx:\n")], "G8.ctx-split-once"),
    ("raw split does not set its flag", [(CB, "                removed_ctx_from_batch = True\n", "")], "G8.ctx-split-once"),
    ("raw split without return_ctx", [(CB, "            if not called_default_collate and return_ctx and not removed_ctx_from_batch:", "            if not called_default_collate and not removed_ctx_from_batch:")], "G8.ctx-split-once"),
    ("pair returned unconditionally", [(CB, "        if return_ctx:\n            return batch, ctx\n        return batch", "        return batch, ctx")], "G9.return-shape"),
    ("return condition inverted", [(CB, "        if return_ctx:\n            return batch, ctx\n        return batch", "        if not return_ctx:\n            return batch, ctx\n        return batch")], "G9.return-shape"),
    ("wrapper unpacks collate's result (original defect)", [(SW, "        ctx = {}\n        batch = self.collator.collate(batch=batch, dataset_mode=self.dataset_mode, ctx=ctx)\n", "        batch, ctx = self.collator.collate(batch=batch, dataset_mode=self.dataset_mode, ctx={})\n")], "G9.ctx-identity"),
    ("wrapper passes a throw-away dict", [(SW, "        batch = self.collator.collate(batch=batch, dataset_mode=self.dataset_mode, ctx=ctx)\n", "        batch = self.collator.collate(batch=batch, dataset_mode=self.dataset_mode, ctx={})\n")], "G9.ctx-identity"),
    ("pipeline passes a copy of the context", [(CB, "            batch = collator.collate(batch, dataset_mode, ctx)\n", "            batch = collator.collate(batch, dataset_mode, dict(ctx))\n")], "G9.ctx-identity"),
    ("pad_sequence without batch_first", [(PS, "result.append(pad_sequence([b[i] for b in batch], batch_first=True))", "result.append(pad_sequence([b[i] for b in batch]))")], "G9.pad-fields"),
    ("scalar tensors are padded too", [(PS, "if torch.is_tensor(first_item) and first_item.ndim > 0:", "if torch.is_tensor(first_item):")], "G9.pad-fields"),
    ("non-tensor fields dropped", [(PS, "                else:\n                    result.append(default_collate(items))\n", "")], "G9.pad-fields"),
    ("padding takes the first field for every position", [(PS, "result.append(pad_sequence([b[i] for b in batch], batch_first=True))", "result.append(pad_sequence([b[0] for b in batch], batch_first=True))")], "G9.pad-fields"),
    ("fields returned as a list", [(PS, "            return tuple(result)", "            return result[::-1] and tuple(reversed(result))")], "G9.pad-fields"),
]

BENIGN = [
    ("flag set before collating in the after branch", [(CB, "                batch = default_collate(batch)\n                called_default_collate = True\n\n", "                called_default_collate = True\n                batch = default_collate(batch)\n\n")]),
    ("return via else", [(CB, "        if return_ctx:\n            return batch, ctx\n        return batch", "        if return_ctx:\n            return batch, ctx\n        else:\n            return batch")]),
    ("post-collation split also records the removal", [(CB, "                    batch, ctx = batch\n", "                    batch, ctx = batch\n                    removed_ctx_from_batch = True\n")]),
    ("pad list via the local", [(PS, "result.append(pad_sequence([b[i] for b in batch], batch_first=True))", "result.append(pad_sequence(items, batch_first=True))")]),
    ("wrapper context named differently", [(SW, "        ctx = {}\n        batch = self.collator.collate(batch=batch, dataset_mode=self.dataset_mode, ctx=ctx)\n        if self.return_ctx:\n            return batch, ctx\n", "        context = dict()\n        batch = self.collator.collate(batch=batch, dataset_mode=self.dataset_mode, ctx=context)\n        if self.return_ctx:\n            return batch, context\n")]),
]
