"""Statement-level control-flow graph of one function + the classical analyses built on it:
dominators, post-dominators, control predicates, reaching definitions, def-use chains.

Node kinds
  entry / exit (normal return, incl. falling off the end) / raise (uncaught exception exit)
  stmt      a simple statement (Assign, AugAssign, AnnAssign, Expr, Return, Raise, Pass, Delete, Import,
            Global/Nonlocal, nested FunctionDef/ClassDef as a single binding event)
  test      the test of an If / While / Assert (out-edges labelled True / False)
  iter      evaluation of a For-loop's iterable (once)
  next      binding of the For target (True = got an item, False = exhausted)
  with      evaluation of the with-items (+ ``as`` bindings)
  handler   entry of an except clause

Exceptions raised implicitly by arbitrary expressions are *not* modelled (every rule in this
repository is about normal-return paths); ``raise`` and failing ``assert`` go to the handler of an
enclosing ``try`` if there is one, else to the raise exit.  Inside ``try`` bodies every statement
additionally gets an edge to each handler.
"""
from __future__ import annotations

import ast
from typing import Dict, Iterable, List, Optional, Set, Tuple

import networkx as nx


class Node:
    __slots__ = ("id", "kind", "ast", "owner")

    def __init__(self, id, kind, node=None, owner=None):
        self.id = id
        self.kind = kind
        self.ast = node  # statement (stmt/with), or the test expr (test), iter expr, target (next)
        self.owner = owner  # the compound statement a test/iter/next/with node belongs to

    @property
    def lineno(self):
        n = self.ast if self.ast is not None else self.owner
        return getattr(n, "lineno", 0)

    def __repr__(self):
        try:
            s = ast.unparse(self.ast) if self.ast is not None else ""
        except Exception:
            s = "?"
        return f"<{self.id}:{self.kind} {s[:50]}>"


class _Ctx:
    __slots__ = ("brk", "cont", "ret", "exc")

    def __init__(self, brk, cont, ret, exc):
        self.brk, self.cont, self.ret, self.exc = brk, cont, ret, exc

    def replace(self, **kw):
        c = _Ctx(self.brk, self.cont, self.ret, self.exc)
        for k, v in kw.items():
            setattr(c, k, v)
        return c


class CFG:
    def __init__(self, func: ast.AST):
        self.func = func
        self.g = nx.DiGraph()
        self.nodes: Dict[int, Node] = {}
        self._n = 0
        self.entry = self._new("entry")
        self.exit = self._new("exit")
        self.raise_exit = self._new("raise")
        self.stmt_node: Dict[ast.AST, int] = {}  # simple stmt / compound stmt -> first node
        self.is_generator = any(isinstance(n, (ast.Yield, ast.YieldFrom)) for n in _walk_own(func))
        ctx = _Ctx(None, None, self.exit, [self.raise_exit])
        first = self._block(func.body, self.exit, ctx)
        self._edge(self.entry, first)
        # prune unreachable
        reach = nx.descendants(self.g, self.entry) | {self.entry}
        for n in list(self.g.nodes):
            if n not in reach and n not in (self.exit, self.raise_exit):
                self.g.remove_node(n)
                self.nodes.pop(n, None)
        self.stmt_node = {k: v for k, v in self.stmt_node.items() if v in self.nodes}
        self._idom = None
        self._ipdom = None
        self._rd = None

    # ---- construction -----------------------------------------------------------------------
    def _new(self, kind, node=None, owner=None) -> int:
        self._n += 1
        self.nodes[self._n] = Node(self._n, kind, node, owner)
        self.g.add_node(self._n)
        return self._n

    def _edge(self, a, b, label=None):
        if self.g.has_edge(a, b):
            self.g[a][b]["labels"].add(label)
        else:
            self.g.add_edge(a, b, labels={label})

    def _block(self, stmts: List[ast.stmt], succ: int, ctx: _Ctx) -> int:
        nxt = succ
        for st in reversed(stmts):
            nxt = self._stmt(st, nxt, ctx)
        return nxt

    def _exc_edges(self, n, ctx):
        # inside a try body: any statement may raise into the handlers
        for h in ctx.exc:
            if h != self.raise_exit:
                self._edge(n, h, "exc")

    def _stmt(self, st: ast.stmt, succ: int, ctx: _Ctx) -> int:
        if isinstance(st, ast.Return) and isinstance(st.value, ast.IfExp):
            # 'return A if C else B' is the statement 'if C: return A / else: return B' (normal form for the path rules)
            arms = [ast.copy_location(ast.Return(value=v), st) for v in (st.value.body, st.value.orelse)]
            iff = ast.copy_location(ast.If(test=st.value.test, body=[arms[0]], orelse=[arms[1]]), st)
            t = self._stmt(iff, succ, ctx)
            self.stmt_node[st] = t
            return t
        if isinstance(st, ast.If):
            t = self._new("test", st.test, st)
            self.stmt_node[st] = t
            b = self._block(st.body, succ, ctx)
            self._edge(t, b, True)
            if st.orelse:
                e = self._block(st.orelse, succ, ctx)
                self._edge(t, e, False)
            else:
                self._edge(t, succ, False)
            self._exc_edges(t, ctx)
            return t
        if isinstance(st, ast.While):
            t = self._new("test", st.test, st)
            self.stmt_node[st] = t
            after = self._block(st.orelse, succ, ctx) if st.orelse else succ
            body = self._block(st.body, t, ctx.replace(brk=succ, cont=t))
            self._edge(t, body, True)
            const_true = isinstance(st.test, ast.Constant) and bool(st.test.value)
            if not const_true:
                self._edge(t, after, False)
            self._exc_edges(t, ctx)
            return t
        if isinstance(st, (ast.For, ast.AsyncFor)):
            it = self._new("iter", st.iter, st)
            nx_ = self._new("next", st.target, st)
            self.stmt_node[st] = it
            self._edge(it, nx_)
            after = self._block(st.orelse, succ, ctx) if st.orelse else succ
            body = self._block(st.body, nx_, ctx.replace(brk=succ, cont=nx_))
            self._edge(nx_, body, True)
            self._edge(nx_, after, False)
            self._exc_edges(it, ctx)
            return it
        if isinstance(st, (ast.With, ast.AsyncWith)):
            w = self._new("with", st, st)
            self.stmt_node[st] = w
            b = self._block(st.body, succ, ctx)
            self._edge(w, b)
            self._exc_edges(w, ctx)
            return w
        if isinstance(st, ast.Try) or st.__class__.__name__ == "TryStar":
            # finally: executed on the normal path; on return/raise paths it is approximated by
            # running it before leaving (a copy of the block per leaving edge is not needed for the
            # rules in use; the package contains no try statement at the pinned commit)
            after = succ
            if st.finalbody:
                after = self._block(st.finalbody, succ, ctx)
            handlers = []
            for h in st.handlers:
                hn = self._new("handler", h, st)
                hb = self._block(h.body, after, ctx)
                self._edge(hn, hb)
                handlers.append(hn)
            els = self._block(st.orelse, after, ctx) if st.orelse else after
            inner = ctx.replace(exc=handlers + ([] if any(_catches_all(h) for h in st.handlers) else ctx.exc))
            if not handlers:
                inner = ctx
            b = self._block(st.body, els, inner)
            self.stmt_node[st] = b
            return b
        if isinstance(st, ast.Assert):
            t = self._new("test", st.test, st)
            self.stmt_node[st] = t
            self._edge(t, succ, True)
            for h in ctx.exc[:1]:
                self._edge(t, h, False)
            return t
        n = self._new("stmt", st, st)
        self.stmt_node[st] = n
        if isinstance(st, ast.Return):
            self._edge(n, ctx.ret)
        elif isinstance(st, ast.Raise):
            for h in ctx.exc[:1]:
                self._edge(n, h, "exc")
        elif isinstance(st, ast.Break):
            self._edge(n, ctx.brk if ctx.brk is not None else succ)
        elif isinstance(st, ast.Continue):
            self._edge(n, ctx.cont if ctx.cont is not None else succ)
        else:
            self._edge(n, succ)
            self._exc_edges(n, ctx)
        return n

    def pruned(self, removed_edges) -> "CFG":
        """A view of this CFG with the given (src, dst, label) edges removed (infeasible under an
        assumption); nodes are shared, analyses are recomputed, unreachable nodes dropped."""
        import copy

        c = copy.copy(self)
        c.g = self.g.copy()
        for a, b, d in c.g.edges(data=True):
            d["labels"] = set(d["labels"])
        for a, b, lab in removed_edges:
            if c.g.has_edge(a, b):
                labs = c.g[a][b]["labels"]
                labs.discard(lab)
                if not labs:
                    c.g.remove_edge(a, b)
        reach = nx.descendants(c.g, c.entry) | {c.entry}
        c.nodes = dict(self.nodes)
        for n in list(c.g.nodes):
            if n not in reach and n not in (c.exit, c.raise_exit):
                c.g.remove_node(n)
                c.nodes.pop(n, None)
        c.stmt_node = {k: v for k, v in self.stmt_node.items() if v in c.nodes}
        c._idom = None
        c._ipdom = None
        c._rd = None
        if hasattr(c, "_expr_index"):
            del c._expr_index
        return c

    def out_edge(self, n: int, label) -> Optional[int]:
        for m, labels in self.succs(n):
            if label in labels:
                return m
        return None

    # ---- graph queries -----------------------------------------------------------------------
    def succs(self, n) -> List[Tuple[int, Set]]:
        return [(m, self.g[n][m]["labels"]) for m in self.g.successors(n)]

    def preds(self, n) -> List[int]:
        return list(self.g.predecessors(n))

    def idom(self) -> Dict[int, int]:
        if self._idom is None:
            self._idom = nx.immediate_dominators(self.g, self.entry)
        return self._idom

    def dominates(self, a: int, b: int) -> bool:
        """a dominates b (reflexive)."""
        idom = self.idom()
        if b not in idom:
            return False
        while True:
            if a == b:
                return True
            p = idom.get(b)
            if p is None or p == b:
                return False
            b = p

    def ipdom(self, target=None) -> Dict[int, int]:
        target = self.exit if target is None else target
        if self._ipdom is None:
            self._ipdom = {}
        if target not in self._ipdom:
            rg = self.g.reverse(copy=False)
            self._ipdom[target] = nx.immediate_dominators(rg, target)
        return self._ipdom[target]

    def postdominates(self, a: int, b: int, target=None) -> bool:
        """Every path from b to the normal exit passes through a (reflexive)."""
        ip = self.ipdom(target)
        if b not in ip:
            return False
        while True:
            if a == b:
                return True
            p = ip.get(b)
            if p is None or p == b:
                return False
            b = p

    def reachable(self, src: int, dst: int, avoid: Iterable[int] = (), skip_labels: Iterable = (),
                  within: Optional[Set[int]] = None) -> bool:
        """Is there a path src ->* dst (at least one edge) that does not pass through any node of
        ``avoid`` (src itself may be in avoid) and, if ``within`` is given, whose intermediate nodes all
        lie in ``within``?"""
        avoid = set(avoid)
        skip = set(skip_labels)
        seen = {src}
        stack = [src]
        while stack:
            n = stack.pop()
            for m in self.g.successors(n):
                if skip and self.g[n][m]["labels"] <= skip:
                    continue
                if m == dst:
                    return True
                if m in seen or m in avoid:
                    continue
                if within is not None and m not in within:
                    continue
                seen.add(m)
                stack.append(m)
        return False

    def path_avoiding(self, src: int, dst: int, avoid: Iterable[int] = ()) -> Optional[List[int]]:
        """A shortest path src ->* dst avoiding ``avoid`` (for diagnostics) or None."""
        avoid = set(avoid) - {src, dst}
        from collections import deque

        prev = {src: None}
        dq = deque([src])
        while dq:
            n = dq.popleft()
            for m in self.g.successors(n):
                if m in prev or m in avoid:
                    continue
                prev[m] = n
                if m == dst:
                    out = [m]
                    while prev[out[-1]] is not None:
                        out.append(prev[out[-1]])
                    return out[::-1]
                dq.append(m)
        return None

    def must_pass(self, through: Iterable[int], src=None, dst=None) -> bool:
        """Every path src ->* dst passes through a node of ``through`` (vacuously true if dst is
        unreachable from src)."""
        src = self.entry if src is None else src
        dst = self.exit if dst is None else dst
        through = set(through)
        if src in through:
            return True
        return not self.reachable(src, dst, avoid=through)

    def control_predicates(self, n: int) -> List[Tuple[int, object]]:
        """Branch decisions (test node, label) that *dominate* n: every path from entry to n takes
        that out-edge of the test.  Label is True/False."""
        out = []
        idom = self.idom()
        cur = n
        chain = []
        while cur in idom and idom[cur] != cur:
            cur = idom[cur]
            chain.append(cur)
        for t in chain:
            nd = self.nodes[t]
            if nd.kind not in ("test", "next"):
                continue
            for m, labels in self.succs(t):
                for lab in labels:
                    if lab not in (True, False):
                        continue
                    # does edge (t -lab-> m) dominate n?  <=> n unreachable from t when that edge is
                    # the only one removed ... equivalently all other out-edges cannot reach n
                    # without coming back through t.
                    others = [(m2, l2) for m2, ls in self.succs(t) for l2 in ls if not (m2 == m and l2 == lab)]
                    if all(not (m2 == n or self.reachable(m2, n, avoid={t})) for m2, _ in others):
                        if m == n or self.reachable(m, n, avoid={t}) :
                            out.append((t, lab))
        return out[::-1]

    def nodes_inside(self, stmts: List[ast.stmt]) -> Set[int]:
        """CFG nodes that belong lexically to the given statements (incl. nested blocks)."""
        ids = set()
        for st in stmts:
            for x in ast.walk(st):
                ids.add(id(x))
        out = set()
        for n, nd in self.nodes.items():
            if (nd.ast is not None and id(nd.ast) in ids) or (nd.owner is not None and id(nd.owner) in ids):
                out.add(n)
        return out

    def nodes_of_kind(self, *kinds) -> List[int]:
        return [i for i, n in self.nodes.items() if n.kind in kinds]

    def all_exprs(self, n: int) -> List[ast.AST]:
        """The expressions evaluated *at* node n (not those of nested blocks)."""
        nd = self.nodes[n]
        if nd.kind in ("test", "iter"):
            return [nd.ast]
        if nd.kind == "next":
            return [nd.ast]
        if nd.kind == "with":
            out = []
            for item in nd.ast.items:
                out.append(item.context_expr)
                if item.optional_vars is not None:
                    out.append(item.optional_vars)
            return out
        if nd.kind == "stmt":
            st = nd.ast
            if isinstance(st, (ast.FunctionDef, ast.AsyncFunctionDef, ast.ClassDef)):
                return list(st.decorator_list)
            return [st]
        if nd.kind == "handler":
            return [nd.ast.type] if nd.ast.type is not None else []
        return []

    def walk_node(self, n: int):
        """ast.walk over the expressions evaluated at n, not descending into nested function
        bodies / lambdas (comprehensions are descended: they run at the node)."""
        for e in self.all_exprs(n):
            yield from walk_expr(e)

    def calls_at(self, n: int) -> List[ast.Call]:
        return [x for x in self.walk_node(n) if isinstance(x, ast.Call)]

    # ---- reaching definitions ---------------------------------------------------------------
    def defs_at(self, n: int) -> List[Tuple[str, ast.AST, Optional[ast.AST]]]:
        """(variable, target node, value expr or None) defined at n.  Variables are local names
        and ``self.<attr>`` pseudo-variables (written as 'self.attr')."""
        nd = self.nodes[n]
        out = []
        if nd.kind == "entry":
            a = self.func.args
            allargs = a.posonlyargs + a.args + a.kwonlyargs + ([a.vararg] if a.vararg else []) + (
                [a.kwarg] if a.kwarg else [])
            for arg in allargs:
                out.append((arg.arg, arg, None))
            # attributes of the first parameter (self) that the function stores to have an implicit
            # definition at entry: the value the attribute had when the function was called
            if allargs:
                first = allargs[0].arg
                seen = set()
                for x in _walk_own(self.func):
                    if isinstance(x, ast.Attribute) and isinstance(x.ctx, (ast.Store, ast.Del)) and isinstance(
                            x.value, ast.Name) and x.value.id == first and x.attr not in seen:
                        seen.add(x.attr)
                        out.append((f"{first}.{x.attr}", x, None))
            return out
        if nd.kind == "next":
            for t in _targets(nd.ast):
                out.append((t[0], t[1], None))
            return out
        if nd.kind == "with":
            for item in nd.ast.items:
                if item.optional_vars is not None:
                    for t in _targets(item.optional_vars):
                        out.append((t[0], t[1], None))
            return out
        if nd.kind == "handler":
            if nd.ast.name:
                out.append((nd.ast.name, nd.ast, None))
            return out
        if nd.kind != "stmt":
            # walrus in tests
            for x in self.walk_node(n):
                if isinstance(x, ast.NamedExpr):
                    out.append((x.target.id, x.target, x.value))
            return out
        st = nd.ast
        if isinstance(st, ast.Assign):
            for tgt in st.targets:
                if isinstance(tgt, (ast.Tuple, ast.List)):
                    for t in _targets(tgt):
                        out.append((t[0], t[1], None))
                else:
                    for t in _targets(tgt):
                        out.append((t[0], t[1], st.value))
        elif isinstance(st, ast.AnnAssign):
            if st.value is not None:
                for t in _targets(st.target):
                    out.append((t[0], t[1], st.value))
        elif isinstance(st, ast.AugAssign):
            for t in _targets(st.target):
                out.append((t[0], t[1], None))
        elif isinstance(st, (ast.FunctionDef, ast.AsyncFunctionDef, ast.ClassDef)):
            out.append((st.name, st, None))
        elif isinstance(st, (ast.Import, ast.ImportFrom)):
            for a in st.names:
                out.append(((a.asname or a.name).split(".")[0], st, None))
        elif isinstance(st, ast.Delete):
            for tgt in st.targets:
                for t in _targets(tgt):
                    out.append((t[0], t[1], None))
        for x in self.walk_node(n):
            if isinstance(x, ast.NamedExpr):
                out.append((x.target.id, x.target, x.value))
        return out

    def reaching(self) -> Dict[int, Dict[str, Set[int]]]:
        """IN sets: for every node, variable -> set of node ids whose definition may reach the
        *entry* of that node."""
        if self._rd is not None:
            return self._rd
        gen: Dict[int, Dict[str, int]] = {}
        for n in self.nodes:
            d = {}
            for var, _, _ in self.defs_at(n):
                d[var] = n
            gen[n] = d
        IN: Dict[int, Dict[str, Set[int]]] = {n: {} for n in self.nodes}
        OUT: Dict[int, Dict[str, Set[int]]] = {n: {} for n in self.nodes}
        order = list(nx.dfs_preorder_nodes(self.g, self.entry))
        for n in self.nodes:
            if n not in order:
                order.append(n)
        changed = True
        while changed:
            changed = False
            for n in order:
                new_in: Dict[str, Set[int]] = {}
                for p in self.g.predecessors(n):
                    for v, s in OUT[p].items():
                        new_in.setdefault(v, set()).update(s)
                if new_in != IN[n]:
                    IN[n] = new_in
                    changed = True
                new_out = {v: set(s) for v, s in new_in.items()}
                for v, dn in gen[n].items():
                    new_out[v] = {dn}
                if new_out != OUT[n]:
                    OUT[n] = new_out
                    changed = True
        self._rd = IN
        self._out = OUT
        return IN

    def reaching_out(self):
        self.reaching()
        return self._out

    def def_value(self, n: int, var: str) -> Optional[ast.AST]:
        """The value expression if node n defines var by a plain single-target assignment."""
        for v, _, val in self.defs_at(n):
            if v == var:
                return val
        return None

    def node_of(self, x: ast.AST) -> Optional[int]:
        """CFG node at which the (sub)expression/statement x is evaluated."""
        idx = getattr(self, "_expr_index", None)
        if idx is None:
            idx = {}
            for n in self.nodes:
                for y in self.walk_node(n):
                    idx.setdefault(id(y), n)
                nd = self.nodes[n]
                if nd.kind == "stmt":
                    idx.setdefault(id(nd.ast), n)
            self._expr_index = idx
        return idx.get(id(x))


def _catches_all(h: ast.ExceptHandler) -> bool:
    if h.type is None:
        return True
    names = [h.type] if not isinstance(h.type, ast.Tuple) else h.type.elts
    return any(isinstance(n, ast.Name) and n.id in ("Exception", "BaseException") for n in names)


def _targets(t: ast.AST) -> List[Tuple[str, ast.AST]]:
    """Variables (local names, 'self.attr', and containers written through subscripts as
    'name[]' / 'self.attr[]') defined by an assignment target."""
    out = []
    if isinstance(t, ast.Name):
        out.append((t.id, t))
    elif isinstance(t, (ast.Tuple, ast.List)):
        for e in t.elts:
            out += _targets(e)
    elif isinstance(t, ast.Starred):
        out += _targets(t.value)
    elif isinstance(t, ast.Attribute):
        if isinstance(t.value, ast.Name):
            out.append((f"{t.value.id}.{t.attr}", t))
    elif isinstance(t, ast.Subscript):
        base = t.value
        if isinstance(base, ast.Name):
            out.append((f"{base.id}[]", t))
        elif isinstance(base, ast.Attribute) and isinstance(base.value, ast.Name):
            out.append((f"{base.value.id}.{base.attr}[]", t))
    return out


def walk_expr(e: ast.AST):
    """ast.walk that does not enter nested function / class bodies or lambdas."""
    stack = [e]
    while stack:
        x = stack.pop()
        yield x
        for c in ast.iter_child_nodes(x):
            if isinstance(c, (ast.FunctionDef, ast.AsyncFunctionDef, ast.ClassDef, ast.Lambda)):
                continue
            stack.append(c)


def _walk_own(func: ast.AST):
    """Walk the body of func without entering nested defs."""
    for st in func.body:
        yield from walk_expr(st)
