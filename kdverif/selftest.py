"""Armed-check of the thorough tier: the checker is tested both ways on source *overlays* (nothing is
written to disk, nothing is left under /tmp).

* mutants  - single edits of /repo's current source, each tied to the property (and rule) that must
             report it; a mutant that is not reported means the checker lost its teeth.
* benign   - behaviour-preserving rewrites of the same sites; a benign variant that is reported means the
             rule keys on text, not on behaviour.
* controls - tiny non-repo files fed to rules whose expected count on the clean tree is zero.

Failures are *analysis errors* (exit 2), never VIOLATION: they say the checker is wrong, not the
repository.  An edit whose anchor text no longer occurs exactly once in the current source is reported as
'stale' and skipped (the tree under analysis may legitimately differ from the one the corpus was written
against); if more than half of a property's mutants are stale the run is an analysis error.
"""
from __future__ import annotations

import concurrent.futures as cf
import importlib
import os
from typing import Dict, List, Optional, Tuple

ROOT = os.environ.get("KDVERIF_REPO", "/repo")


def _apply(edits: List[Tuple[str, str, str]], root: str) -> Optional[Dict[str, str]]:
    overlays: Dict[str, str] = {}
    for rel, old, new in edits:
        src = overlays.get(rel)
        if src is None:
            try:
                with open(os.path.join(root, rel), encoding="utf-8") as f:
                    src = f.read()
            except OSError:
                return None
        if src.count(old) != 1:
            return None
        overlays[rel] = src.replace(old, new)
    return overlays


def _run_variant(args):
    prop, kind, name, edits, want_rule = args
    from .__main__ import run_check

    if kind in ("seeded", "refactor"):
        from .patching import overlays_from_patch
        overlays = overlays_from_patch(ROOT, edits)
    else:
        overlays = _apply(edits, ROOT)
    if overlays is None:
        return (kind, name, "stale", "")
    import ast as _ast
    for rel, src in overlays.items():
        try:
            _ast.parse(src)
        except SyntaxError as e:
            return (kind, name, "broken-variant", f"variant does not parse: {e}")
    rc, rep = run_check(prop, "quick", overlays=overlays, write=False, quiet=True)
    fresh = getattr(rep, "fresh", [])
    if rep.errors and not (kind in ("mutant", "seeded") and fresh):
        # (a breaking change may remove an anchor of another rule; what counts for it is that a violation is reported)
        return (kind, name, "error", "; ".join(rep.errors)[:300])
    if kind in ("mutant", "seeded"):
        if not fresh:
            return (kind, name, "missed", "no violation reported")
        if want_rule and not any(o.rule.startswith(want_rule) for o in fresh):
            return (kind, name, "wrong-rule", "reported by " + ",".join(sorted({o.rule for o in fresh})) +
                    f" instead of {want_rule}")
        return (kind, name, "caught", ",".join(sorted({o.rule for o in fresh})))
    else:
        if fresh:
            return (kind, name, "flagged", "; ".join(f"{o.rule}:{o.construct}" for o in fresh)[:300])
        return (kind, name, "silent", "")


def seeded_jobs(prop: str):
    """Confirmed changes written by independent sub-agents (/verif/seeded/*): those whose recorded outcome for this
    property's check is 'caught' must still be caught (regression); patches are applied in memory."""
    import json
    from .patching import overlays_from_patch
    root = os.path.join(os.path.dirname(os.path.dirname(os.path.abspath(__file__))), "seeded")
    jobs = []
    if not os.path.isdir(root):
        return jobs
    for name in sorted(os.listdir(root)):
        mp = os.path.join(root, name, "meta.json")
        pp = os.path.join(root, name, "patch.diff")
        if not (os.path.exists(mp) and os.path.exists(pp)):
            continue
        meta = json.load(open(mp))
        det = meta.get("detection", {})
        by = det.get("by_property_check", {})
        mine = by.get(prop, {})
        if mine.get("rc") != 1:
            continue
        jobs.append((prop, "seeded", name, open(pp).read(), None))
    return jobs


def refactor_jobs(prop: str):
    """Behaviour-preserving refactorings written by independent sub-agents (/verif/refactors/*: renames, control-flow
    restructuring, extracted helpers, hoisted / inlined temporaries, idiom swaps, larger clean-ups; each confirmed by the
    agent with an equivalence digest and the baseline tests).  Every claimed check must stay silent on every one of them,
    whichever property the refactoring was aimed at; patches are applied in memory."""
    root = os.path.join(os.path.dirname(os.path.dirname(os.path.abspath(__file__))), "refactors")
    jobs = []
    if not os.path.isdir(root):
        return jobs
    for name in sorted(os.listdir(root)):
        pp = os.path.join(root, name, "patch.diff")
        if os.path.exists(pp):
            jobs.append((prop, "refactor", name, open(pp).read(), None))
    return jobs


def corpus(prop: str):
    try:
        mod = importlib.import_module(f"kdverif.corpus.{prop.lower()}")
    except ModuleNotFoundError:
        return [], []
    return getattr(mod, "MUTANTS", []), getattr(mod, "BENIGN", [])


def run_for(prop: str, rep=None, verbose=True) -> int:
    mutants, benign = corpus(prop)
    jobs = []
    for m in mutants:
        name, edits, want = m[0], m[1], (m[2] if len(m) > 2 else None)
        jobs.append((prop, "mutant", name, edits, want))
    for b in benign:
        jobs.append((prop, "benign", b[0], b[1], None))
    jobs += seeded_jobs(prop)
    jobs += refactor_jobs(prop)
    if not jobs:
        if verbose:
            print(f"[{prop} selftest] no corpus")
        return 0
    workers = min(16, len(jobs), os.cpu_count() or 4)
    with cf.ProcessPoolExecutor(max_workers=workers) as ex:
        results = list(ex.map(_run_variant, jobs))
    bad = [r for r in results if r[2] in ("missed", "wrong-rule", "flagged", "error", "broken-variant")]
    stale = [r for r in results if r[2] == "stale"]
    n_s = sum(r[0] == "seeded" for r in results)
    n_m = sum(r[0] == "mutant" for r in results)
    n_b = sum(r[0] == "benign" for r in results)
    n_r = sum(r[0] == "refactor" for r in results)
    silent_r = sum(r[2] == "silent" and r[0] == "refactor" for r in results)
    caught = sum(r[2] == "caught" and r[0] == "mutant" for r in results)
    caught_s = sum(r[2] == "caught" and r[0] == "seeded" for r in results)
    silent = sum(r[2] == "silent" and r[0] == "benign" for r in results)
    if verbose:
        print(f"[{prop} selftest] mutants caught {caught}/{n_m}, benign silent {silent}/{n_b}, independent seeded changes "
              f"caught {caught_s}/{n_s}, independent refactorings silent {silent_r}/{n_r}, stale {len(stale)}")
        for r in bad:
            print(f"ANALYSIS-ERROR property={prop} selftest {r[0]} '{r[1]}': {r[2]} {r[3]}")
        for r in stale:
            print(f"  stale {r[0]} '{r[1]}' (anchor text not found exactly once in the current source)")
    stale_m = sum(r[0] == "mutant" for r in stale)
    if n_m and stale_m * 2 > n_m:
        print(f"ANALYSIS-ERROR property={prop} selftest: {stale_m}/{n_m} mutants stale")
        return 2
    _augment_evidence(prop, results)
    return 2 if bad else 0


def _augment_evidence(prop, results):
    import json

    from .core import EVIDENCE_DIR
    path = os.path.join(EVIDENCE_DIR, f"{prop}.json")
    try:
        with open(path) as f:
            ev = json.load(f)
    except OSError:
        return
    ev["coverage"]["armed_check"] = {
        "mutants": sum(r[0] == "mutant" for r in results),
        "mutants_caught": sum(r[2] == "caught" and r[0] == "mutant" for r in results),
        "seeded": sum(r[0] == "seeded" for r in results),
        "seeded_caught": sum(r[2] == "caught" and r[0] == "seeded" for r in results),
        "benign": sum(r[0] == "benign" for r in results),
        "benign_silent": sum(r[2] == "silent" and r[0] == "benign" for r in results),
        "refactorings": sum(r[0] == "refactor" for r in results),
        "refactorings_silent": sum(r[2] == "silent" and r[0] == "refactor" for r in results),
        "stale": sum(r[2] == "stale" for r in results),
        "results": [{"kind": r[0], "name": r[1], "outcome": r[2], "by": r[3]} for r in results],
    }
    with open(path, "w") as f:
        json.dump(ev, f, indent=1, default=str)
