"""Armed-check of the thorough tier (mutant / benign / control corpora) - filled in later."""


def run_for(prop, rep):
    return 0
