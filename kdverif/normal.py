"""Normal form, part 2: interchangeable spellings of one statement are mapped to one of them (AST to AST).

Every rewrite is an exact equivalence under the stated side condition; where the condition cannot be seen in the function
the statement is left as written.

* ``a, b = x, y``  ->  ``a = x; b = y`` when no earlier target is read by a later right-hand side and the later right-hand
  sides cannot observe an earlier attribute target (no call in them);
* ``list()`` / ``dict()`` / ``tuple()`` without arguments  ->  ``[]`` / ``{}`` / ``()``; ``x[slice(a, b, c)]`` -> ``x[a:b:c]``;
  ``x[0:n]`` -> ``x[:n]``; ``"a{}b".format(x)`` -> ``f"a{x}b"``; ``s = slice(..); x[s]`` and ``f = obj.method; f(..)`` are forwarded
  to their single use sites when nothing they read is re-bound in between;
* ``xs += [e]``  ->  ``xs.append(e)`` for a local that is only ever bound to list displays in the function;
* ``d.update(k=v, ...)`` (keywords only, statement)  ->  ``d['k'] = v; ...`` for a local only ever bound to dict displays;
* ``x = y = v`` with a constant v  ->  ``x = v; y = v``;
* ``x = A if C else B``  ->  ``if C: x = A`` / ``else: x = B``;
* ``flag = <pure test> ... if flag and ..:``  ->  the test is written out where the flag is tested (single reaching definition,
  nothing it reads re-bound in between; the assignment stays);
* ``t = (a, b) ... p, q = t``  ->  ``p = a; q = b`` when that display is the only definition of t reaching the unpacking and a, b
  are not re-bound in between;
* ``while True: if not C: break; BODY``  ->  ``while C: BODY`` (no else clause);
* ``for c, x in enumerate(Y, start=K)`` (K a non-zero int constant, c not assigned in the body)  ->
  ``c = K - 1`` / ``for x in Y: c += 1; ...`` - the running count of the elements seen so far.  (After a loop over an empty
  Y the counter is K - 1 here and unbound in the source: the two differ only where the source raises NameError.)
* ``xs = [E for v in IT if C]`` where E calls the iterated element (one generator, no nested comprehension / lambda, xs
  not read by it)  ->
  ``xs = []`` / ``for v in IT: if C: xs.append(E)``; v is renamed apart when the function uses that name elsewhere.
"""
from __future__ import annotations

import ast
import copy
from typing import List

_SCOPES = (ast.FunctionDef, ast.AsyncFunctionDef, ast.Lambda, ast.ClassDef)


def _names(e: ast.AST) -> set:
    return {n.id for n in ast.walk(e) if isinstance(n, ast.Name)}


def _has_call(e: ast.AST) -> bool:
    return any(isinstance(n, (ast.Call, ast.Yield, ast.YieldFrom, ast.Await, ast.NamedExpr)) for n in ast.walk(e))


def _display_only(fn: ast.AST, name: str, kinds) -> bool:
    """Every binding of ``name`` in the function is a display of the given kind (or a parameter-free constructor call)."""
    seen = False
    for n in ast.walk(fn):
        if isinstance(n, ast.arg) and n.arg == name:
            return False
        if isinstance(n, ast.Assign):
            for t in n.targets:
                for x in ast.walk(t):
                    if isinstance(x, ast.Name) and x.id == name:
                        if t is not x or not isinstance(n.value, kinds):
                            return False
                        seen = True
        elif isinstance(n, (ast.AugAssign, ast.AnnAssign)) and isinstance(n.target, ast.Name) and n.target.id == name:
            if isinstance(n, ast.AnnAssign):
                return False
        elif isinstance(n, (ast.For, ast.AsyncFor, ast.comprehension)):
            if name in _names(n.target):
                return False
        elif isinstance(n, (ast.With, ast.AsyncWith)):
            for it in n.items:
                if it.optional_vars is not None and name in _names(it.optional_vars):
                    return False
        elif isinstance(n, (ast.Global, ast.Nonlocal)) and name in n.names:
            return False
    return seen


class _Displays(ast.NodeTransformer):
    def visit_Subscript(self, node):
        node = self.generic_visit(node)
        sl = node.slice
        # x[slice(a, b, c)]  ->  x[a:b:c]
        if isinstance(sl, ast.Call) and isinstance(sl.func, ast.Name) and sl.func.id == "slice" and not sl.keywords and \
                1 <= len(sl.args) <= 3 and not any(isinstance(a, ast.Starred) for a in sl.args):
            a = list(sl.args)
            none = lambda e: None if isinstance(e, ast.Constant) and e.value is None else e
            if len(a) == 1:
                lo, up, st = None, none(a[0]), None
            elif len(a) == 2:
                lo, up, st = none(a[0]), none(a[1]), None
            else:
                lo, up, st = none(a[0]), none(a[1]), none(a[2])
            sl = ast.copy_location(ast.Slice(lower=lo, upper=up, step=st), sl)
            node.slice = sl
        # x[0:n]  ->  x[:n]
        if isinstance(sl, ast.Slice) and isinstance(sl.lower, ast.Constant) and type(sl.lower.value) is int and \
                sl.lower.value == 0 and (sl.step is None or (isinstance(sl.step, ast.Constant) and sl.step.value in (None, 1))):
            sl.lower = None
        return node

    def _flatten(self, node):
        # (*(a, b), c)  ->  (a, b, c)
        node = self.generic_visit(node)
        if isinstance(node.ctx, ast.Load) and any(isinstance(e, ast.Starred) and isinstance(e.value, (ast.Tuple, ast.List))
                                                  for e in node.elts):
            elts = []
            for e in node.elts:
                if isinstance(e, ast.Starred) and isinstance(e.value, (ast.Tuple, ast.List)):
                    elts.extend(e.value.elts)
                else:
                    elts.append(e)
            node.elts = elts
        return node

    visit_Tuple = _flatten
    visit_List = _flatten

    def visit_Compare(self, node):
        node = self.generic_visit(node)
        # <constant> is [not] None  ->  True / False   (arises where a helper was inlined with a constant argument)
        if len(node.ops) == 1 and isinstance(node.ops[0], (ast.Is, ast.IsNot)) and isinstance(node.left, ast.Constant) and \
                isinstance(node.comparators[0], ast.Constant) and (node.left.value is None or node.comparators[0].value is None):
            same = node.left.value is None and node.comparators[0].value is None
            return ast.copy_location(ast.Constant(value=same if isinstance(node.ops[0], ast.Is) else not same), node)
        return node

    def visit_JoinedStr(self, node):
        node = self.generic_visit(node)
        # f"og_{'hue'}_lb"  ->  "og_hue_lb"   (every part a string constant, no conversion / format spec)
        parts = []
        for v in node.values:
            if isinstance(v, ast.Constant) and isinstance(v.value, str):
                parts.append(v.value)
            elif isinstance(v, ast.FormattedValue) and v.conversion == -1 and v.format_spec is None and \
                    isinstance(v.value, ast.Constant) and isinstance(v.value.value, str):
                parts.append(v.value.value)
            else:
                return node
        return ast.copy_location(ast.Constant(value="".join(parts)), node)

    def visit_Call(self, node):
        node = self.generic_visit(node)
        # "a{}b{}".format(x, y)  ->  f"a{x}b{y}"   (plain positional placeholders only)
        if isinstance(node.func, ast.Attribute) and node.func.attr == "format" and isinstance(node.func.value, ast.Constant) \
                and isinstance(node.func.value.value, str) and not node.keywords and node.args and \
                not any(isinstance(a, ast.Starred) for a in node.args):
            lit = node.func.value.value
            parts = lit.split("{}")
            if len(parts) == len(node.args) + 1 and "{" not in "".join(parts) and "}" not in "".join(parts):
                vals = []
                for i, p_ in enumerate(parts):
                    if p_:
                        vals.append(ast.Constant(value=p_))
                    if i < len(node.args):
                        vals.append(ast.FormattedValue(value=node.args[i], conversion=-1, format_spec=None))
                return ast.copy_location(ast.JoinedStr(values=vals), node)
        # getattr(x, "name")  ->  x.name
        if isinstance(node.func, ast.Name) and node.func.id == "getattr" and len(node.args) == 2 and not node.keywords and \
                isinstance(node.args[1], ast.Constant) and isinstance(node.args[1].value, str) and \
                node.args[1].value.isidentifier() and not node.args[1].value.startswith("__"):
            return ast.copy_location(ast.Attribute(value=node.args[0], attr=node.args[1].value, ctx=ast.Load()), node)
        if isinstance(node.func, ast.Name) and not node.args and not node.keywords:
            if node.func.id == "list":
                return ast.copy_location(ast.List(elts=[], ctx=ast.Load()), node)
            if node.func.id == "dict":
                return ast.copy_location(ast.Dict(keys=[], values=[]), node)
            if node.func.id == "tuple":
                return ast.copy_location(ast.Tuple(elts=[], ctx=ast.Load()), node)
        return node


def _rewrite_stmt(fn, s: ast.stmt) -> List[ast.stmt]:
    # if <True / False>: A else: B   ->   A / B
    if isinstance(s, ast.If) and isinstance(s.test, ast.Constant) and isinstance(s.test.value, bool):
        live = s.body if s.test.value else s.orelse
        return list(live) if live else [ast.copy_location(ast.Pass(), s)]
    # setattr(x, "name", v)  ->  x.name = v
    if isinstance(s, ast.Expr) and isinstance(s.value, ast.Call) and isinstance(s.value.func, ast.Name) and \
            s.value.func.id == "setattr" and len(s.value.args) == 3 and not s.value.keywords and \
            isinstance(s.value.args[1], ast.Constant) and isinstance(s.value.args[1].value, str) and \
            s.value.args[1].value.isidentifier() and not s.value.args[1].value.startswith("__") and _is_chain(s.value.args[0]):
        tgt = ast.Attribute(value=s.value.args[0], attr=s.value.args[1].value, ctx=ast.Store())
        return _rewrite_stmt(fn, ast.fix_missing_locations(ast.copy_location(ast.Assign(targets=[tgt], value=s.value.args[2]), s)))
    # a, b = x, y
    if isinstance(s, ast.Assign) and len(s.targets) == 1 and isinstance(s.targets[0], ast.Tuple) and \
            isinstance(s.value, ast.Tuple) and len(s.targets[0].elts) == len(s.value.elts) and \
            not any(isinstance(x, ast.Starred) for x in list(s.targets[0].elts) + list(s.value.elts)):
        tg, vs = s.targets[0].elts, s.value.elts
        ok = all(isinstance(t, (ast.Name, ast.Attribute)) and not _has_call(t) for t in tg)
        for i in range(len(tg)):
            for j in range(i + 1, len(tg)):
                if isinstance(tg[i], ast.Name):
                    if tg[i].id in _names(vs[j]) or tg[i].id in _names(tg[j]):
                        ok = False
                else:
                    # an attribute target: later right-hand sides must not be able to observe it
                    if _has_call(vs[j]) or any(isinstance(x, ast.Attribute) and x.attr == tg[i].attr
                                               for x in ast.walk(vs[j])):
                        ok = False
        if ok:
            return [ast.copy_location(ast.Assign(targets=[t], value=v), s) for t, v in zip(tg, vs)]
    # x = y = const
    if isinstance(s, ast.Assign) and len(s.targets) > 1 and isinstance(s.value, ast.Constant) and all(
            isinstance(t, (ast.Name, ast.Attribute)) and not _has_call(t) for t in s.targets):
        return [ast.copy_location(ast.Assign(targets=[t], value=copy.deepcopy(s.value)), s) for t in s.targets]
    # xs += [e]
    if isinstance(s, ast.AugAssign) and isinstance(s.op, ast.Add) and isinstance(s.target, ast.Name) and \
            isinstance(s.value, ast.List) and len(s.value.elts) == 1 and not isinstance(s.value.elts[0], ast.Starred) \
            and _display_only(fn, s.target.id, (ast.List, ast.ListComp)):
        call = ast.Call(func=ast.Attribute(value=ast.Name(id=s.target.id, ctx=ast.Load()), attr="append", ctx=ast.Load()),
                        args=[s.value.elts[0]], keywords=[])
        return [ast.copy_location(ast.Expr(value=call), s)]
    # d.update(k=v)
    if isinstance(s, ast.Expr) and isinstance(s.value, ast.Call) and isinstance(s.value.func, ast.Attribute) and \
            s.value.func.attr == "update" and isinstance(s.value.func.value, ast.Name) and not s.value.args and \
            s.value.keywords and all(k.arg is not None for k in s.value.keywords) and \
            _display_only(fn, s.value.func.value.id, (ast.Dict,)):
        d = s.value.func.value.id
        vals = [k.value for k in s.value.keywords]
        if len(vals) == 1 or not any(_has_call(v) for v in vals[1:]):
            return [ast.copy_location(ast.Assign(
                targets=[ast.Subscript(value=ast.Name(id=d, ctx=ast.Load()), slice=ast.Constant(value=k.arg),
                                       ctx=ast.Store())], value=k.value), s) for k in s.value.keywords]
    # while True: if not C: break; BODY   ->   while C: BODY
    if isinstance(s, ast.While) and isinstance(s.test, ast.Constant) and bool(s.test.value) and not s.orelse and s.body and \
            isinstance(s.body[0], ast.If) and not s.body[0].orelse and len(s.body[0].body) == 1 and \
            isinstance(s.body[0].body[0], ast.Break) and len(s.body) > 1:
        t = s.body[0].test
        cond = t.operand if isinstance(t, ast.UnaryOp) and isinstance(t.op, ast.Not) else ast.UnaryOp(op=ast.Not(), operand=t)
        return [ast.copy_location(ast.While(test=cond, body=list(s.body[1:]), orelse=[]), s)]
    # x = A if C else B
    if IFEXP_AS_STATEMENT and isinstance(s, ast.Assign) and len(s.targets) == 1 and isinstance(s.targets[0], (ast.Name, ast.Attribute)) \
            and not _has_call(s.targets[0]) and isinstance(s.value, ast.IfExp):
        a = ast.copy_location(ast.Assign(targets=[copy.deepcopy(s.targets[0])], value=s.value.body), s)
        b = ast.copy_location(ast.Assign(targets=[copy.deepcopy(s.targets[0])], value=s.value.orelse), s)
        return [ast.copy_location(ast.If(test=s.value.test, body=_rewrite_stmt(fn, a), orelse=_rewrite_stmt(fn, b)), s)]
    # for c, x in enumerate(Y, start=K)
    if isinstance(s, ast.For) and isinstance(s.iter, ast.Call) and isinstance(s.iter.func, ast.Name) and \
            s.iter.func.id == "enumerate" and isinstance(s.target, ast.Tuple) and len(s.target.elts) == 2 and \
            isinstance(s.target.elts[0], ast.Name):
        k = None
        if len(s.iter.args) == 2 and not s.iter.keywords:
            k = s.iter.args[1]
        elif len(s.iter.args) == 1 and len(s.iter.keywords) == 1 and s.iter.keywords[0].arg == "start":
            k = s.iter.keywords[0].value
        c = s.target.elts[0].id
        assigned = {n.id for b in s.body for n in ast.walk(b) if isinstance(n, ast.Name) and isinstance(n.ctx, ast.Store)}
        if k is not None and isinstance(k, ast.Constant) and type(k.value) is int and k.value != 0 and c not in assigned \
                and c not in _names(s.iter.args[0]):
            init = ast.copy_location(ast.Assign(targets=[ast.Name(id=c, ctx=ast.Store())],
                                                value=ast.Constant(value=k.value - 1)), s)
            inc = ast.copy_location(ast.AugAssign(target=ast.Name(id=c, ctx=ast.Store()), op=ast.Add(),
                                                  value=ast.Constant(value=1)), s)
            loop = ast.copy_location(ast.For(target=s.target.elts[1], iter=s.iter.args[0], body=[inc] + list(s.body),
                                             orelse=s.orelse, type_comment=None), s)
            return [init, loop]
    # for i in range(len(X)): .. X[i] ..   ->   for i, x in enumerate(X): .. x ..      (X a name / attribute chain that the body
    # neither re-binds nor stores into, i not re-bound); and inside 'for i, x in enumerate(X)': X[i] -> x
    if isinstance(s, ast.For) and isinstance(s.target, ast.Name) and isinstance(s.iter, ast.Call) and \
            isinstance(s.iter.func, ast.Name) and s.iter.func.id == "range" and len(s.iter.args) == 1 and not s.iter.keywords and \
            isinstance(s.iter.args[0], ast.Call) and isinstance(s.iter.args[0].func, ast.Name) and \
            s.iter.args[0].func.id == "len" and len(s.iter.args[0].args) == 1 and _is_chain(s.iter.args[0].args[0]):
        X = s.iter.args[0].args[0]
        i = s.target.id
        if _elem_reads(s.body, X, i) and _loop_keeps(s, X, [i]):
            fn_names = {n.id for n in ast.walk(fn) if isinstance(n, ast.Name)} | {a.arg for a in ast.walk(fn) if isinstance(a, ast.arg)}
            base = (X.attr if isinstance(X, ast.Attribute) else X.id).rstrip("s") or "elem"
            x, k = f"{base}__e", 0
            while x in fn_names:
                k += 1
                x = f"{base}__e{k}"
            s.body = [_subst_elem(b, X, i, x) for b in s.body]
            s.target = ast.Tuple(elts=[ast.Name(id=i, ctx=ast.Store()), ast.Name(id=x, ctx=ast.Store())], ctx=ast.Store())
            s.iter = ast.Call(func=ast.Name(id="enumerate", ctx=ast.Load()), args=[X], keywords=[])
            ast.fix_missing_locations(s)
            return _rewrite_stmt(fn, s)
    if isinstance(s, ast.For) and isinstance(s.iter, ast.Call) and isinstance(s.iter.func, ast.Name) and \
            s.iter.func.id == "enumerate" and len(s.iter.args) == 1 and not s.iter.keywords and isinstance(s.target, ast.Tuple) and \
            len(s.target.elts) == 2 and all(isinstance(e, ast.Name) for e in s.target.elts) and _is_chain(s.iter.args[0]):
        X = s.iter.args[0]
        i, x = s.target.elts[0].id, s.target.elts[1].id
        if _elem_reads(s.body, X, i) and _loop_keeps(s, X, [i, x]):
            s.body = [_subst_elem(b, X, i, x) for b in s.body]
            ast.fix_missing_locations(s)
    # for v in [a, b]: BODY   ->   v = a; BODY; v = b; BODY   (short displays; BODY without break / continue of its own level)
    if isinstance(s, ast.For) and isinstance(s.iter, (ast.List, ast.Tuple)) and 1 <= len(s.iter.elts) <= 4 and not s.orelse and \
            isinstance(s.target, ast.Name) and not any(isinstance(e, ast.Starred) for e in s.iter.elts) and \
            not _own_level_jump(s.body) and (len(s.iter.elts) == 1 or sum(1 for b in s.body for _ in ast.walk(b)) <= 220):
        elts = list(s.iter.elts)
        stored = {n.id for b in s.body for n in ast.walk(b) if isinstance(n, ast.Name) and isinstance(n.ctx, ast.Store)}
        later = set()
        for e in elts[1:]:
            later |= _names(e)
        # the display is evaluated before the first iteration: later elements must not read what BODY re-binds, and must not
        # be calls whose evaluation would move behind the earlier iterations
        if not (later & (stored | {s.target.id})) and not any(_has_call(e) for e in elts[1:]):
            out = []
            v_ = s.target.id
            rebinds = v_ in stored
            src_body = copy.deepcopy(s.body)
            for i, e in enumerate(elts):
                out.append(ast.copy_location(ast.Assign(targets=[ast.Name(id=v_, ctx=ast.Store())], value=e), s))
                body = copy.deepcopy(src_body)
                if isinstance(e, ast.Constant) and not rebinds:
                    # a constant element: the iteration's copy of BODY reads the constant itself (names computed from it fold)
                    class _K(ast.NodeTransformer):
                        def visit_Name(self, node):
                            if node.id == v_ and isinstance(node.ctx, ast.Load):
                                return ast.copy_location(ast.Constant(value=e.value), node)
                            return node

                        def visit_Lambda(self, node):
                            return node
                    body = [_K().visit(b) for b in body]
                    d_ = _Displays()
                    body = [d_.visit(b) for b in body]
                for b in body:
                    ast.fix_missing_locations(b)
                    out.extend(_rewrite_stmt(fn, b) if not isinstance(b, (ast.For, ast.While, ast.If, ast.With, ast.Try)) else [b])
            for x in out:
                ast.fix_missing_locations(x)
            return out
    # for T in [E for V in X if C]: BODY   ->   for V' in X: if C: T = E; BODY   (filter / projection loops)
    if isinstance(s, ast.For) and isinstance(s.iter, (ast.ListComp, ast.GeneratorExp)) and len(s.iter.generators) == 1 and \
            not s.iter.generators[0].is_async and isinstance(s.iter.generators[0].target, ast.Name):
        g = s.iter.generators[0]
        v = g.target.id
        lazy = isinstance(s.iter, ast.GeneratorExp)

        def _quiet(e):
            """reads only: names, attributes, subscripts, comparisons, boolean operators and type predicates"""
            for n in ast.walk(e):
                if isinstance(n, ast.Call):
                    if not (isinstance(n.func, ast.Name) and n.func.id in ("isinstance", "hasattr", "callable", "len", "type")):
                        return False
                elif isinstance(n, (ast.ListComp, ast.SetComp, ast.DictComp, ast.GeneratorExp, ast.Lambda, ast.NamedExpr,
                                    ast.Await, ast.Yield, ast.YieldFrom)):
                    return False
            return True
        stored = {n.id for b in s.body for n in ast.walk(b) if isinstance(n, ast.Name) and isinstance(n.ctx, ast.Store)}
        quiet = _quiet(s.iter.elt) and all(_quiet(c) for c in g.ifs)
        # the source expression is evaluated once, before the first iteration, in both spellings
        src_quiet = not any(isinstance(n, (ast.ListComp, ast.SetComp, ast.DictComp, ast.GeneratorExp, ast.Lambda, ast.NamedExpr,
                                           ast.Await, ast.Yield, ast.YieldFrom)) for n in ast.walk(g.iter))
        reads = set()
        for c in list(g.ifs) + [s.iter.elt]:
            reads |= _names(c)
        # eager list: the conditions run before BODY - exact when BODY re-binds nothing they read; a generator expression is
        # interleaved with BODY anyway
        if quiet and (lazy or (src_quiet and not ((reads - {v}) & stored))):
            fn_names = {n.id for n in ast.walk(fn) if isinstance(n, ast.Name)} | {a.arg for a in ast.walk(fn)
                                                                                   if isinstance(a, ast.arg)}
            same = isinstance(s.iter.elt, ast.Name) and s.iter.elt.id == v and isinstance(s.target, ast.Name)
            if same:
                nv = s.target.id
            else:
                nv, k = v, 0
                while nv in fn_names:
                    k += 1
                    nv = f"{v}__c{k}"

            class _R(ast.NodeTransformer):
                def visit_Name(self, node):
                    if node.id == v:
                        return ast.copy_location(ast.Name(id=nv, ctx=node.ctx), node)
                    return node
            conds = [_R().visit(copy.deepcopy(c)) for c in g.ifs]
            body = list(s.body)
            if not same:
                body = [ast.copy_location(ast.Assign(targets=[s.target], value=_R().visit(copy.deepcopy(s.iter.elt))), s)] + body
            if conds:
                test = conds[0] if len(conds) == 1 else ast.BoolOp(op=ast.And(), values=conds)
                body = [ast.copy_location(ast.If(test=test, body=body, orelse=[]), s)]
            loop = ast.copy_location(ast.For(target=ast.Name(id=nv, ctx=ast.Store()), iter=g.iter, body=body,
                                             orelse=s.orelse, type_comment=None), s)
            ast.fix_missing_locations(loop)
            return _rewrite_stmt(fn, loop)
    # xs = [E for v in IT if C]
    if COMPREHENSIONS_AS_LOOPS and isinstance(s, ast.Assign) and len(s.targets) == 1 and isinstance(s.targets[0], ast.Name) \
            and isinstance(s.value, ast.ListComp) and len(s.value.generators) == 1 and not s.value.generators[0].is_async:
        g = s.value.generators[0]
        xs = s.targets[0].id
        inner = [n for n in ast.walk(s.value) if isinstance(n, (ast.ListComp, ast.SetComp, ast.DictComp, ast.GeneratorExp,
                                                               ast.Lambda, ast.NamedExpr)) and n is not s.value]
        bound = {n.id for n in ast.walk(g.target) if isinstance(n, ast.Name)}

        def _root(e):
            while isinstance(e, (ast.Attribute, ast.Subscript)):
                e = e.value
            return e.id if isinstance(e, ast.Name) else None
        # only dispatch comprehensions - the iterated elements are themselves called (loaders, collators, transforms): there
        # the order and the once-per-element discipline are what the path rules look at; comprehensions that merely build a
        # value stay values
        dispatch = any(isinstance(c, ast.Call) and _root(c.func) in bound for c in ast.walk(s.value.elt))
        if dispatch and not inner and xs not in _names(s.value):
            fn_names = {n.id for n in ast.walk(fn) if isinstance(n, ast.Name)} | {a.arg for a in ast.walk(fn)
                                                                                   if isinstance(a, ast.arg)}
            outside = set()
            for n in ast.walk(fn):
                if isinstance(n, ast.Name) and n.id in bound and not any(n is m for m in ast.walk(s.value)):
                    outside.add(n.id)
            ren = {b: b for b in bound}
            for b in outside:
                k = 1
                while f"{b}__c{k}" in fn_names:
                    k += 1
                ren[b] = f"{b}__c{k}"

            class RN(ast.NodeTransformer):
                def visit_Name(self, node):
                    if node.id in ren and ren[node.id] != node.id:
                        return ast.copy_location(ast.Name(id=ren[node.id], ctx=node.ctx), node)
                    return node
            rn = RN()
            tgt = rn.visit(copy.deepcopy(g.target))
            elt = rn.visit(copy.deepcopy(s.value.elt))
            ifs = [rn.visit(copy.deepcopy(c)) for c in g.ifs]
            app = ast.Expr(value=ast.Call(func=ast.Attribute(value=ast.Name(id=xs, ctx=ast.Load()), attr="append",
                                                             ctx=ast.Load()), args=[elt], keywords=[]))
            body: List[ast.stmt] = [ast.copy_location(app, s)]
            if ifs:
                test = ifs[0] if len(ifs) == 1 else ast.BoolOp(op=ast.And(), values=ifs)
                body = [ast.copy_location(ast.If(test=test, body=body, orelse=[]), s)]
            init = ast.copy_location(ast.Assign(targets=[ast.Name(id=xs, ctx=ast.Store())],
                                                value=ast.List(elts=[], ctx=ast.Load())), s)
            loop = ast.copy_location(ast.For(target=tgt, iter=g.iter, body=body, orelse=[], type_comment=None), s)
            return [init, loop]
    return [s]


COMPREHENSIONS_AS_LOOPS = True
IFEXP_AS_STATEMENT = True


def _is_chain(e) -> bool:
    while isinstance(e, ast.Attribute):
        e = e.value
    return isinstance(e, ast.Name)


def _elem_reads(stmts, X, i) -> bool:
    for b in stmts:
        for n in ast.walk(b):
            if isinstance(n, ast.Subscript) and isinstance(n.ctx, ast.Load) and isinstance(n.slice, ast.Name) and n.slice.id == i \
                    and _is_chain(n.value) and ast.unparse(n.value) == ast.unparse(X):
                return True
    return False


def _loop_keeps(loop, X, names) -> bool:
    """The loop body re-binds none of the names, neither re-binds nor stores into / mutates X (no X[..] = .., X.append(..), del),
    and defines no nested scope that could."""
    xs = ast.unparse(X)
    root = X
    while isinstance(root, ast.Attribute):
        root = root.value
    for b in loop.body + loop.orelse:
        for n in ast.walk(b):
            if isinstance(n, (ast.FunctionDef, ast.AsyncFunctionDef, ast.Lambda, ast.ClassDef)):
                return False
            if isinstance(n, ast.Name) and isinstance(n.ctx, (ast.Store, ast.Del)) and (n.id in names or n.id == root.id):
                return False
            if isinstance(n, (ast.Attribute, ast.Subscript)) and isinstance(n.ctx, (ast.Store, ast.Del)):
                tgt = n.value if isinstance(n, ast.Subscript) else n
                if _is_chain(tgt) and (ast.unparse(tgt) == xs or xs.startswith(ast.unparse(tgt) + ".")):
                    return False
                if isinstance(n, ast.Attribute) and _is_chain(n) and xs.startswith(ast.unparse(n)):
                    return False
            if isinstance(n, ast.Call) and isinstance(n.func, ast.Attribute) and _is_chain(n.func.value) and \
                    ast.unparse(n.func.value) == xs and n.func.attr in ("append", "extend", "insert", "pop", "remove", "clear",
                                                                         "sort", "reverse", "__setitem__", "__delitem__"):
                return False
    return True


def _subst_elem(stmt, X, i, x):
    xs = ast.unparse(X)

    class T(ast.NodeTransformer):
        def visit_Subscript(self, node):
            node = self.generic_visit(node)
            if isinstance(node.ctx, ast.Load) and isinstance(node.slice, ast.Name) and node.slice.id == i and \
                    _is_chain(node.value) and ast.unparse(node.value) == xs:
                return ast.copy_location(ast.Name(id=x, ctx=ast.Load()), node)
            return node
    return T().visit(stmt)


def _own_level_jump(stmts) -> bool:
    """break / continue that belongs to the enclosing loop (not to a loop nested in stmts)."""
    for x in stmts:
        if isinstance(x, (ast.Break, ast.Continue)):
            return True
        if isinstance(x, (ast.For, ast.AsyncFor, ast.While)):
            if _own_level_jump(x.orelse):
                return True
            continue
        if isinstance(x, (ast.FunctionDef, ast.AsyncFunctionDef, ast.ClassDef)):
            continue
        for f in ("body", "orelse", "finalbody"):
            v = getattr(x, f, None)
            if isinstance(v, list) and v and isinstance(v[0], ast.stmt) and _own_level_jump(v):
                return True
        for h in getattr(x, "handlers", []) or []:
            if _own_level_jump(h.body):
                return True
    return False


def _merge_comp_loops(fn, stmts: List[ast.stmt]) -> List[ast.stmt]:
    """'ts = [E for v in X if C]' directly followed by 'for t in ts:' (ts used nowhere else)  ->  'for t in [E for ...]:'"""
    out: List[ast.stmt] = []
    i = 0
    while i < len(stmts):
        a = stmts[i]
        b = stmts[i + 1] if i + 1 < len(stmts) else None
        if isinstance(a, ast.Assign) and len(a.targets) == 1 and isinstance(a.targets[0], ast.Name) and \
                isinstance(a.value, (ast.ListComp, ast.GeneratorExp)) and isinstance(b, ast.For) and \
                isinstance(b.iter, ast.Name) and b.iter.id == a.targets[0].id:
            tmp = a.targets[0].id
            uses = sum(isinstance(n, ast.Name) and n.id == tmp for n in ast.walk(fn))
            if uses == 2:
                b.iter = a.value
                out.append(b)
                i += 2
                continue
        out.append(a)
        i += 1
    return out


def _merge_seeded_generators(stmts: List[ast.stmt]) -> List[ast.stmt]:
    """'g = torch.Generator(..)' directly followed by the statement 'g.manual_seed(E)'  ->  'g = torch.Generator(..).manual_seed(E)'
    (Generator.manual_seed seeds in place and returns the generator itself; E is evaluated after the construction either way)"""
    out: List[ast.stmt] = []
    i = 0
    while i < len(stmts):
        a = stmts[i]
        b = stmts[i + 1] if i + 1 < len(stmts) else None
        if isinstance(a, ast.Assign) and len(a.targets) == 1 and isinstance(a.targets[0], ast.Name) and \
                isinstance(a.value, ast.Call) and isinstance(a.value.func, ast.Attribute) and a.value.func.attr == "Generator" and \
                isinstance(a.value.func.value, ast.Name) and a.value.func.value.id == "torch" and \
                isinstance(b, ast.Expr) and isinstance(b.value, ast.Call) and isinstance(b.value.func, ast.Attribute) and \
                b.value.func.attr == "manual_seed" and isinstance(b.value.func.value, ast.Name) and \
                b.value.func.value.id == a.targets[0].id and \
                not any(isinstance(n, ast.Name) and n.id == a.targets[0].id for x in b.value.args + [k.value for k in b.value.keywords]
                        for n in ast.walk(x)):
            call = ast.Call(func=ast.Attribute(value=a.value, attr="manual_seed", ctx=ast.Load()), args=b.value.args,
                            keywords=b.value.keywords)
            out.append(ast.copy_location(ast.Assign(targets=a.targets, value=ast.copy_location(call, b.value)), a))
            i += 2
            continue
        out.append(a)
        i += 1
    return out


def _merge_cond_temps(fn, stmts: List[ast.stmt]) -> List[ast.stmt]:
    """'c = E' directly followed by 'if c:' (c used nowhere else)  ->  'if E:'  (E is evaluated at the same point, once)"""
    out: List[ast.stmt] = []
    i = 0
    while i < len(stmts):
        a = stmts[i]
        b = stmts[i + 1] if i + 1 < len(stmts) else None
        if isinstance(a, ast.Assign) and len(a.targets) == 1 and isinstance(a.targets[0], ast.Name) and isinstance(b, ast.If) and \
                isinstance(b.test, ast.Name) and b.test.id == a.targets[0].id:
            tmp = a.targets[0].id
            uses = sum(isinstance(n, ast.Name) and n.id == tmp for n in ast.walk(fn))
            if uses == 2:
                b.test = a.value
                out.append(b)
                i += 2
                continue
        out.append(a)
        i += 1
    return out


def _block(fn, stmts: List[ast.stmt]) -> List[ast.stmt]:
    out: List[ast.stmt] = []
    stmts = _merge_comp_loops(fn, stmts)
    stmts = _merge_cond_temps(fn, stmts)
    stmts = _merge_seeded_generators(stmts)
    for s in stmts:
        if isinstance(s, (ast.FunctionDef, ast.AsyncFunctionDef)):
            normalise_function(s)
            out.append(s)
            continue
        if isinstance(s, ast.ClassDef):
            out.append(s)
            continue
        for f in ("body", "orelse", "finalbody"):
            v = getattr(s, f, None)
            if isinstance(v, list) and v and isinstance(v[0], ast.stmt):
                v[:] = _block(fn, v)
        for h in getattr(s, "handlers", []) or []:
            h.body[:] = _block(fn, h.body)
        new = _rewrite_stmt(fn, s)
        for x in new:
            ast.fix_missing_locations(x)
        out.extend(new)
    return out


def _forward_tuples(fn) -> bool:
    """'t = (a, b); ...; p, q = t'  ->  'p, q = (a, b)' when that display is the only definition of t reaching the unpacking
    and a, b are names / constants not re-bound in between (reaching definitions on the function's CFG)."""
    cands = [s for s in ast.walk(fn) if isinstance(s, ast.Assign) and len(s.targets) == 1 and isinstance(s.targets[0], ast.Tuple)
             and isinstance(s.value, ast.Name) and all(isinstance(e, ast.Name) for e in s.targets[0].elts)]
    if not cands:
        return False
    from .cfg import CFG
    try:
        cfg = CFG(fn)
    except Exception:  # pragma: no cover - a construct the CFG does not model: leave the function alone
        return False
    rd = cfg.reaching()
    changed = False
    for s in cands:
        n = cfg.stmt_node.get(s)
        if n is None:
            continue
        defs = rd.get(n, {}).get(s.value.id, set())
        if len(defs) != 1:
            continue
        (d,) = defs
        dst = cfg.nodes[d].ast if cfg.nodes[d].kind == "stmt" else None
        if not (isinstance(dst, ast.Assign) and len(dst.targets) == 1 and isinstance(dst.targets[0], ast.Name)
                and isinstance(dst.value, ast.Tuple) and len(dst.value.elts) == len(s.targets[0].elts)
                and all(isinstance(e, (ast.Name, ast.Constant)) for e in dst.value.elts)):
            continue
        if any(isinstance(e, ast.Name) and rd.get(d, {}).get(e.id, set()) != rd.get(n, {}).get(e.id, set()) for e in dst.value.elts):
            continue
        s.value = ast.copy_location(copy.deepcopy(dst.value), s.value)
        changed = True
    return changed


def _expand_quantifiers(fn) -> bool:
    """all(E(v) for v in [a, b, c])  ->  E(a) and E(b) and E(c)   (any -> or), also when the display reaches the call through a
    local that was bound to it once and whose elements (names / constants / attribute chains) are not re-bound in between.
    all() / any() stop at the first deciding element exactly as and / or do; E must be call-free apart from type predicates."""
    calls = [c for c in ast.walk(fn) if isinstance(c, ast.Call) and isinstance(c.func, ast.Name) and c.func.id in ("all", "any")
             and len(c.args) == 1 and not c.keywords and isinstance(c.args[0], (ast.GeneratorExp, ast.ListComp))
             and len(c.args[0].generators) == 1 and not c.args[0].generators[0].ifs and not c.args[0].generators[0].is_async
             and isinstance(c.args[0].generators[0].target, ast.Name)]
    if not calls:
        return False
    cfg = rd = None
    changed = False
    parents = {}
    for p_ in ast.walk(fn):
        for c_ in ast.iter_child_nodes(p_):
            parents[id(c_)] = p_
    for c in calls:
        g = c.args[0].generators[0]
        elt = c.args[0].elt
        v = g.target.id
        if any(isinstance(y, ast.Call) and not (isinstance(y.func, ast.Name) and y.func.id in _PURE_PREDICATES | {"len"})
               for y in ast.walk(elt)) or any(isinstance(y, (ast.Lambda, ast.ListComp, ast.GeneratorExp, ast.SetComp, ast.DictComp,
                                                                ast.NamedExpr, ast.Await, ast.Yield, ast.YieldFrom))
                                              for y in ast.walk(elt)):
            continue
        disp = None
        if isinstance(g.iter, (ast.List, ast.Tuple)):
            disp = g.iter
        elif isinstance(g.iter, ast.Name):
            if cfg is None:
                from .cfg import CFG
                try:
                    cfg = CFG(fn)
                except Exception:  # pragma: no cover
                    return changed
                rd = cfg.reaching()
            n = cfg.node_of(c)
            if n is None:
                continue
            defs = rd.get(n, {}).get(g.iter.id, set())
            if len(defs) != 1:
                continue
            (d,) = defs
            dst = cfg.nodes[d].ast if cfg.nodes[d].kind == "stmt" else None
            if not (isinstance(dst, ast.Assign) and len(dst.targets) == 1 and isinstance(dst.targets[0], ast.Name)
                    and isinstance(dst.value, (ast.List, ast.Tuple))):
                continue
            names_ = {y.id for e in dst.value.elts for y in ast.walk(e) if isinstance(y, ast.Name)}
            if any(rd.get(d, {}).get(x, set()) != rd.get(n, {}).get(x, set()) for x in names_):
                continue
            # the list object itself must not be changed in between: only reads of the local
            if any(isinstance(y, ast.Name) and y.id == g.iter.id and not isinstance(y.ctx, ast.Load) and y is not dst.targets[0]
                   for y in ast.walk(fn)):
                continue
            if any(isinstance(y, ast.Attribute) and isinstance(y.value, ast.Name) and y.value.id == g.iter.id
                   and y.attr in ("append", "extend", "insert", "pop", "remove", "clear", "sort", "reverse") for y in ast.walk(fn)):
                continue
            disp = dst.value
        if disp is None or not (1 <= len(disp.elts) <= 6) or not all(_is_chain(e) or isinstance(e, ast.Constant) for e in disp.elts):
            continue

        class _S(ast.NodeTransformer):
            def __init__(self, rep_):
                self.rep_ = rep_

            def visit_Name(self, node):
                if node.id == v and isinstance(node.ctx, ast.Load):
                    return ast.copy_location(copy.deepcopy(self.rep_), node)
                return node
        vals = [_S(e).visit(copy.deepcopy(elt)) for e in disp.elts]
        new = vals[0] if len(vals) == 1 else ast.BoolOp(op=ast.And() if c.func.id == "all" else ast.Or(), values=vals)
        def _boolean(e):
            if isinstance(e, ast.Compare) or (isinstance(e, ast.UnaryOp) and isinstance(e.op, ast.Not)):
                return True
            if isinstance(e, ast.BoolOp):
                return all(_boolean(x) for x in e.values)
            return isinstance(e, ast.Call) and isinstance(e.func, ast.Name) and e.func.id in _PURE_PREDICATES
        if len(vals) == 1 or not _boolean(elt):
            new = ast.Call(func=ast.Name(id="bool", ctx=ast.Load()), args=[new], keywords=[])
        par = parents.get(id(c))
        if par is None:
            continue
        _replace_child(par, c, ast.copy_location(new, c))
        changed = True
    if changed:
        ast.fix_missing_locations(fn)
    return changed


def _forward_slices(fn) -> bool:
    """'s = slice(a, b, c); ...; x[s]'  ->  'x[a:b:c]' when that call is the only definition of s reaching the subscript and its
    arguments are not re-bound in between."""
    uses = [x for x in ast.walk(fn) if isinstance(x, ast.Subscript) and isinstance(x.slice, ast.Name)]
    defs_ = {t.id for st in ast.walk(fn) if isinstance(st, ast.Assign) and len(st.targets) == 1 and isinstance(st.targets[0], ast.Name)
             and isinstance(st.value, ast.Call) and isinstance(st.value.func, ast.Name) and st.value.func.id == "slice"
             for t in st.targets}
    uses = [x for x in uses if x.slice.id in defs_]
    if not uses:
        return False
    from .cfg import CFG
    try:
        cfg = CFG(fn)
    except Exception:  # pragma: no cover
        return False
    rd = cfg.reaching()
    changed = False
    for x in uses:
        n = cfg.node_of(x)
        if n is None:
            continue
        ds = rd.get(n, {}).get(x.slice.id, set())
        if len(ds) != 1:
            continue
        (d,) = ds
        dst = cfg.nodes[d].ast if cfg.nodes[d].kind == "stmt" else None
        if not (isinstance(dst, ast.Assign) and isinstance(dst.value, ast.Call) and isinstance(dst.value.func, ast.Name)
                and dst.value.func.id == "slice" and not dst.value.keywords and 1 <= len(dst.value.args) <= 3):
            continue
        names_ = {y.id for a in dst.value.args for y in ast.walk(a) if isinstance(y, ast.Name)}
        if any(rd.get(d, {}).get(v, set()) != rd.get(n, {}).get(v, set()) for v in names_):
            continue
        if any(isinstance(y, ast.Call) for a in dst.value.args for y in ast.walk(a)):
            continue
        x.slice = ast.copy_location(copy.deepcopy(dst.value), x.slice)
        changed = True
    return changed


def _forward_callees(fn) -> bool:
    """'f = obj.method; ...; f(args)'  ->  'obj.method(args)' when that assignment is the only definition of f reaching the
    call and obj is not re-bound in between (a bound method fetched into a local before it is called)."""
    defs_ = {st.targets[0].id for st in ast.walk(fn) if isinstance(st, ast.Assign) and len(st.targets) == 1
             and isinstance(st.targets[0], ast.Name) and isinstance(st.value, ast.Attribute)
             and not any(isinstance(y, (ast.Call, ast.Subscript)) for y in ast.walk(st.value))}
    uses = [c for c in ast.walk(fn) if isinstance(c, ast.Call) and isinstance(c.func, ast.Name) and c.func.id in defs_]
    if not uses:
        return False
    from .cfg import CFG
    try:
        cfg = CFG(fn)
    except Exception:  # pragma: no cover
        return False
    rd = cfg.reaching()
    changed = False
    for c in uses:
        n = cfg.node_of(c)
        if n is None:
            continue
        ds = rd.get(n, {}).get(c.func.id, set())
        if len(ds) != 1:
            continue
        (d,) = ds
        dst = cfg.nodes[d].ast if cfg.nodes[d].kind == "stmt" else None
        if not (isinstance(dst, ast.Assign) and len(dst.targets) == 1 and isinstance(dst.targets[0], ast.Name)
                and isinstance(dst.value, ast.Attribute)):
            continue
        if any(isinstance(y, (ast.Call, ast.Subscript)) for y in ast.walk(dst.value)):
            continue
        names_ = {y.id for y in ast.walk(dst.value) if isinstance(y, ast.Name)}
        if any(rd.get(d, {}).get(v, set()) != rd.get(n, {}).get(v, set()) for v in names_):
            continue
        c.func = ast.copy_location(copy.deepcopy(dst.value), c.func)
        changed = True
    return changed


def _forward_getattr_methods(fn) -> bool:
    """'f = getattr(obj, "m", None); ...; if f is not None: f(args)'  ->  'if hasattr(obj, "m"): obj.m(args)' when every use of f is
    such a None test / truth test / call, the getattr is the only definition reaching it and obj is not re-bound in between (an
    optional method looked up once, outside a loop)."""
    cands = {}
    for st in ast.walk(fn):
        if isinstance(st, ast.Assign) and len(st.targets) == 1 and isinstance(st.targets[0], ast.Name) and \
                isinstance(st.value, ast.Call) and isinstance(st.value.func, ast.Name) and st.value.func.id == "getattr" and \
                len(st.value.args) == 3 and not st.value.keywords and _is_chain(st.value.args[0]) and \
                isinstance(st.value.args[1], ast.Constant) and isinstance(st.value.args[1].value, str) and \
                st.value.args[1].value.isidentifier() and isinstance(st.value.args[2], ast.Constant) and st.value.args[2].value is None:
            cands.setdefault(st.targets[0].id, []).append(st)
    cands = {k: v[0] for k, v in cands.items() if len(v) == 1}
    if not cands:
        return False
    # all stores of the name: exactly the one getattr
    for n in ast.walk(fn):
        if isinstance(n, ast.Name) and isinstance(n.ctx, (ast.Store, ast.Del)) and n.id in cands and n is not cands[n.id].targets[0]:
            cands.pop(n.id, None)
    for a in ast.walk(fn):
        if isinstance(a, ast.arg) and a.arg in cands:
            cands.pop(a.arg, None)
    if not cands:
        return False
    parents = {}
    for p_ in ast.walk(fn):
        for c_ in ast.iter_child_nodes(p_):
            parents[id(c_)] = p_
    from .cfg import CFG
    try:
        cfg = CFG(fn)
    except Exception:  # pragma: no cover
        return False
    rd = cfg.reaching()
    changed = False
    for name, dst in cands.items():
        obj, attr = dst.value.args[0], dst.value.args[1].value
        d = cfg.stmt_node.get(dst)
        if d is None:
            continue
        uses = [n for n in ast.walk(fn) if isinstance(n, ast.Name) and n.id == name and isinstance(n.ctx, ast.Load)]
        plan = []
        ok = bool(uses)
        root = obj
        while isinstance(root, ast.Attribute):
            root = root.value
        for u in uses:
            par = parents.get(id(u))
            n = cfg.node_of(u)
            if n is None or rd.get(n, {}).get(name, set()) != {d} or \
                    rd.get(d, {}).get(root.id, set()) != rd.get(n, {}).get(root.id, set()):
                ok = False
                break
            if isinstance(par, ast.Call) and par.func is u:
                plan.append(("call", par, u))
            elif isinstance(par, ast.Compare) and par.left is u and len(par.ops) == 1 and isinstance(par.ops[0], (ast.Is, ast.IsNot)) \
                    and isinstance(par.comparators[0], ast.Constant) and par.comparators[0].value is None:
                plan.append(("isnot" if isinstance(par.ops[0], ast.IsNot) else "is", par, u))
            elif isinstance(par, (ast.If, ast.While, ast.IfExp, ast.Assert)) and par.test is u:
                plan.append(("truth", par, u))
            elif isinstance(par, ast.UnaryOp) and isinstance(par.op, ast.Not):
                plan.append(("not", par, u))
            elif isinstance(par, ast.BoolOp):
                plan.append(("boolop", par, u))
            else:
                ok = False
                break
        if not ok:
            continue

        def has():
            return ast.Call(func=ast.Name(id="hasattr", ctx=ast.Load()), args=[copy.deepcopy(obj), ast.Constant(value=attr)],
                            keywords=[])
        for kind, par, u in plan:
            if kind == "call":
                par.func = ast.copy_location(ast.Attribute(value=copy.deepcopy(obj), attr=attr, ctx=ast.Load()), u)
            elif kind in ("is", "isnot"):
                new = has() if kind == "isnot" else ast.UnaryOp(op=ast.Not(), operand=has())
                gp = parents.get(id(par))
                _replace_child(gp, par, ast.copy_location(new, par))
            elif kind == "truth":
                par.test = ast.copy_location(has(), u)
            elif kind == "not":
                par.operand = ast.copy_location(has(), u)
            elif kind == "boolop":
                par.values = [ast.copy_location(has(), u) if v is u else v for v in par.values]
        # the look-up itself stays as a dead store only if something else still reads it: nothing does
        dst.value = ast.copy_location(ast.Constant(value=None), dst.value)
        ast.fix_missing_locations(fn)
        changed = True
    return changed


def _replace_child(parent, old, new):
    for f, v in ast.iter_fields(parent):
        if v is old:
            setattr(parent, f, new)
            return
        if isinstance(v, list):
            for i, x in enumerate(v):
                if x is old:
                    v[i] = new
                    return


_PURE_PREDICATES = {"isinstance", "hasattr", "callable", "issubclass"}


def _flag_expr(e: ast.AST) -> bool:
    """A side-effect free type / None guard over names, attributes and constants: isinstance / hasattr / callable calls and
    'is (not)' comparisons, combined with and / or / not."""
    if not isinstance(e, (ast.Compare, ast.BoolOp, ast.UnaryOp, ast.Call)):
        return False
    if isinstance(e, ast.UnaryOp) and not isinstance(e.op, ast.Not):
        return False
    for y in ast.walk(e):
        if isinstance(y, ast.Compare) and not all(isinstance(op, (ast.Is, ast.IsNot)) for op in y.ops):
            return False  # only type / None guards are written out; value comparisons stay behind their flag
        if isinstance(y, (ast.BinOp,)):
            return False
        if isinstance(y, ast.Call):
            if not (isinstance(y.func, ast.Name) and y.func.id in _PURE_PREDICATES):
                return False
        elif isinstance(y, (ast.Subscript, ast.Lambda, ast.NamedExpr, ast.Yield, ast.YieldFrom, ast.Await, ast.IfExp, ast.ListComp,
                            ast.SetComp, ast.DictComp, ast.GeneratorExp, ast.JoinedStr, ast.Starred)):
            return False
    return True


def _forward_flags(fn) -> bool:
    """'flag = <pure test>; ...; if flag and ..:'  ->  the test is written out where the flag is tested (if / while / assert
    tests and their and / or / not operands), when that assignment is the only definition of the flag reaching the test and
    nothing the test reads (names, self attributes) is re-bound in between.  The assignment itself stays."""
    cand = {}
    for st in ast.walk(fn):
        if isinstance(st, ast.Assign) and len(st.targets) == 1 and isinstance(st.targets[0], ast.Name) and _flag_expr(st.value):
            cand.setdefault(st.targets[0].id, []).append(st)
    if not cand:
        return False
    from .cfg import CFG
    try:
        cfg = CFG(fn)
    except Exception:  # pragma: no cover
        return False
    rd = cfg.reaching()
    args = fn.args.posonlyargs + fn.args.args
    me = args[0].arg if args else None

    def reads(e):
        out = set()
        for y in ast.walk(e):
            if isinstance(y, ast.Name):
                out.add(y.id)
            if isinstance(y, ast.Attribute) and isinstance(y.value, ast.Name) and y.value.id == me:
                out.add(f"{me}.{y.attr}")
        return out
    changed = False

    def subst(test_owner, field, n):
        nonlocal changed

        class S(ast.NodeTransformer):
            def visit_Name(self, node):
                nonlocal changed
                if not isinstance(node.ctx, ast.Load) or node.id not in cand:
                    return node
                ds = rd.get(n, {}).get(node.id, set())
                if len(ds) != 1:
                    return node
                (d,) = ds
                dst = cfg.nodes[d].ast if cfg.nodes[d].kind == "stmt" else None
                if dst not in cand[node.id]:
                    return node
                if any(rd.get(d, {}).get(v, set()) != rd.get(n, {}).get(v, set()) for v in reads(dst.value)):
                    return node
                changed = True
                return ast.copy_location(copy.deepcopy(dst.value), node)

            def generic_visit(self, node):
                # only through truth-functional structure
                if isinstance(node, (ast.BoolOp,)) or (isinstance(node, ast.UnaryOp) and isinstance(node.op, ast.Not)):
                    return super().generic_visit(node)
                return node
        e = getattr(test_owner, field)
        if isinstance(e, ast.Name):
            setattr(test_owner, field, S().visit_Name(e))
        else:
            setattr(test_owner, field, S().visit(e))
    for st in list(ast.walk(fn)):
        if isinstance(st, (ast.If, ast.While, ast.Assert)):
            n = cfg.stmt_node.get(st)
            if n is not None:
                subst(st, "test", n)
    return changed


def normalise_function(fn):
    before = ast.dump(fn)
    _normalise_function_once(fn)
    for _ in range(2):
        # a rewrite can enable another one inside blocks that were visited before it (unrolled loops with constant elements)
        after = ast.dump(fn)
        if after == before:
            break
        before = after
        _normalise_function_once(fn)
    _forward_getattr_methods(fn)
    _expand_quantifiers(fn)
    _forward_flags(fn)
    t = _forward_tuples(fn)
    sl = _forward_slices(fn)
    _forward_callees(fn)
    if t or sl:
        _normalise_function_once(fn)  # forwarded displays are split into plain assignments, slice(..) calls become slices


def _normalise_function_once(fn):
    d = _Displays()
    for i, s in enumerate(fn.body):
        if not isinstance(s, _SCOPES):
            fn.body[i] = d.visit(s)
    # displays first: 'idxs = list()' must count as a list display for the '+=' rule
    fn.body[:] = _block(fn, fn.body)


def normalise(prog) -> None:
    for fi in prog.all_functions():
        normalise_function(fi.node)
