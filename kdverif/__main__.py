"""CLI:  python3-vt -m kdverif check <ID> quick|thorough     |     python3-vt -m kdverif explain <replay.json>"""
from __future__ import annotations

import importlib
import json
import os
import sys
import traceback

from .core import Report
from .model import AnalysisError, Program

ROOT = os.environ.get("KDVERIF_REPO", "/repo")


def run_check(prop: str, tier: str, root: str = ROOT, overlays=None, write=True, quiet=False):
    """-> (exit code, Report)"""
    rep = Report(prop, tier, root)
    try:
        mod = importlib.import_module(f"kdverif.props.{prop.lower()}")
        prog = Program(root, overlays=overlays)
        if prog.parse_errors:
            raise AnalysisError("unparsable source: " + "; ".join(prog.parse_errors))
        mod.run(prog, rep, tier)
    except AnalysisError as e:
        rep.errors.append(str(e))
    except Exception as e:  # a crash of the analyser is never a verdict about the repository
        rep.errors.append(f"internal error: {type(e).__name__}: {e}")
        if not quiet:
            traceback.print_exc(file=sys.stderr)
    rc = rep.finish(write=write, quiet=quiet)
    return rc, rep


def main(argv):
    if len(argv) >= 2 and argv[0] == "check":
        prop = argv[1].upper()
        tier = argv[2] if len(argv) > 2 else os.environ.get("VERIF_TIER", "quick")
        rc, rep = run_check(prop, tier)
        if tier == "thorough" and rc != 1:
            from . import selftest
            rc2 = selftest.run_for(prop, rep)
            rc = max(rc, rc2)
        return rc
    if len(argv) >= 2 and argv[0] == "explain":
        with open(argv[1]) as f:
            data = json.load(f)
        prop = data["property"]
        rc, rep = run_check(prop, "quick", write=False, quiet=True)
        hits = [o for o in rep.obs if o.key() == data["key"]]
        print(f"property {prop}  key {data['key']}")
        print(f"rule: {data.get('rule_text', '')}")
        if not hits:
            print("on the current tree this construct no longer yields an obligation with that key")
            return 0
        for o in hits:
            print(f"{o.loc()}: verdict={o.verdict}: {o.detail}")
        return 1 if any(o.verdict == 'violated' for o in hits) else 0
    print(__doc__)
    return 2


if __name__ == "__main__":
    try:
        sys.exit(main(sys.argv[1:]))
    except SystemExit:
        raise
    except BaseException as e:  # pragma: no cover
        print(f"ANALYSIS-ERROR internal: {type(e).__name__}: {e}")
        sys.exit(2)
