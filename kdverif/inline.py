"""Normal form, part 1: private helpers are inlined into their callers (AST to AST, nothing is executed).

'Extract method' is the most common behaviour-preserving edit; the rules are written against the normal form in which the
body of a *private* helper (``self._x(...)``, ``Class._x(...)``, module-level ``_x(...)``, or a nested def) stands where
the call stood.  A call is replaced only when the replacement is an exact program equivalence:

* the callee is resolved uniquely, is not overridden in a subclass inside the package, is not recursive, takes no
  ``*args/**kwargs``, has constant defaults, declares no global/nonlocal and contains no import;
* its free names mean the same thing in the caller's module (or it lives in the same module / is a closure of the caller);
* the call stands where hoisting it keeps the evaluation order: an expression statement, the whole right-hand side of an
  assignment, ``return call``, ``yield from call`` as a statement, or the first thing evaluated by an if/assert test, an
  assigned or returned expression;
* every ``return`` of the callee is in tail position (guard clauses are turned into if/else; a return inside a loop, with
  or try block leaves the call alone).

Arguments are bound left to right to fresh locals (a bare name or constant is substituted directly when the parameter is
never re-assigned); the callee's own locals are renamed apart.  A helper that is a single ``return <expr>`` is substituted
as an expression wherever its arguments are side-effect free.  What cannot be inlined stays a call - the rules then see
exactly what they saw before this pass existed.
"""
from __future__ import annotations

import ast
import builtins
import copy
from typing import Dict, List, Optional, Tuple

from .model import FuncInfo, Program

_PURE_BUILTINS = {"len", "int", "float", "bool", "min", "max", "abs", "str", "tuple", "list", "isinstance", "round",
                  "range", "sum", "hasattr", "getattr", "type", "sorted", "any", "all", "zip", "enumerate"}
_BUILTINS = set(dir(builtins))


class Unsupported(Exception):
    pass


SAME_MODULE_PUBLIC_HELPERS = True
# public functions of the package that the rules (and the effect tables) treat as primitives: never inlined across modules
PRIMITIVES = {"get_rng_from_global", "getall", "getall_as_list", "getall_as_numpy", "getall_as_tensor", "getall_class_as_tensor",
              "to_one_hot_vector", "to_one_hot_matrix", "object_to_transform", "get_rank", "get_world_size", "is_distributed",
              "get_class_counts", "get_class_counts_and_indices", "get_class_counts_from_dataset", "unzip", "run_unzip_jobs",
              "unzip_batched_zips", "unzip_imagefolder_classwise", "folder_contains_mostly_zips", "log", "to_2tuple",
              "copy_folder_from_global_to_local", "copy_imagefolder_from_global_to_local", "intersection_area_ijhw",
              "intersection_area_ijkl", "is_managed", "is_rank0", "barrier", "all_gather_nograd"}


def _small_helper(fn) -> bool:
    """A short, loop-free function: the kind of helper a clean-up moves to module level for several classes to share."""
    body = _body_wo_doc(fn)
    n = sum(1 for x in ast.walk(fn) if isinstance(x, ast.stmt)) - 1
    return n <= 8 and not any(isinstance(x, (ast.For, ast.While, ast.With, ast.Try, ast.Yield, ast.YieldFrom, ast.Lambda))
                              for x in ast.walk(fn)) and bool(body)


def is_private(name: str) -> bool:
    return name.startswith("_") and not (name.startswith("__") and name.endswith("__"))


# ---- small AST helpers ---------------------------------------------------------------------------------------------------
_SCOPES = (ast.FunctionDef, ast.AsyncFunctionDef, ast.Lambda, ast.ClassDef)


def _walk_noscope(node):
    """ast.walk that does not enter nested function / lambda / class scopes (the node itself is entered)."""
    todo = [node]
    first = True
    while todo:
        n = todo.pop()
        if not first and isinstance(n, _SCOPES):
            continue
        first = False
        yield n
        todo.extend(ast.iter_child_nodes(n))


def _contains(node, kinds) -> bool:
    return any(isinstance(x, kinds) for x in _walk_noscope(node))


def _stmt_lists(st: ast.stmt):
    for f in ("body", "orelse", "finalbody"):
        v = getattr(st, f, None)
        if isinstance(v, list) and v and isinstance(v[0], ast.stmt):
            yield f, v
    for h in getattr(st, "handlers", []) or []:
        yield "handler", h.body


def _own_locals(fn: ast.AST) -> set:
    """Names bound in the function's own scope: parameters, assigned names, loop / with / except targets, nested defs."""
    out = set()
    a = fn.args
    for x in a.posonlyargs + a.args + a.kwonlyargs:
        out.add(x.arg)
    for st in fn.body:
        for n in _walk_noscope(st) if not isinstance(st, _SCOPES) else [st]:
            if isinstance(n, ast.Name) and isinstance(n.ctx, (ast.Store, ast.Del)):
                out.add(n.id)
            elif isinstance(n, ast.ExceptHandler) and n.name:
                out.add(n.name)
    for n in ast.walk(fn):
        if n is not fn and isinstance(n, (ast.FunctionDef, ast.AsyncFunctionDef, ast.ClassDef)):
            out.add(n.name)
    return out


def _assigned_params(fn) -> set:
    params = {x.arg for x in fn.args.posonlyargs + fn.args.args + fn.args.kwonlyargs}
    return {n.id for n in ast.walk(fn) if isinstance(n, ast.Name) and isinstance(n.ctx, (ast.Store, ast.Del))
            and n.id in params}


def _body_wo_doc(fn) -> List[ast.stmt]:
    b = list(fn.body)
    if b and isinstance(b[0], ast.Expr) and isinstance(b[0].value, ast.Constant) and isinstance(b[0].value.value, str):
        b = b[1:]
    return b


def _only_names(e: ast.AST) -> bool:
    """Operators over local names and constants: nothing a call could change or observe being evaluated earlier."""
    return all(isinstance(x, (ast.Name, ast.Constant, ast.BinOp, ast.UnaryOp, ast.BoolOp, ast.Compare, ast.operator,
                              ast.unaryop, ast.boolop, ast.cmpop, ast.expr_context, ast.Tuple, ast.IfExp))
               for x in ast.walk(e))


def _pure(e: ast.AST) -> bool:
    """Evaluating e has no side effect (reads only; calls only to side-effect free builtins)."""
    for x in ast.walk(e):
        if isinstance(x, ast.Call):
            if not (isinstance(x.func, ast.Name) and x.func.id in _PURE_BUILTINS):
                return False
        elif isinstance(x, (ast.Yield, ast.YieldFrom, ast.Await, ast.NamedExpr, ast.Lambda, ast.ListComp, ast.SetComp,
                            ast.DictComp, ast.GeneratorExp, ast.JoinedStr, ast.Starred)):
            return False
    return True


def _effect_free(fn) -> bool:
    """The callee stores to no attribute / subscript, yields nothing and calls nothing but side-effect free builtins."""
    for st in _body_wo_doc(fn):
        for x in ast.walk(st):
            if isinstance(x, (ast.Attribute, ast.Subscript)) and isinstance(x.ctx, (ast.Store, ast.Del)):
                return False
            if isinstance(x, (ast.Yield, ast.YieldFrom, ast.Await, ast.Global, ast.Nonlocal)):
                return False
            if isinstance(x, ast.Call) and not (isinstance(x.func, ast.Name) and x.func.id in _PURE_BUILTINS):
                return False
    return True


class _Rename(ast.NodeTransformer):
    def __init__(self, mapping: Dict[str, str], subst: Dict[str, ast.AST]):
        self.mapping = mapping
        self.subst = subst

    def visit_Name(self, node):
        if node.id in self.subst and isinstance(node.ctx, ast.Load):
            return copy.deepcopy(self.subst[node.id])
        if node.id in self.mapping:
            return ast.copy_location(ast.Name(id=self.mapping[node.id], ctx=node.ctx), node)
        return node

    def visit_arg(self, node):
        if node.arg in self.mapping:
            node.arg = self.mapping[node.arg]
        return node

    def visit_ExceptHandler(self, node):
        if node.name and node.name in self.mapping:
            node.name = self.mapping[node.name]
        return self.generic_visit(node)

    def visit_FunctionDef(self, node):
        if node.name in self.mapping:
            node.name = self.mapping[node.name]
        return self.generic_visit(node)

    visit_AsyncFunctionDef = visit_FunctionDef
    visit_ClassDef = visit_FunctionDef


# ---- the pass ------------------------------------------------------------------------------------------------------------
class Inliner:
    def __init__(self, prog: Program, exclude=()):
        self.prog = prog
        self.exclude = set(exclude)
        self.state: Dict[int, str] = {}  # id(function node) -> "busy" | "done"
        self.k = 0
        self.inlined: List[Tuple[str, str]] = []  # (caller, callee) for the evidence
        self.fi_of_node: Dict[int, FuncInfo] = {}
        self._in_try = False
        self._special: Dict[Tuple[int, int], FuncInfo] = {}
        self._recv_cls = None  # set while a method is specialised for one concrete receiver class (see specialise)

    # .. driver
    def run(self):
        fis = list(self.prog.all_functions())
        for fi in fis:
            self.fi_of_node[id(fi.node)] = fi
        for fi in fis:
            self.ensure(fi)
        return self

    def ensure(self, fi: FuncInfo):
        st = self.state.get(id(fi.node))
        if st is not None:
            return
        self.state[id(fi.node)] = "busy"
        try:
            nested = {n.name: n for n in ast.walk(fi.node)
                      if n is not fi.node and isinstance(n, (ast.FunctionDef, ast.AsyncFunctionDef))}
            n_before = len(self.inlined)
            fi.node.body = self._block(fi, fi.node.body, nested, 0)
            if len(self.inlined) > n_before:
                from .normal import normalise_function
                normalise_function(fi.node)  # spliced bodies may bring spellings the first pass has already removed elsewhere
        finally:
            self.state[id(fi.node)] = "done"

    def specialise(self, fi: FuncInfo, C) -> FuncInfo:
        """fi as it runs on a receiver of the concrete class C: private helpers / properties that subclasses re-define (template
        methods) are resolved through C's MRO and inlined.  fi itself when nothing in it is dispatched dynamically."""
        key = (id(fi.node), id(C))
        hit = self._special.get(key)
        if hit is not None:
            return hit
        res = fi
        params = fi.params()
        if fi.cls is not None and params and not fi.is_static and not fi.is_classmethod and C is not None:
            dyn = False
            for n in ast.walk(fi.node):
                if isinstance(n, ast.Attribute) and isinstance(n.value, ast.Name) and n.value.id == params[0] and \
                        is_private(n.attr) and isinstance(n.ctx, ast.Load):
                    tgt = C.lookup(n.attr)
                    if tgt is not None and tgt.node is not fi.node and n.attr not in self.exclude:
                        dyn = True
                        break
            if dyn:
                node = copy.deepcopy(fi.node)
                sfi = FuncInfo(fi.name, fi.qualname, fi.module, node, fi.cls)
                nested = {n.name: n for n in ast.walk(node)
                          if n is not node and isinstance(n, (ast.FunctionDef, ast.AsyncFunctionDef))}
                self._recv_cls = C
                n_before = len(self.inlined)
                try:
                    self.state[id(node)] = "busy"
                    node.body = self._block(sfi, node.body, nested, 0)
                finally:
                    self._recv_cls = None
                    self.state[id(node)] = "done"
                if len(self.inlined) > n_before:
                    from .normal import normalise_function
                    normalise_function(node)
                    res = sfi
        self._special[key] = res
        return res

    # .. resolution
    def _resolve(self, fi: FuncInfo, c: ast.Call, nested) -> Optional[Tuple[FuncInfo, Optional[ast.AST], bool]]:
        """-> (callee, receiver expression bound to the callee's first parameter or None, is closure)."""
        f = c.func
        callee = None
        recv = None
        closure = False
        if isinstance(f, ast.Attribute) and isinstance(f.value, ast.Name) and is_private(f.attr):
            params = fi.params()
            if fi.cls is not None and not fi.is_static and params and f.value.id == params[0]:
                callee = (self._recv_cls or fi.cls).lookup(f.attr)
                if callee is None or callee.is_property:
                    return None
                if fi.is_classmethod and not (callee.is_static or callee.is_classmethod):
                    return None  # cls.method(obj, ..): an unbound call
                if self._recv_cls is None:
                    for sc in self.prog.subclasses(fi.cls, include_self=False, include_dead=True):
                        if f.attr in sc.methods or f.attr in sc.class_attrs:
                            return None  # dynamic dispatch may pick the override
                if any(f.attr in k.class_attrs for k in (self._recv_cls or fi.cls).mro() if hasattr(k, "class_attrs")):
                    return None
                if callee.is_classmethod:
                    # the class of the receiver is bound to the callee's first parameter
                    recv = f.value if fi.is_classmethod else ast.copy_location(
                        ast.Call(func=ast.Name(id="type", ctx=ast.Load()), args=[copy.deepcopy(f.value)], keywords=[]), f)
                elif not callee.is_static:
                    recv = f.value
            else:
                r = self.prog.resolve_name(fi.module, f.value.id)
                if r and r[0] == "class":
                    callee = r[1].lookup(f.attr)
                    if callee is None or not callee.is_static:
                        return None
        elif isinstance(f, ast.Name):
            if f.id in nested:
                nd = nested[f.id]
                callee = self.fi_of_node.get(id(nd))
                if callee is None:
                    callee = FuncInfo(nd.name, f"{fi.qualname}.<locals>.{nd.name}", fi.module, nd, None)
                    self.fi_of_node[id(nd)] = callee
                closure = True
            else:
                r = self.prog.resolve_name(fi.module, f.id)
                # private helpers of the package, and helper functions that live in the caller's own module
                if r and r[0] == "func" and r[1].cls is None and (
                        is_private(f.id) or (r[1].module is fi.module and SAME_MODULE_PUBLIC_HELPERS) or (
                            f.id not in PRIMITIVES and _small_helper(r[1].node))):
                    callee = r[1]
        if callee is None or callee.node is fi.node:
            return None
        if f"{callee.qualname}" in self.exclude or callee.name in self.exclude:
            return None
        if isinstance(callee.node, ast.AsyncFunctionDef):
            return None
        if any(d not in ("staticmethod", "classmethod") for d in callee.decorators):
            return None
        if self.state.get(id(callee.node)) == "busy":
            return None  # recursion
        a = callee.node.args
        if a.vararg or a.kwarg or any(isinstance(x, ast.Starred) for x in c.args) or any(k.arg is None for k in c.keywords):
            return None
        for d in list(a.defaults) + [x for x in a.kw_defaults if x is not None]:
            if not self._default_ok(d, callee, fi):
                return None
        for x in ast.walk(callee.node):
            if isinstance(x, (ast.Global, ast.Nonlocal, ast.Import, ast.ImportFrom, ast.Await)):
                return None
        if not closure and callee.module is not fi.module and not self._free_names_ok(callee, fi):
            return None
        if not closure:
            self.ensure(callee)
        return callee, recv, closure

    def _class_constant(self, fi: FuncInfo, node: ast.Attribute) -> Optional[ast.AST]:
        """self._X / cls._X where _X is assigned once, in a class body of the MRO, to a tuple / list of constants (a name table)
        and no class of the hierarchy stores into it anywhere: the display itself."""
        if not (isinstance(node.value, ast.Name) and is_private(node.attr)) or fi.cls is None or fi.is_static:
            return None
        params = fi.params()
        if not params or node.value.id != params[0]:
            return None
        cls = self._recv_cls or fi.cls
        owners = [k for k in cls.mro_classes() if node.attr in k.class_attrs]
        if len(owners) != 1:
            return None
        v = owners[0].class_attrs[node.attr]
        if not (isinstance(v, (ast.Tuple, ast.List)) and v.elts and all(isinstance(e, ast.Constant) for e in v.elts)):
            return None
        family = list(self.prog.subclasses(owners[0], include_self=True, include_dead=True))
        for k in family:
            if k is not owners[0] and (node.attr in k.class_attrs or node.attr in k.methods):
                return None
            for m in k.methods.values():
                for x in ast.walk(m.node):
                    if isinstance(x, ast.Attribute) and x.attr == node.attr and isinstance(x.ctx, (ast.Store, ast.Del)):
                        return None
                    if isinstance(x, ast.Call) and isinstance(x.func, ast.Name) and x.func.id in ("setattr", "delattr") and \
                            any(isinstance(a, ast.Constant) and a.value == node.attr for a in x.args):
                        return None  # (names computed at run time are assumed not to spell a private table's name)
        return ast.Tuple(elts=[copy.deepcopy(e) for e in v.elts], ctx=ast.Load())

    def _resolve_property(self, fi: FuncInfo, node: ast.Attribute) -> Optional[FuncInfo]:
        """self._x where _x is a read-only private property of the class that no subclass re-defines."""
        if not (isinstance(node.value, ast.Name) and is_private(node.attr)) or fi.cls is None or fi.is_static or fi.is_classmethod:
            return None
        params = fi.params()
        if not params or node.value.id != params[0]:
            return None
        cls = self._recv_cls or fi.cls
        callee = cls.lookup(node.attr)
        if callee is None or callee.decorators != ["property"] or callee.node is fi.node:
            return None
        if self._recv_cls is None:
            for sc in self.prog.subclasses(fi.cls, include_self=False, include_dead=True):
                if node.attr in sc.methods or node.attr in sc.class_attrs:
                    return None
        if node.attr in self.exclude or callee.qualname in self.exclude or self.state.get(id(callee.node)) == "busy":
            return None
        for x in ast.walk(callee.node):
            if isinstance(x, (ast.Global, ast.Nonlocal, ast.Import, ast.ImportFrom, ast.Await)):
                return None
        if callee.module is not fi.module and not self._free_names_ok(callee, fi):
            return None
        self.ensure(callee)
        return callee

    def _free_names_ok(self, callee: FuncInfo, fi: FuncInfo) -> bool:
        """The callee's free (module-level) names mean the same in the caller's module.  A name the caller's module does not bind
        at all is bound there as in the callee's module (the import the extracted code would need)."""
        own = _own_locals(callee.node)
        caller_locals = None
        missing = {}
        for x in ast.walk(callee.node):
            if isinstance(x, ast.Name) and x.id not in own and x.id not in _BUILTINS:
                there = self.prog.resolve_name(callee.module, x.id)
                if there is None:
                    return False
                here = self.prog.resolve_name(fi.module, x.id)
                if here is None and x.id not in fi.module.bindings and callee.module.bindings.get(x.id) is not None:
                    if caller_locals is None:
                        caller_locals = _own_locals(fi.node) | set(fi.params())
                    if x.id in caller_locals:
                        return False
                    missing[x.id] = callee.module.bindings[x.id]
                    continue
                if here != there:
                    return False
        for k, b in missing.items():
            fi.module.bindings[k] = b
        return True

    def _default_ok(self, d: ast.AST, callee: FuncInfo, fi: FuncInfo) -> bool:
        """A default that means the same when it is evaluated at the call: constants, tuples of them, and module-level names
        (classes, functions, constants) that both modules resolve alike and that no local of the caller hides."""
        if isinstance(d, ast.Constant):
            return True
        if isinstance(d, ast.UnaryOp) and isinstance(d.op, (ast.USub, ast.UAdd)) and isinstance(d.operand, ast.Constant):
            return True
        if isinstance(d, ast.Tuple):
            return all(self._default_ok(x, callee, fi) for x in d.elts)
        if isinstance(d, ast.Name):
            r = self.prog.resolve_name(callee.module, d.id)
            if r is None and d.id in _BUILTINS:
                return self.prog.resolve_name(fi.module, d.id) is None and d.id not in _own_locals(fi.node) and \
                    d.id not in fi.params()
            if r is None or r[0] not in ("class", "func", "var", "ext"):
                return False
            if callee.module is not fi.module and self.prog.resolve_name(fi.module, d.id) != r:
                return False
            return d.id not in _own_locals(fi.node) and d.id not in fi.params()
        return False

    # .. argument binding
    def _bind(self, callee: FuncInfo, c: ast.Call, recv, outmap: Optional[Dict[str, str]] = None, dead_after: bool = False
              ) -> Tuple[List[ast.stmt], Dict[str, str], Dict[str, ast.AST]]:
        fn = callee.node
        a = fn.args
        pos = [x.arg for x in a.posonlyargs + a.args]
        args: List[Tuple[str, ast.AST]] = []
        if recv is not None:
            if not pos:
                raise Unsupported("no receiver parameter")
            args.append((pos[0], recv))
            pos = pos[1:]
        if len(c.args) > len(pos):
            raise Unsupported("too many positional arguments")
        for p, e in zip(pos, c.args):
            args.append((p, e))
        given = {p for p, _ in args}
        allowed = set(pos) | {x.arg for x in a.kwonlyargs}
        for k in c.keywords:
            if k.arg not in allowed or k.arg in given:
                raise Unsupported("keyword does not name a free parameter")
            args.append((k.arg, k.value))
            given.add(k.arg)
        allpos = [x.arg for x in a.posonlyargs + a.args]
        dflt = dict(zip(allpos[len(allpos) - len(a.defaults):], a.defaults))
        for x, d in zip(a.kwonlyargs, a.kw_defaults):
            if d is not None:
                dflt[x.arg] = d
        for p in allpos + [x.arg for x in a.kwonlyargs]:
            if p not in given:
                if p not in dflt:
                    raise Unsupported(f"parameter {p} unbound")
                args.append((p, dflt[p]))
        self.k += 1
        suffix = f"__{callee.name.strip('_')}{self.k}"
        reassigned = _assigned_params(fn)
        subst: Dict[str, ast.AST] = {}
        binds: List[ast.stmt] = []
        mapping = {}
        for name in _own_locals(fn):
            mapping[name] = name + suffix
        outmap = outmap or {}
        arg_names = {n.id for _, e in args for n in ast.walk(e) if isinstance(n, ast.Name)}
        for local, tgt in outmap.items():
            # the callee's returned local *is* the caller's target (see _outmap): no copy at the return
            a = next((e for p, e in args if p == local), None)
            if a is not None and not (isinstance(a, ast.Name) and a.id == tgt):
                raise Unsupported("returned parameter is not fed from its own target")
            if a is None and tgt in arg_names:
                raise Unsupported("target is read by an argument")
            mapping[local] = tgt
        for p, e in args:
            if p in outmap:
                continue  # parameter, argument and target are one variable
            if isinstance(e, ast.Name) and e.id in outmap.values() and p not in reassigned:
                raise Unsupported("target is read through another parameter")
            if (dead_after or (getattr(self, "_dead_names", None) and isinstance(e, ast.Name) and e.id in self._dead_names)) \
                    and isinstance(e, ast.Name) and p in reassigned and e.id not in outmap.values() and \
                    sum(isinstance(n, ast.Name) and n.id == e.id for _, x in args for n in ast.walk(x)) == 1:
                # 'return helper(v)': the caller's v is dead after the call, the re-assigned parameter can live in it
                mapping[p] = e.id
                continue
            if isinstance(e, (ast.Name, ast.Constant)) and p not in reassigned:
                subst[p] = e
                mapping.pop(p, None)
            else:
                tgt = ast.Name(id=mapping[p], ctx=ast.Store())
                binds.append(ast.copy_location(ast.Assign(targets=[tgt], value=copy.deepcopy(e), lineno=c.lineno), c))
        return binds, mapping, subst

    @staticmethod
    def _outmap(callee: FuncInfo, targets: List[ast.AST]) -> Optional[Dict[str, str]]:
        """'x, y = helper(..)' where every return of the helper is 'return a, b' with the same distinct locals a, b: the
        helper's a, b can be the caller's x, y from the start (the shape before the helper was extracted)."""
        if len(targets) != 1:
            return None
        t = targets[0]
        tn = [t] if isinstance(t, ast.Name) else (list(t.elts) if isinstance(t, ast.Tuple) else None)
        if not tn or not all(isinstance(x, ast.Name) for x in tn) or len({x.id for x in tn}) != len(tn):
            return None
        rets = [r for r in _walk_noscope(callee.node) if isinstance(r, ast.Return)]
        if not rets:
            return None
        own = _own_locals(callee.node)
        names = None
        for r in rets:
            v = r.value
            rn = [v] if isinstance(v, ast.Name) else (list(v.elts) if isinstance(v, ast.Tuple) else None)
            if rn is None or len(rn) != len(tn) or not all(isinstance(x, ast.Name) and x.id in own for x in rn):
                return None
            ids = [x.id for x in rn]
            if len(set(ids)) != len(ids) or (names is not None and ids != names):
                return None
            names = ids
        free = {n.id for n in ast.walk(callee.node) if isinstance(n, ast.Name)} - own
        if any(x.id in free for x in tn):
            return None
        return dict(zip(names, [x.id for x in tn]))

    def _instantiate(self, callee: FuncInfo, c: ast.Call, recv, closure, outmap=None, dead_after=False
                     ) -> Tuple[List[ast.stmt], List[ast.stmt]]:
        binds, mapping, subst = self._bind(callee, c, recv, outmap, dead_after and not closure)
        body = [copy.deepcopy(s) for s in _body_wo_doc(callee.node)]
        rn = _Rename(mapping, subst)
        body = [rn.visit(s) for s in body]
        for s in binds + body:
            ast.fix_missing_locations(s)
        return binds, body

    # .. return handling
    def _tail(self, stmts: List[ast.stmt], make) -> List[ast.stmt]:
        """Rewrite so that every 'return E' becomes make(E) with nothing executed after it."""
        for i, s in enumerate(stmts):
            if isinstance(s, ast.Return):
                r = make(s)
                return stmts[:i] + (r if isinstance(r, list) else [r])
            if _never_falls_through(s):
                stmts = stmts[:i + 1]  # nothing after a raise (or an if whose arms all raise) runs
            if not _contains(s, ast.Return):
                if len(stmts) == i + 1:
                    return stmts
                continue
            if isinstance(s, ast.If):
                rest = stmts[i + 1:]
                new = ast.copy_location(ast.If(test=s.test,
                                               body=self._tail(list(s.body) + rest, make),
                                               orelse=self._tail(list(s.orelse) + copy.deepcopy(rest), make)), s)
                if not new.body:
                    new.body = [ast.copy_location(ast.Pass(), s)]
                return stmts[:i] + [new]
            if isinstance(s, (ast.For, ast.While)) and not s.orelse and not self._own_level(s.body, (ast.Break,)) and \
                    not self._returns_in_inner_loops(s.body):
                # for ..: .. return E ..; REST   ==   for ..: .. <res = E>; break ..  else: REST   (the else clause of a loop
                # runs exactly when the loop was not left by break)
                rest = stmts[i + 1:]
                new = copy.copy(s)
                new.body = self._returns_to_break(list(s.body), make)
                new.orelse = self._tail(rest, make) or []
                return stmts[:i] + [new]
            raise Unsupported("return inside a with / try / nested loop")
        return stmts

    @staticmethod
    def _own_level(stmts, kinds) -> bool:
        for x in stmts:
            if isinstance(x, kinds):
                return True
            if isinstance(x, (ast.For, ast.AsyncFor, ast.While)):
                if Inliner._own_level(x.orelse, kinds):
                    return True
                continue
            if isinstance(x, (ast.FunctionDef, ast.AsyncFunctionDef, ast.ClassDef)):
                continue
            for _, lst in _stmt_lists(x):
                if Inliner._own_level(lst, kinds):
                    return True
        return False

    @staticmethod
    def _returns_in_inner_loops(stmts) -> bool:
        for x in stmts:
            if isinstance(x, (ast.For, ast.AsyncFor, ast.While, ast.With, ast.AsyncWith, ast.Try)) and _contains(x, ast.Return):
                return True
            if isinstance(x, ast.If) and (Inliner._returns_in_inner_loops(x.body) or Inliner._returns_in_inner_loops(x.orelse)):
                return True
        return False

    def _returns_to_break(self, stmts, make):
        out = []
        for x in stmts:
            if isinstance(x, ast.Return):
                r = make(x)
                out += (r if isinstance(r, list) else [r]) + [ast.copy_location(ast.Break(), x)]
                return out
            if isinstance(x, ast.If) and _contains(x, ast.Return):
                y = copy.copy(x)
                y.body = self._returns_to_break(list(x.body), make) or [ast.copy_location(ast.Pass(), x)]
                y.orelse = self._returns_to_break(list(x.orelse), make)
                out.append(y)
                continue
            out.append(x)
        return out

    @staticmethod
    def _fold(stmts: List[ast.stmt], var: str, boolean: bool) -> List[ast.stmt]:
        """If the block ends in an if-tree whose leaves are just '<var> = E', make it one assignment of a conditional
        expression (and/or/not when the leaves are truth values)."""
        def as_expr(block) -> Optional[ast.AST]:
            if len(block) != 1:
                return None
            s = block[0]
            if isinstance(s, ast.Assign) and len(s.targets) == 1 and isinstance(s.targets[0], ast.Name) and \
                    s.targets[0].id == var:
                return s.value
            if isinstance(s, ast.If):
                a, b = as_expr(s.body), as_expr(s.orelse)
                if a is None or b is None:
                    return None
                return _cond(s.test, a, b, boolean)
            return None

        if not stmts:
            return stmts
        e = as_expr(stmts[-1:])
        if e is None or not isinstance(stmts[-1], ast.If):
            return stmts
        new = ast.copy_location(ast.Assign(targets=[ast.Name(id=var, ctx=ast.Store())], value=e), stmts[-1])
        ast.fix_missing_locations(new)
        return stmts[:-1] + [new]

    # .. statement level
    def _block(self, fi: FuncInfo, stmts: List[ast.stmt], nested, depth: int) -> List[ast.stmt]:
        out: List[ast.stmt] = []
        for s in stmts:
            if isinstance(s, (ast.FunctionDef, ast.AsyncFunctionDef, ast.ClassDef)):
                out.append(s)
                continue
            was = self._in_try
            if isinstance(s, ast.Try) or s.__class__.__name__ == "TryStar":
                self._in_try = True
            for f, lst in list(_stmt_lists(s)):
                new = self._block(fi, lst, nested, depth)
                lst[:] = new
            self._in_try = was
            out.extend(self._stmt(fi, s, nested, depth))
        return out

    def _comp_to_loops(self, fi, s, nested, depth) -> Optional[List[ast.stmt]]:
        """A list comprehension that calls a resolvable helper (in a generator's iterable, a condition or the element) and is
        evaluated before anything else of its statement that could interact with it:  S[comp]  ->  tmp = []; for ..: tmp.append(E);
        S[tmp].  Comprehension variables are renamed (they are scoped to the comprehension)."""
        if not isinstance(s, (ast.Assign, ast.Expr, ast.Return, ast.AnnAssign)) or getattr(s, "value", None) is None:
            return None
        if isinstance(s, ast.Assign) and not all(isinstance(t, ast.Name) for t in s.targets):
            return None
        comp = self._first_comp(s.value)
        if comp is None or any(g.is_async for g in comp.generators):
            return None
        calls = [c for c in ast.walk(comp) if isinstance(c, ast.Call) and self._resolve(fi, c, nested) is not None]
        if not calls:
            return None
        if any(isinstance(x, (ast.Lambda, ast.ListComp, ast.SetComp, ast.DictComp, ast.GeneratorExp, ast.NamedExpr, ast.Yield,
                              ast.YieldFrom, ast.Await)) for x in ast.walk(comp) if x is not comp):
            return None
        self.k += 1
        suffix = f"__c{self.k}"
        bound = set()
        for g in comp.generators:
            bound |= {n.id for n in ast.walk(g.target) if isinstance(n, ast.Name)}
        rn = _Rename({b: b + suffix for b in bound}, {})
        tmp = f"items{suffix}"
        body: List[ast.stmt] = [ast.Expr(value=ast.Call(func=ast.Attribute(value=ast.Name(id=tmp, ctx=ast.Load()), attr="append",
                                                                       ctx=ast.Load()),
                                                    args=[rn.visit(copy.deepcopy(comp.elt))], keywords=[]))]
        for g in reversed(comp.generators):
            if g.ifs:
                conds = [rn.visit(copy.deepcopy(c)) for c in g.ifs]
                test = conds[0] if len(conds) == 1 else ast.BoolOp(op=ast.And(), values=conds)
                body = [ast.If(test=test, body=body, orelse=[])]
            body = [ast.For(target=rn.visit(copy.deepcopy(g.target)), iter=rn.visit(copy.deepcopy(g.iter)), body=body, orelse=[],
                            type_comment=None)]
        init = ast.Assign(targets=[ast.Name(id=tmp, ctx=ast.Store())], value=ast.List(elts=[], ctx=ast.Load()))
        _replace(s, comp, ast.Name(id=tmp, ctx=ast.Load()))
        out = [init] + body + [s]
        for x in out:
            ast.copy_location(x, s)
            ast.fix_missing_locations(x)
        self.inlined.append((fi.qualname, "<comprehension>"))
        return self._block(fi, [init] + body, nested, depth + 1) + self._stmt(fi, s, nested, depth + 1)

    @staticmethod
    def _first_comp(e: ast.AST) -> Optional[ast.ListComp]:
        """The list comprehension that is evaluated first in e: e itself, or the first argument of a call whose callee is a
        (dotted) name, recursively."""
        for _ in range(4):
            if isinstance(e, ast.ListComp):
                return e
            if isinstance(e, ast.Call) and e.args and _only_names(e.func if not isinstance(e.func, ast.Attribute) else e.func.value) \
                    and not any(isinstance(a, ast.Starred) for a in e.args):
                e = e.args[0]
                continue
            return None
        return None

    def _stmt(self, fi, s, nested, depth) -> List[ast.stmt]:
        if depth > 6:
            return [s]
        try:
            r0 = self._comp_to_loops(fi, s, nested, depth)
        except Unsupported:
            r0 = None
        if r0 is not None:
            return r0
        try:
            self._subst_expr_helpers(fi, s, nested)
        except Unsupported:
            pass
        try:
            r = self._inline_stmt(fi, s, nested, depth)
        except Unsupported:
            r = None
        return r if r is not None else [s]

    def _exprs_of(self, s: ast.stmt):
        """(owner, field, index or None) of the expressions evaluated by the statement itself (not by nested blocks)."""
        for f, v in ast.iter_fields(s):
            if isinstance(v, ast.expr):
                yield s, f, None
            elif isinstance(v, list):
                for i, x in enumerate(v):
                    if isinstance(x, ast.expr):
                        yield s, f, i
                    elif isinstance(x, ast.withitem):
                        yield x, "context_expr", None

    def _subst_expr_helpers(self, fi, s, nested):
        """Calls to helpers that are a single 'return <expr>' are replaced by the expression (pure arguments only)."""
        inl = self

        class T(ast.NodeTransformer):
            def visit_Lambda(self, node):
                return node

            def visit_Call(self, node):
                node = self.generic_visit(node)
                r = inl._resolve(fi, node, nested)
                if r is None:
                    return node
                callee, recv, closure = r
                body = _body_wo_doc(callee.node)
                if len(body) != 1 or not isinstance(body[0], ast.Return) or body[0].value is None:
                    return node
                if _contains(body[0].value, (ast.Yield, ast.YieldFrom)):
                    return node
                if not all(_pure(a) for a in list(node.args) + [k.value for k in node.keywords]):
                    return node
                try:
                    binds, mapping, subst = inl._bind(callee, node, recv)
                except Unsupported:
                    return node
                # pure arguments are substituted even when they are not bare names
                for b in binds:
                    subst[next(k for k, v in mapping.items() if v == b.targets[0].id)] = b.value
                bound_inside = {n.id for n in ast.walk(body[0].value) if isinstance(n, ast.Name)
                                and isinstance(n.ctx, ast.Store)}
                arg_names = {n.id for e in subst.values() for n in ast.walk(e) if isinstance(n, ast.Name)}
                if bound_inside & arg_names:
                    return node
                e = _Rename({k: v for k, v in mapping.items() if k not in subst}, subst).visit(copy.deepcopy(body[0].value))
                ast.copy_location(e, node)
                ast.fix_missing_locations(e)
                inl.inlined.append((fi.qualname, callee.qualname))
                return e

            def visit_Attribute(self, node):
                node = self.generic_visit(node)
                if not isinstance(node.ctx, ast.Load):
                    return node
                const = inl._class_constant(fi, node)
                if const is not None:
                    return ast.copy_location(copy.deepcopy(const), node)
                callee = inl._resolve_property(fi, node)
                if callee is None:
                    return node
                body = _body_wo_doc(callee.node)
                if len(body) != 1 or not isinstance(body[0], ast.Return) or body[0].value is None or \
                        _contains(body[0].value, (ast.Yield, ast.YieldFrom)):
                    return node
                fake = ast.copy_location(ast.Call(func=node, args=[], keywords=[]), node)
                try:
                    binds, mapping, subst = inl._bind(callee, fake, node.value)
                except Unsupported:
                    return node
                if binds:
                    return node
                e = _Rename({k: v for k, v in mapping.items() if k not in subst}, subst).visit(copy.deepcopy(body[0].value))
                ast.copy_location(e, node)
                ast.fix_missing_locations(e)
                inl.inlined.append((fi.qualname, callee.qualname))
                return e

        t = T()
        for owner, f, i in list(self._exprs_of(s)):
            v = getattr(owner, f)
            if i is None:
                setattr(owner, f, t.visit(v))
            else:
                v[i] = t.visit(v[i])

    def _first_call(self, fi, e: ast.AST, nested):
        """The resolvable helper call that is evaluated before anything else of e that could interact with it."""
        if isinstance(e, ast.Call):
            r = self._resolve(fi, e, nested)
            if r is not None:
                return e, r
            order = ([e.func.value] if isinstance(e.func, ast.Attribute) else []) + list(e.args) + \
                [k.value for k in e.keywords]
            if not isinstance(e.func, (ast.Attribute, ast.Name)):
                return None
        elif isinstance(e, ast.BoolOp):
            order = e.values[:1]
        elif isinstance(e, ast.UnaryOp):
            order = [e.operand]
        elif isinstance(e, ast.BinOp):
            order = [e.left, e.right]
        elif isinstance(e, ast.Compare):
            order = [e.left] + list(e.comparators[:1])
        elif isinstance(e, (ast.Tuple, ast.List)):
            order = list(e.elts)
        elif isinstance(e, ast.IfExp):
            order = [e.test]
        elif isinstance(e, ast.Attribute):
            order = [e.value]
        elif isinstance(e, ast.Subscript):
            order = [e.value, e.slice]
        elif isinstance(e, ast.Yield) and e.value is not None:
            order = [e.value]
        else:
            return None
        for sub in order:
            r = self._first_call(fi, sub, nested)
            if r is not None:
                return r
            if not _only_names(sub) and not (isinstance(sub, ast.Call) and isinstance(sub.func, ast.Name) and
                                             sub.func.id == "super" and not sub.args and not sub.keywords):
                return None  # (a bare super() observes nothing and changes nothing)
        return None

    def _inline_for_generator(self, fi, s: ast.For, nested, depth) -> Optional[List[ast.stmt]]:
        """for v in self._gen(..): BODY   ->   the generator's body with every 'yield E' replaced by 'v = E; BODY'.
        Exact when the generator has no return statement, BODY has no break / continue of its own level, the loop has no else
        clause and the generator's frame is not observable otherwise (private helper, not stored)."""
        if s.orelse or not isinstance(s.iter, ast.Call):
            return None
        r = self._resolve(fi, s.iter, nested)
        if r is None:
            return None
        callee, recv, closure = r
        fn = callee.node
        if not _contains(fn, (ast.Yield,)) or _contains(fn, (ast.YieldFrom, ast.Return)):
            return None

        def own_level(stmts, kinds):
            for x in stmts:
                if isinstance(x, kinds):
                    return True
                if isinstance(x, (ast.For, ast.AsyncFor, ast.While, ast.FunctionDef, ast.AsyncFunctionDef, ast.ClassDef)):
                    if isinstance(x, (ast.For, ast.AsyncFor, ast.While)) and own_level(x.orelse, kinds):
                        return True
                    continue
                for _, lst in _stmt_lists(x):
                    if own_level(lst, kinds):
                        return True
            return False
        if own_level(s.body, (ast.Break, ast.Continue)):
            return None
        yields = [y for y in _walk_noscope(fn) if isinstance(y, ast.Yield)]
        # every yield must be an expression statement 'yield E'
        ystmts = [x for x in _walk_noscope(fn) if isinstance(x, ast.Expr) and isinstance(x.value, ast.Yield)]
        if len(ystmts) != len(yields) or any(y.value is None for y in yields):
            return None
        outmap = None
        if isinstance(s.target, ast.Name):
            ids = {y.value.id if isinstance(y.value, ast.Name) else None for y in yields}
            own = _own_locals(fn)
            free = {n.id for n in ast.walk(fn) if isinstance(n, ast.Name)} - own
            if len(ids) == 1 and None not in ids and next(iter(ids)) in own and s.target.id not in free:
                outmap = {next(iter(ids)): s.target.id}
        try:
            binds, body = self._instantiate(callee, s.iter, recv, closure, outmap)
        except Unsupported:
            if outmap is None:
                return None
            outmap = None
            try:
                binds, body = self._instantiate(callee, s.iter, recv, closure)
            except Unsupported:
                return None
        first = [True]

        def repl(stmts):
            out = []
            for x in stmts:
                if isinstance(x, ast.Expr) and isinstance(x.value, ast.Yield):
                    blk = s.body if first[0] else copy.deepcopy(s.body)
                    first[0] = False
                    if outmap is None:
                        out.append(ast.copy_location(ast.Assign(targets=[copy.deepcopy(s.target)], value=x.value.value), x))
                    out.extend(blk)
                    continue
                if isinstance(x, (ast.FunctionDef, ast.AsyncFunctionDef, ast.ClassDef)):
                    out.append(x)
                    continue
                for f, lst in _stmt_lists(x):
                    lst[:] = repl(lst)
                out.append(x)
            return out
        new = repl(body)
        for x in binds + new:
            ast.fix_missing_locations(x)
        self.inlined.append((fi.qualname, callee.qualname))
        return binds + new

    def _inline_stmt(self, fi, s, nested, depth) -> Optional[List[ast.stmt]]:
        if isinstance(s, ast.For):
            r = self._inline_for_generator(fi, s, nested, depth)
            if r is None and isinstance(s.iter, ast.Call):
                # for v in self._helper(..): BODY   ->   it = self._helper(..); for v in it: BODY   (the iterable is evaluated once,
                # before the first iteration, in both spellings); the assignment is then inlined like any other
                hit = self._resolve(fi, s.iter, nested)
                if hit is not None and not _contains(hit[0].node, (ast.Yield, ast.YieldFrom)):
                    self.k += 1
                    tmp = f"it__{hit[0].name.strip('_')}{self.k}"
                    asg = ast.copy_location(ast.Assign(targets=[ast.Name(id=tmp, ctx=ast.Store())], value=s.iter), s)
                    s.iter = ast.copy_location(ast.Name(id=tmp, ctx=ast.Load()), s)
                    ast.fix_missing_locations(asg)
                    return self._stmt(fi, asg, nested, depth + 1) + [s]
            return r
        # position: which expression of s is evaluated first
        if isinstance(s, ast.Expr):
            field = "value"
        elif isinstance(s, ast.Assign) and all(isinstance(t, (ast.Name, ast.Tuple, ast.Attribute)) and not _contains(
                t, (ast.Call, ast.Subscript)) for t in s.targets):
            field = "value"
        elif isinstance(s, ast.AnnAssign) and s.value is not None and isinstance(s.target, ast.Name):
            field = "value"
        elif isinstance(s, ast.Return) and s.value is not None:
            field = "value"
        elif isinstance(s, ast.AugAssign) and isinstance(s.target, ast.Name):
            field = "value"  # a local is read before the right-hand side runs, but no callee can re-bind it
        elif isinstance(s, (ast.If, ast.Assert)):
            field = "test"
        else:
            return None
        e = getattr(s, field)
        whole = e
        if isinstance(s, ast.Expr) and isinstance(e, ast.YieldFrom):
            whole = e.value
        hit = self._first_call(fi, whole, nested) if isinstance(whole, ast.expr) else None
        if hit is None:
            return None
        call, (callee, recv, closure) = hit
        gen = _contains(callee.node, (ast.Yield, ast.YieldFrom)) if not isinstance(callee.node, ast.Lambda) else False
        is_whole = call is whole
        if gen and not (isinstance(s, ast.Expr) and isinstance(e, ast.YieldFrom) and is_whole):
            return None
        outmap = None
        if isinstance(s, (ast.Assign, ast.AnnAssign)) and is_whole and not gen:
            outmap = self._outmap(callee, s.targets if isinstance(s, ast.Assign) else [s.target])
        dead_after = isinstance(s, ast.Return) and is_whole and not self._in_try
        dead_names = None
        if not dead_after and not self._in_try and not closure:
            # arguments that are plain names never read again in the caller (and the call is not in a loop): a re-assigned
            # parameter may live in such a name as well
            dead_names = self._names_dead_after(fi, s)
        self._dead_names = dead_names
        try:
            try:
                binds, body = self._instantiate(callee, call, recv, closure, outmap, dead_after)
            except Unsupported:
                if outmap is None:
                    raise
                outmap = None
                binds, body = self._instantiate(callee, call, recv, closure, None, dead_after)
        finally:
            self._dead_names = None
        line = call
        if gen:
            def mk_gen(r):
                if r.value is not None:
                    raise Unsupported("generator return value")
                return []
            new = self._tail(body, mk_gen)
        elif isinstance(s, ast.Return) and is_whole:
            new = body + [ast.copy_location(ast.Return(value=None), line)]
            # fall-off-the-end returns None; an unreachable trailing return is dropped below
            new = self._drop_dead_return(new)
        elif isinstance(s, ast.Expr) and s.value is call:
            new = self._tail(body + [ast.copy_location(ast.Return(value=None), line)],
                             lambda r: [] if r.value is None or _pure(r.value) else
                             [ast.copy_location(ast.Expr(value=r.value), r)])
        elif isinstance(s, (ast.Assign, ast.AnnAssign)) and is_whole:
            tg = s.targets if isinstance(s, ast.Assign) else [s.target]

            def mk(r):
                if outmap is not None and r.value is not None:
                    return []  # the returned locals are the targets themselves
                v = r.value if r.value is not None else ast.Constant(value=None)
                if len(tg) == 1 and isinstance(tg[0], ast.Tuple) and isinstance(v, ast.Tuple) and \
                        len(v.elts) == len(tg[0].elts) and all(isinstance(x, (ast.Name, ast.Constant)) for x in v.elts):
                    rhs = {x.id for x in v.elts if isinstance(x, ast.Name)}
                    if not any(isinstance(t, ast.Name) and t.id in rhs for t in tg[0].elts):
                        # (a, b) = (x, y) over plain names: two independent assignments
                        return [ast.copy_location(ast.Assign(targets=[copy.deepcopy(t)], value=x), r)
                                for t, x in zip(tg[0].elts, v.elts)]
                return ast.copy_location(ast.Assign(targets=copy.deepcopy(tg), value=v), r)
            new = self._tail(body + [ast.copy_location(ast.Return(value=None), line)], mk)
            if len(tg) == 1 and isinstance(tg[0], ast.Name):
                new = self._fold(new, tg[0].id, False)
        else:
            self.k += 1
            tmp = f"r__{callee.name.strip('_')}{self.k}"

            def mk(r):
                v = r.value if r.value is not None else ast.Constant(value=None)
                return ast.copy_location(ast.Assign(targets=[ast.Name(id=tmp, ctx=ast.Store())], value=v), r)
            new = self._tail(body + [ast.copy_location(ast.Return(value=None), line)], mk)
            boolean = isinstance(s, (ast.If, ast.Assert)) and _in_truth_position(whole, call)
            new = self._fold(new, tmp, boolean)
            _replace(s, call, ast.copy_location(ast.Name(id=tmp, ctx=ast.Load()), call))
            new = new + [s]
        for x in binds + new:
            ast.fix_missing_locations(x)
        self.inlined.append((fi.qualname, callee.qualname))
        # the spliced statements may contain further helper calls (their nested blocks were processed when the callee
        # itself was normalised; closures are processed here)
        res: List[ast.stmt] = []
        for x in binds + new:
            if x is s or any(x is b_ for b_ in binds):
                # the caller's own statement, and the bindings (they hold the caller's argument expressions)
                res.extend(self._stmt(fi, x, nested, depth + 1))
            elif closure or self._recv_cls is not None:
                for f, lst in list(_stmt_lists(x)):
                    lst[:] = self._block(fi, lst, nested, depth + 1)
                res.extend(self._stmt(fi, x, nested, depth + 1))
            else:
                res.append(x)
        return res

    @staticmethod
    def _names_dead_after(fi: FuncInfo, s: ast.stmt) -> set:
        """Local names that are not read in any statement after ``s`` (document order) - provided s is not inside a loop, so that
        'after' in the text is 'after' in time.  (Reads inside s itself happen before the call returns.)"""
        order = []
        in_loop = {}

        def walk(stmts, looped):
            for x in stmts:
                order.append(x)
                in_loop[id(x)] = looped
                for f, lst in _stmt_lists(x):
                    walk(lst, looped or isinstance(x, (ast.For, ast.AsyncFor, ast.While)))
        walk(fi.node.body, False)
        if id(s) not in in_loop or in_loop[id(s)]:
            return set()
        i = next(k for k, x in enumerate(order) if x is s)
        later_reads = set()
        inner = {id(y) for y in ast.walk(s)}
        for x in order[i + 1:]:
            if id(x) in inner:
                continue
            for y in ast.walk(x):
                if isinstance(y, ast.Name) and isinstance(y.ctx, ast.Load):
                    later_reads.add(y.id)
        # statements nested in s (if the call is the test of an if) count as 'after'
        if isinstance(s, (ast.If, ast.While)):
            for f, lst in _stmt_lists(s):
                for x in lst:
                    for y in ast.walk(x):
                        if isinstance(y, ast.Name) and isinstance(y.ctx, ast.Load):
                            later_reads.add(y.id)
        args = {a.arg for a in fi.node.args.posonlyargs + fi.node.args.args + fi.node.args.kwonlyargs}
        locals_ = {y.id for y in ast.walk(fi.node) if isinstance(y, ast.Name)} | args
        return locals_ - later_reads

    @staticmethod
    def _drop_dead_return(stmts):
        def terminates(block) -> bool:
            if not block:
                return False
            last = block[-1]
            if isinstance(last, (ast.Return, ast.Raise)):
                return True
            if isinstance(last, ast.If):
                return terminates(last.body) and terminates(last.orelse)
            return False
        if len(stmts) >= 2 and terminates(stmts[:-1]):
            return stmts[:-1]
        return stmts


def _never_falls_through(s: ast.stmt) -> bool:
    if isinstance(s, ast.Raise):
        return True
    if isinstance(s, ast.If):
        return bool(s.body) and bool(s.orelse) and _never_falls_through(s.body[-1]) and _never_falls_through(s.orelse[-1])
    return False


def _bool_typed(e: ast.AST) -> bool:
    if isinstance(e, ast.Compare):
        return True
    if isinstance(e, ast.Constant):
        return isinstance(e.value, bool)
    if isinstance(e, ast.UnaryOp) and isinstance(e.op, ast.Not):
        return True
    if isinstance(e, ast.BoolOp):
        return all(_bool_typed(v) for v in e.values)
    if isinstance(e, ast.IfExp):
        return _bool_typed(e.body) and _bool_typed(e.orelse)
    return False


def _not(e):
    if isinstance(e, ast.UnaryOp) and isinstance(e.op, ast.Not):
        return e.operand
    return ast.UnaryOp(op=ast.Not(), operand=e)


def _cond(test, a, b, boolean: bool):
    """test ? a : b, as and/or/not when that is the same value (boolean operands) or the same truth value (boolean use)."""
    exact = _bool_typed(test) and _bool_typed(a) and _bool_typed(b)
    if exact or boolean:
        ca = a.value if isinstance(a, ast.Constant) and isinstance(a.value, bool) else None
        cb = b.value if isinstance(b, ast.Constant) and isinstance(b.value, bool) else None
        if ca is True and cb is False:
            return copy.deepcopy(test) if exact else ast.IfExp(test=test, body=a, orelse=b)
        if ca is False and cb is True:
            return _not(copy.deepcopy(test))
        if ca is True:
            return ast.BoolOp(op=ast.Or(), values=[copy.deepcopy(test), b])
        if ca is False:
            return ast.BoolOp(op=ast.And(), values=[_not(copy.deepcopy(test)), b])
        if cb is False:
            return ast.BoolOp(op=ast.And(), values=[copy.deepcopy(test), a])
        if cb is True:
            return ast.BoolOp(op=ast.Or(), values=[_not(copy.deepcopy(test)), a])
    return ast.IfExp(test=copy.deepcopy(test), body=a, orelse=b)


def _in_truth_position(whole: ast.AST, call: ast.AST) -> bool:
    """The call's value is only tested for truth inside ``whole`` (operand of not / and / or, or the test itself)."""
    e = whole
    while True:
        if e is call:
            return True
        if isinstance(e, ast.UnaryOp) and isinstance(e.op, ast.Not):
            e = e.operand
        elif isinstance(e, ast.BoolOp) and any(v is call or _has(v, call) for v in e.values):
            e = next(v for v in e.values if v is call or _has(v, call))
        else:
            return False


def _has(e, target) -> bool:
    return any(x is target for x in ast.walk(e))


def _replace(root: ast.AST, old: ast.AST, new: ast.AST):
    for parent in ast.walk(root):
        for f, v in ast.iter_fields(parent):
            if v is old:
                setattr(parent, f, new)
                return
            if isinstance(v, list):
                for i, x in enumerate(v):
                    if x is old:
                        v[i] = new
                        return
    raise Unsupported("call not found")


def normalise(prog: Program, exclude=()) -> Inliner:
    return Inliner(prog, exclude).run()
