"""Obligations, reports, known-findings matching, evidence files and exit codes."""
from __future__ import annotations

import json
import os
import time
from dataclasses import dataclass, field, asdict
from typing import Dict, List, Optional

from .model import AnalysisError

VERIF = os.path.dirname(os.path.dirname(os.path.abspath(__file__)))
EVIDENCE_DIR = os.path.join(VERIF, "evidence")
REPLAY_DIR = os.path.join(EVIDENCE_DIR, "replay")
KNOWN_FILE = os.path.join(VERIF, "known_findings.json")

DISCHARGED, VIOLATED, UNDECIDED = "discharged", "violated", "undecided"


@dataclass
class Ob:
    rule: str  # rule id, e.g. "G3.propagate"
    module: str  # file (relative to /repo)
    func: str  # qualified function ("Class.method") or "" for module / class level
    construct: str  # normalised construct the obligation is about (never a line number)
    verdict: str
    detail: str = ""
    line: int = 0
    nontrivial: bool = True  # verdict needed a dataflow / CFG / hierarchy fact, not a mere existence test
    clause: str = ""  # which D-clause of DESIGN §4 this belongs to

    def key(self) -> str:
        return f"{self.rule}|{self.module}|{self.func}|{self.construct}"

    def loc(self) -> str:
        return f"{self.module}:{self.line}" + (f" {self.func}" if self.func else "")


class Report:
    def __init__(self, prop: str, tier: str, root: str = "/repo"):
        self.prop = prop
        self.tier = tier
        self.root = root
        self.obs: List[Ob] = []
        self.rules: Dict[str, str] = {}
        self.floors: List[tuple] = []  # (description, measured, floor)
        self.analysed: Dict[str, list] = {}
        self.assumptions: List[str] = []
        self.trusted: List[str] = []
        self.observations: List[str] = []
        self.not_decided: List[str] = []
        self.errors: List[str] = []
        self.t0 = time.time()
        self.extra: Dict[str, object] = {}

    # ---- recording --------------------------------------------------------------------------
    def rule(self, rid: str, text: str):
        self.rules[rid] = text

    def ob(self, rule, module, func, construct, verdict, detail="", line=0, nontrivial=True, clause="") -> Ob:
        o = Ob(rule, module, func, construct, verdict, detail, line, nontrivial, clause)
        self.obs.append(o)
        return o

    def dedupe(self):
        """Obligations with the same key (an inherited method analysed for several concrete classes)
        are merged; the worst verdict wins."""
        rank = {DISCHARGED: 0, UNDECIDED: 1, VIOLATED: 2}
        best: Dict[str, Ob] = {}
        order = []
        for o in self.obs:
            k = o.key()
            if k not in best:
                best[k] = o
                order.append(k)
            elif rank[o.verdict] > rank[best[k].verdict]:
                best[k] = o
        self.obs = [best[k] for k in order]

    def ok(self, rule, fi_or_mod, construct, detail="", line=0, **kw):
        return self._add(rule, fi_or_mod, construct, DISCHARGED, detail, line, **kw)

    def bad(self, rule, fi_or_mod, construct, detail="", line=0, **kw):
        return self._add(rule, fi_or_mod, construct, VIOLATED, detail, line, **kw)

    def unk(self, rule, fi_or_mod, construct, detail="", line=0, **kw):
        return self._add(rule, fi_or_mod, construct, UNDECIDED, detail, line, **kw)

    def decide(self, cond, rule, fi_or_mod, construct, detail_ok="", detail_bad="", line=0, **kw):
        if cond is None:
            return self.unk(rule, fi_or_mod, construct, detail_bad or detail_ok, line, **kw)
        if cond:
            return self.ok(rule, fi_or_mod, construct, detail_ok, line, **kw)
        return self.bad(rule, fi_or_mod, construct, detail_bad or detail_ok, line, **kw)

    def _add(self, rule, where, construct, verdict, detail, line, **kw):
        module, func = "", ""
        if hasattr(where, "qualname") and hasattr(where, "module") and hasattr(where, "node"):
            module = where.module.relpath
            func = where.qualname if hasattr(where, "params") else where.name
            if not line:
                line = where.node.lineno
        elif hasattr(where, "relpath"):
            module = where.relpath
        else:
            module = str(where)
        return self.ob(rule, module, func, construct, verdict, detail, line, **kw)

    def floor(self, what: str, measured: int, floor: int):
        self.floors.append((what, measured, floor))
        if measured < floor:
            self.errors.append(f"instance floor not met: {what}: found {measured}, confirmed by hand >= {floor}")

    def analysed_add(self, kind: str, item: str):
        self.analysed.setdefault(kind, [])
        if item not in self.analysed[kind]:
            self.analysed[kind].append(item)

    def require(self, cond, msg):
        if not cond:
            raise AnalysisError(msg)

    # ---- finishing --------------------------------------------------------------------------
    def finish(self, write=True, quiet=False) -> int:
        self.dedupe()
        known = load_known()
        viol = [o for o in self.obs if o.verdict == VIOLATED]
        matched, fresh = [], []
        for o in viol:
            k = known.get((self.prop, o.key()))
            if k is not None and k.get("status") == "known":
                matched.append((o, k))
            else:
                fresh.append(o)
        lines = []
        rc = 0
        if self.errors:
            for e in self.errors:
                lines.append(f"ANALYSIS-ERROR property={self.prop} {e}")
            rc = 2
        seen_known = set()
        for o, k in matched:
            if o.key() in seen_known:
                continue
            seen_known.add(o.key())
            lines.append(f"KNOWN-FINDING: property={self.prop} {k.get('what', o.detail)} [{o.key()}]")
        replay_paths = []
        if fresh:
            rc = 1  # a definite violation is reported as such even when another part of the analysis lost its anchor
        if fresh:
            if write:
                os.makedirs(REPLAY_DIR, exist_ok=True)
                for fn in os.listdir(REPLAY_DIR):
                    if fn.startswith(self.prop + "-"):
                        os.remove(os.path.join(REPLAY_DIR, fn))
            for i, o in enumerate(fresh):
                path = os.path.join(REPLAY_DIR, f"{self.prop}-{i}.json")
                if write:
                    with open(path, "w") as f:
                        json.dump({"property": self.prop, "key": o.key(), "obligation": asdict(o),
                                   "rule_text": self.rules.get(o.rule, "")}, f, indent=1)
                replay_paths.append(path)
                lines.append(f"  {o.loc()}: [{o.rule}] {o.construct}: {o.detail}")
                if rc == 1:
                    lines.append(f"VIOLATION property={self.prop} replay={os.path.relpath(path, VERIF)}")
        n_dis = sum(o.verdict == DISCHARGED for o in self.obs)
        n_und = sum(o.verdict == UNDECIDED for o in self.obs)
        lines.append(
            f"[{self.prop} {self.tier}] obligations={len(self.obs)} discharged={n_dis} undecided={n_und} "
            f"violated={len(viol)} (known={len(matched)}, new={len(fresh)}) rules={len(self.rules)} "
            f"wall={time.time() - self.t0:.2f}s")
        if not quiet:
            print("\n".join(lines))
        if write:
            self.write_evidence(matched, fresh)
        self.fresh = fresh
        self.matched = matched
        return rc

    def write_evidence(self, matched, fresh):
        os.makedirs(EVIDENCE_DIR, exist_ok=True)
        distinct_nt = len({o.key() for o in self.obs if o.nontrivial})
        samples = []
        by_rule: Dict[str, List[Ob]] = {}
        for o in self.obs:
            by_rule.setdefault(o.rule, []).append(o)
        for rid, obs in sorted(by_rule.items()):
            # all non-discharged + up to 4 discharged per rule
            keep = [o for o in obs if o.verdict != DISCHARGED] + [o for o in obs if o.verdict == DISCHARGED][:4]
            for o in keep:
                samples.append({"rule": o.rule, "where": o.loc(), "construct": o.construct,
                                "verdict": o.verdict, "detail": o.detail})
        expl = ("Static analysis of /repo's current source (parsed on this run; nothing imported or executed). "
                "Each obligation is one (rule, construct) instance; verdicts: discharged = the rule holds on "
                "every path of that construct, violated = a definite counter-construct, undecided = shape "
                "not modelled (never an alarm). Rules applied: " +
                " || ".join(f"{k}: {v}" for k, v in sorted(self.rules.items())))
        ev = {
            "property_id": self.prop,
            "tier": self.tier,
            "seed": int(os.environ.get("VERIF_SEED", "0") or 0),
            "level": "other",
            "coverage": {
                "explanation": expl,
                "evaluations": len(self.obs),
                "distinct_nontrivial": distinct_nt,
                "rule": "one case = one obligation (rule x construct found in the current source); non-trivial = "
                        "its verdict needed a CFG / dataflow / hierarchy / normal-form fact rather than an "
                        "existence test; distinct = distinct (rule, module, function, construct) keys",
                "obligations": len(self.obs),
                "discharged": sum(o.verdict == DISCHARGED for o in self.obs),
                "undecided": sum(o.verdict == UNDECIDED for o in self.obs),
                "violated": len(matched) + len(fresh),
                "known_findings_matched": [o.key() for o, _ in matched],
                "new_violations": [o.key() for o in fresh],
                "samples": samples,
                "rules": self.rules,
                "instance_floors": [{"what": w, "measured": m, "floor": f} for w, m, f in self.floors],
                "analysed": self.analysed,
                "trusted_base": self.trusted,
                "observations_outside_claim": self.observations,
                "not_decided": self.not_decided,
                "checker_cmd": f"./check {self.prop} {self.tier}",
                "exhaustive": True,
                **self.extra,
            },
            "assumptions": self.assumptions,
            "wall_s": round(time.time() - self.t0, 3),
            "violations": len(fresh),
        }
        if self.errors:
            ev["coverage"]["analysis_errors"] = self.errors
        with open(os.path.join(EVIDENCE_DIR, f"{self.prop}.json"), "w") as f:
            json.dump(ev, f, indent=1, default=str)


def load_known() -> Dict[tuple, dict]:
    if not os.path.exists(KNOWN_FILE):
        return {}
    with open(KNOWN_FILE) as f:
        data = json.load(f)
    out = {}
    for e in data.get("findings", []):
        out[(e["property"], e["key"])] = e
    return out
