"""Symbolic normal forms for expressions (no path search, no solver).

``SymEval(cfg, ...).term(expr, at)`` turns an expression evaluated at CFG node ``at`` into a
canonical, hashable *term*:

* local variables are resolved through their reaching definitions: a variable with exactly one
  reaching definition that is a plain assignment ``x = e`` whose operands are not redefined on any
  path from the definition to the use (the classical *available expression* condition) is replaced by
  the term of ``e`` evaluated at the definition; everything else stays a *versioned* variable
  ``('var', name, frozenset(def nodes))`` (parameters: ``('param', name)``);
* ``self.attr`` loads are pseudo-variables treated the same way; unresolved ones are
  ``('self', attr)``;
* ``+ - *`` (and ``/`` by a constant, ``**`` by a small constant) are evaluated in the polynomial
  domain ``Poly`` with Fraction coefficients over *atoms* (any non-arithmetic term), which yields a
  canonical form for affine / polynomial expressions (Karr-style affine relation analysis restricted
  to straight-line definitions);
* comparisons are normalised to ``lhs - rhs  REL  0`` with a canonical sign / direction, chained
  comparisons and ``and``/``or`` to sorted tuples, ``not`` is pushed into comparisons.

Two occurrences with equal terms denote the same run-time value *provided both are evaluated in
the same dynamic instance of their definitions*; rules that compare terms across loop iterations
say so explicitly.
"""
from __future__ import annotations

import ast
from fractions import Fraction
from typing import Dict, FrozenSet, Iterable, List, Optional, Set, Tuple

from .cfg import CFG, walk_expr

Term = tuple


# ------------------------------------------------------------------------------------------------
# polynomials
# ------------------------------------------------------------------------------------------------
class Poly:
    """Multivariate polynomial: {monomial: Fraction}; monomial = sorted tuple of (atom, power)."""
    __slots__ = ("terms",)

    def __init__(self, terms=None):
        self.terms: Dict[tuple, Fraction] = {k: v for k, v in (terms or {}).items() if v != 0}

    @staticmethod
    def const(c) -> "Poly":
        return Poly({(): Fraction(c)})

    @staticmethod
    def atom(a: Term) -> "Poly":
        return Poly({((a, 1),): Fraction(1)})

    def __add__(self, o: "Poly") -> "Poly":
        t = dict(self.terms)
        for k, v in o.terms.items():
            t[k] = t.get(k, 0) + v
        return Poly(t)

    def __neg__(self):
        return Poly({k: -v for k, v in self.terms.items()})

    def __sub__(self, o):
        return self + (-o)

    def __mul__(self, o: "Poly") -> "Poly":
        t: Dict[tuple, Fraction] = {}
        for k1, v1 in self.terms.items():
            for k2, v2 in o.terms.items():
                d: Dict[Term, int] = {}
                for a, p in k1 + k2:
                    d[a] = d.get(a, 0) + p
                k = tuple(sorted(((a, p) for a, p in d.items() if p != 0), key=repr))
                t[k] = t.get(k, 0) + v1 * v2
        return Poly(t)

    def scale(self, c) -> "Poly":
        c = Fraction(c)
        return Poly({k: v * c for k, v in self.terms.items()})

    def is_const(self) -> bool:
        return all(k == () for k in self.terms)

    def const_value(self) -> Optional[Fraction]:
        if self.is_const():
            return self.terms.get((), Fraction(0))
        return None

    def is_zero(self) -> bool:
        return not self.terms

    def atoms(self) -> Set[Term]:
        return {a for k in self.terms for a, _ in k}

    def degree_in(self, atom: Term) -> int:
        d = 0
        for k in self.terms:
            for a, p in k:
                if a == atom:
                    d = max(d, p)
        return d

    def coeff_of(self, atom: Term, power=1) -> "Poly":
        """Polynomial coefficient of atom**power (the rest of each monomial)."""
        t: Dict[tuple, Fraction] = {}
        for k, v in self.terms.items():
            p = dict(k).get(atom, 0)
            if p == power:
                rest = tuple(x for x in k if x[0] != atom)
                t[rest] = t.get(rest, 0) + v
        return Poly(t)

    def subst(self, atom: Term, value: "Poly") -> "Poly":
        out = Poly()
        for k, v in self.terms.items():
            m = Poly.const(v)
            for a, p in k:
                base = value if a == atom else Poly.atom(a)
                for _ in range(p):
                    m = m * base
            out = out + m
        return out

    def key(self) -> tuple:
        return tuple(sorted(((k, (v.numerator, v.denominator)) for k, v in self.terms.items()), key=repr))

    def __eq__(self, o):
        return isinstance(o, Poly) and self.terms == o.terms

    def __hash__(self):
        return hash(self.key())

    def __repr__(self):
        if not self.terms:
            return "0"
        parts = []
        for k, v in sorted(self.terms.items(), key=lambda kv: repr(kv[0])):
            mono = "*".join(show(a) + (f"^{p}" if p != 1 else "") for a, p in k)
            if not mono:
                parts.append(str(v))
            elif v == 1:
                parts.append(mono)
            elif v == -1:
                parts.append("-" + mono)
            else:
                parts.append(f"{v}*{mono}")
        return " + ".join(parts).replace("+ -", "- ")


def _canon_floor_mod(p: Poly) -> Poly:
    """n - n % b  ->  (n // b) * b   (the same integer; one spelling so that both compare equal): a monomial whose only
    non-constant factor is the atom 'n % b' with coefficient c is rewritten when the polynomial also has the monomials of c * n."""
    for k, v in list(p.terms.items()):
        if len(k) == 1 and k[0][1] == 1 and isinstance(k[0][0], tuple) and k[0][0][:2] == ("binop", "%"):
            _, _, n, b = k[0][0]
            pn = term_to_poly(n).scale(-v)          # the polynomial must contain  -v * n
            if pn.terms and all(p.terms.get(m) is not None for m in pn.terms):
                rest = p - pn - Poly({k: v})
                fd = Poly.atom(("binop", "//", n, b)) * term_to_poly(b)
                # only when -v * n is really there (its monomials may carry other contributions: keep those in rest)
                return _canon_floor_mod(rest + fd.scale(-v))
    return p


def poly_term(p: Poly) -> Term:
    """Canonical term of a polynomial (an atom itself if it is just one atom)."""
    if any(len(k) == 1 and isinstance(k[0][0], tuple) and k[0][0][:2] == ("binop", "%") for k in p.terms):
        p = _canon_floor_mod(p)
    if len(p.terms) == 1:
        (k, v), = p.terms.items()
        if v == 1 and len(k) == 1 and k[0][1] == 1:
            return k[0][0]
        if k == ():
            return ("const", _num(v))
    if not p.terms:
        return ("const", 0)
    return ("poly", p.key())


def _num(v: Fraction):
    return int(v) if v.denominator == 1 else v


def show(t) -> str:
    """Readable rendering of a term (diagnostics only)."""
    if not isinstance(t, tuple) or not t:
        return repr(t)
    k = t[0]
    if k == "const":
        return repr(t[1])
    if k == "param":
        return t[1]
    if k == "var":
        return f"{t[1]}@{sorted(t[2])}"
    if k == "self":
        return f"self.{t[1]}"
    if k == "global":
        return t[1]
    if k == "attr":
        return f"{show(t[1])}.{t[2]}"
    if k == "call":
        args = [show(a) for a in t[2]] + [f"{n}={show(v)}" for n, v in t[3]]
        return f"{show(t[1])}({', '.join(args)})"
    if k == "sub":
        return f"{show(t[1])}[{show(t[2])}]"
    if k == "poly":
        return "(" + repr(Poly({m: Fraction(*c) for m, c in t[1]})) + ")"
    if k in ("lt", "le", "eq", "ne"):
        return f"{show(t[1])} {dict(lt='<', le='<=', eq='==', ne='!=')[k]} 0"
    if k in ("and", "or"):
        return "(" + f" {k} ".join(show(x) for x in t[1]) + ")"
    if k == "not":
        return f"not {show(t[1])}"
    if k in ("is", "eqv"):
        a, b = t[1]
        return f"({show(a)} {'is' if k == 'is' else '=='} {show(b)})"
    if not isinstance(k, str):
        return "(" + ", ".join(show(x) if isinstance(x, tuple) else repr(x) for x in t) + ")"
    if k in ("tuple", "list", "set"):
        return ("(%s)" if k == "tuple" else "[%s]") % ", ".join(show(x) for x in t[1])
    if k == "binop":
        return f"({show(t[2])} {t[1]} {show(t[3])})"
    if k == "ifexp":
        return f"({show(t[2])} if {show(t[1])} else {show(t[3])})"
    return k + "(" + ", ".join(show(x) if isinstance(x, tuple) else repr(x) for x in t[1:]) + ")"


_BINOPS = {ast.FloorDiv: "//", ast.Mod: "%", ast.Div: "/", ast.Pow: "**", ast.BitAnd: "&", ast.BitOr: "|",
           ast.BitXor: "^", ast.LShift: "<<", ast.RShift: ">>", ast.MatMult: "@", ast.Add: "+", ast.Sub: "-",
           ast.Mult: "*"}


def term_to_poly(t: Term) -> Poly:
    if isinstance(t, tuple) and t:
        if t[0] == "const" and isinstance(t[1], (int, float, Fraction)) and not isinstance(t[1], bool):
            try:
                return Poly.const(Fraction(t[1]) if not isinstance(t[1], float) else Fraction(str(t[1])))
            except (ValueError, OverflowError):
                return Poly.atom(t)
        if t[0] == "poly":
            return Poly({m: Fraction(*c) for m, c in t[1]})
    return Poly.atom(t)


def leaves(t, out=None) -> Set[Term]:
    """Leaf symbols of a term: params, self attrs, versioned vars, globals."""
    if out is None:
        out = set()
    if isinstance(t, tuple):
        if t and t[0] in ("param", "self", "var", "global", "opaque"):
            out.add(t)
            return out
        for x in t:
            leaves(x, out)
    elif isinstance(t, frozenset):
        for x in t:
            leaves(x, out)
    return out


def subterms(t):
    """Every non-empty tuple nested in t (terms, and the monomial / coefficient tuples of poly keys)."""
    if isinstance(t, tuple):
        if t:
            yield t
        for x in t:
            yield from subterms(x)


def contains(t, sub) -> bool:
    return any(x == sub for x in subterms(t))


# ------------------------------------------------------------------------------------------------
class SymEval:
    def __init__(self, cfg: CFG, resolve_global=None, self_name: Optional[str] = "self", max_depth=12):
        self.cfg = cfg
        self.rd = cfg.reaching()
        self.self_name = self_name
        self.resolve_global = resolve_global  # name -> dotted string or None
        self.signature_of = None  # callee term -> parameter names (bound receiver excluded) or None; set by the owner (FA)
        self.max_depth = max_depth
        self._all_defs: Dict[str, Set[int]] = {}
        for n in cfg.nodes:
            for v, _, _ in cfg.defs_at(n):
                self._all_defs.setdefault(v, set()).add(n)
        self._memo: Dict[Tuple[int, int], Term] = {}
        self._comp_bound: List[Set[str]] = []
        # locals that are mutated in place (x.append(..), x += [..] is a definition already, rng.shuffle(x)): the expression
        # that created them does not describe their later value
        self._mutated: Set[str] = set()
        for n in cfg.nodes:
            for x in cfg.walk_node(n):
                if isinstance(x, ast.Call) and isinstance(x.func, ast.Attribute):
                    if x.func.attr in _MUTATING_METHODS and isinstance(x.func.value, ast.Name):
                        self._mutated.add(x.func.value.id)
                    if x.func.attr in ("shuffle",):
                        for a in x.args:
                            if isinstance(a, ast.Name):
                                self._mutated.add(a.id)

    # -- variable resolution -----------------------------------------------------------------
    def var_defs(self, name: str, at: int) -> FrozenSet[int]:
        return frozenset(self.rd.get(at, {}).get(name, ()))

    def _available(self, d: int, u: int, value_term: Term) -> bool:
        """The value computed at d is still described by value_term at u: no versioned operand of
        the term is redefined on a path d -> n -> u that does not pass through d again.
        (('param', v) leaves denote entry values and ('self', a) leaves attributes without a
        reaching in-function store; both are time independent within one invocation.)"""
        for lf in leaves(value_term):
            if lf[0] != "var":
                continue
            for n in self._all_defs.get(lf[1], ()):
                if n == d:
                    continue
                if self.cfg.reachable(d, n, avoid={d}) and self.cfg.reachable(n, u, avoid={d}):
                    return False
        return True

    def _resolve_var(self, name: str, at: int, depth: int) -> Term:
        defs = self.var_defs(name, at)
        if not defs:
            return None
        if len(defs) == 1:
            (d,) = defs
            nd = self.cfg.nodes[d]
            if nd.kind == "entry":
                return ("param", name)
            val = self.cfg.def_value(d, name)
            if ((name + "[]") in self._all_defs or name in self._mutated) and not _is_reference(val):
                val = None  # (an alias 'x = self.items' still names the same object after x.append(..))
            if val is not None and _mentions(val, name) and d in self.rd.get(d, {}).get(name, ()):
                val = None  # loop-carried x = x + 1: an update of x (like x += 1), not a definition from other values  # elements are stored into the object later: its defining expression no longer describes it
            if val is not None and depth < self.max_depth and nd.kind == "stmt" and isinstance(nd.ast, (
                    ast.Assign, ast.AnnAssign)):
                vt = self.term(val, d, depth + 1)
                if self._available(d, at, vt):
                    return vt
        return ("var", name, defs)

    # -- main -------------------------------------------------------------------------------------
    def term(self, e: ast.AST, at: int, depth: int = 0) -> Term:
        key = (id(e), at)
        if key in self._memo and not self._comp_bound:
            return self._memo[key]
        t = self._term(e, at, depth)
        if not self._comp_bound:
            self._memo[key] = t
        return t

    def poly(self, e: ast.AST, at: int) -> Poly:
        return term_to_poly(self.term(e, at))

    def _term(self, e, at, depth) -> Term:
        T = lambda x: self.term(x, at, depth)
        if isinstance(e, ast.Constant):
            return ("const", e.value)
        if isinstance(e, ast.Name):
            if any(e.id in b for b in self._comp_bound):
                return ("bound", e.id)
            r = self._resolve_var(e.id, at, depth)
            if r is not None:
                return r
            if self.resolve_global is not None:
                g = self.resolve_global(e.id)
                if isinstance(g, tuple):
                    return g  # a module-level constant: its value
                if g:
                    return ("global", g)
            return ("global", e.id)
        if isinstance(e, ast.Attribute):
            if isinstance(e.value, ast.Name) and e.value.id == self.self_name and not any(
                    e.value.id in b for b in self._comp_bound):
                pv = f"{self.self_name}.{e.attr}"
                defs = self.var_defs(pv, at)
                if defs == frozenset({self.cfg.entry}):
                    return ("self", e.attr)
                if defs:
                    r = self._resolve_var(pv, at, depth)
                    if r is not None and not (r[0] == "var" and r[1] == pv):
                        return r
                    return ("var", pv, defs)
                return ("self", e.attr)
            base = T(e.value)
            if base[0] == "global":
                return ("global", f"{base[1]}.{e.attr}")
            return ("attr", base, e.attr)
        if isinstance(e, ast.BinOp):
            a, b = T(e.left), T(e.right)
            if isinstance(e.op, (ast.Add, ast.Sub, ast.Mult)):
                if _is_stringy(a) or _is_stringy(b) or _is_seq(a) or _is_seq(b):
                    return ("binop", _BINOPS[type(e.op)], a, b)
                pa, pb = term_to_poly(a), term_to_poly(b)
                if isinstance(e.op, ast.Add):
                    return poly_term(pa + pb)
                if isinstance(e.op, ast.Sub):
                    return poly_term(pa - pb)
                return poly_term(pa * pb)
            if isinstance(e.op, ast.Div):
                pb = term_to_poly(b)
                c = pb.const_value()
                if c is not None and c != 0:
                    return poly_term(term_to_poly(a).scale(1 / c))
                return ("binop", "/", a, b)
            if isinstance(e.op, ast.Pow):
                pb = term_to_poly(b).const_value()
                if pb is not None and pb.denominator == 1 and 0 <= pb <= 4:
                    p = Poly.const(1)
                    for _ in range(int(pb)):
                        p = p * term_to_poly(a)
                    return poly_term(p)
            return ("binop", _BINOPS.get(type(e.op), type(e.op).__name__), a, b)
        if isinstance(e, ast.UnaryOp):
            a = T(e.operand)
            if isinstance(e.op, ast.USub):
                return poly_term(-term_to_poly(a))
            if isinstance(e.op, ast.UAdd):
                return a
            if isinstance(e.op, ast.Not):
                return negate(a)
            return ("unop", type(e.op).__name__, a)
        if isinstance(e, ast.BoolOp):
            parts = []
            kind = "and" if isinstance(e.op, ast.And) else "or"
            for v in e.values:
                tv = T(v)
                if isinstance(tv, tuple) and tv and tv[0] == kind:
                    parts += list(tv[1])
                else:
                    parts.append(tv)
            # NB: for value-returning or/and (x = a or b) order matters; keep order but dedupe
            seen = []
            for p in parts:
                if p not in seen:
                    seen.append(p)
            if all(_is_boolish(p) for p in seen):
                seen = sorted(seen, key=repr)
            return (kind, tuple(seen))
        if isinstance(e, ast.Compare):
            parts = []
            left = e.left
            for op, right in zip(e.ops, e.comparators):
                parts.append(self._cmp(op, T(left), T(right)))
                left = right
            if len(parts) == 1:
                return parts[0]
            return ("and", tuple(sorted(parts, key=repr)))
        if isinstance(e, ast.Call):
            f = T(e.func)
            args = []
            for a in e.args:
                if isinstance(a, ast.Starred):
                    args.append(("star", T(a.value)))
                else:
                    args.append(T(a))
            kws = tuple(sorted(((k.arg or "**", T(k.value)) for k in e.keywords), key=lambda x: x[0]))
            # one spelling for arguments of package callees with a known plain signature: keywords that bind the next parameters
            # in order are written positionally (f(a, item=b) and f(a, b) are the same call)
            if kws and self.signature_of is not None and not any(k_ == "**" for k_, _ in kws) and not any(
                    isinstance(a_, tuple) and a_ and a_[0] == "star" for a_ in args):
                sig_ = self.signature_of(f)
                if sig_ is not None:
                    kwd_ = dict(kws)
                    i_ = len(args)
                    while i_ < len(sig_) and sig_[i_] in kwd_:
                        args.append(kwd_.pop(sig_[i_]))
                        i_ += 1
                    kws = tuple(sorted(kwd_.items(), key=lambda x: x[0]))
            if _is_draw(f):
                # a random draw is not a function of its arguments: two call sites never denote the same value
                kws = kws + (("#site", ("const", (getattr(e, "lineno", 0), getattr(e, "col_offset", 0)))),)
            return ("call", f, tuple(args), kws)
        if isinstance(e, ast.Subscript):
            return ("sub", T(e.value), T(e.slice))
        if isinstance(e, ast.Slice):
            return ("slice", T(e.lower) if e.lower else None, T(e.upper) if e.upper else None,
                    T(e.step) if e.step else None)
        if isinstance(e, ast.Tuple):
            return ("tuple", tuple(T(x) for x in e.elts))
        if isinstance(e, ast.List):
            return ("list", tuple(T(x) for x in e.elts))
        if isinstance(e, ast.Set):
            return ("set", tuple(sorted((T(x) for x in e.elts), key=repr)))
        if isinstance(e, ast.Dict):
            return ("dict", tuple((T(k) if k is not None else None, T(v)) for k, v in zip(e.keys, e.values)))
        if isinstance(e, ast.IfExp):
            return ("ifexp", T(e.test), T(e.body), T(e.orelse))
        if isinstance(e, ast.Starred):
            return ("star", T(e.value))
        if isinstance(e, ast.JoinedStr):
            return ("fstr", tuple(T(v) for v in e.values))
        if isinstance(e, ast.FormattedValue):
            return ("fmt", T(e.value))
        if isinstance(e, ast.NamedExpr):
            return T(e.value)
        if isinstance(e, (ast.ListComp, ast.SetComp, ast.GeneratorExp, ast.DictComp)):
            bound: Set[str] = set()
            gens = []
            for g in e.generators:
                it = T(g.iter)  # evaluated with the names bound so far
                for n in ast.walk(g.target):
                    if isinstance(n, ast.Name):
                        bound.add(n.id)
                self._comp_bound.append(set(bound))
                try:
                    tgt = T(g.target)
                    ifs = tuple(T(i) for i in g.ifs)
                finally:
                    self._comp_bound.pop()
                gens.append((tgt, it, ifs))
            self._comp_bound.append(bound)
            try:
                if isinstance(e, ast.DictComp):
                    elt = ("kv", T(e.key), T(e.value))
                else:
                    elt = T(e.elt)
            finally:
                self._comp_bound.pop()
            return ("comp", type(e).__name__, elt, tuple(gens))
        if isinstance(e, ast.Lambda):
            return ("opaque", "lambda", id(e))
        if isinstance(e, (ast.Yield, ast.YieldFrom, ast.Await)):
            return ("opaque", type(e).__name__, id(e))
        return ("opaque", type(e).__name__, id(e))

    def _cmp(self, op, a: Term, b: Term) -> Term:
        if isinstance(op, (ast.Is, ast.IsNot)):
            pair = tuple(sorted((a, b), key=repr))
            t = ("is", pair)
            return t if isinstance(op, ast.Is) else ("not", t)
        if isinstance(op, (ast.In, ast.NotIn)) and isinstance(b, tuple) and b and b[0] in ("tuple", "list", "set") and \
                1 <= len(b[1]) <= 6 and not _is_stringy(a):
            # x in (u, v, w)  is  x == u or x == v or x == w
            parts = tuple(sorted({self._cmp(ast.Eq(), a, x) for x in b[1]}, key=repr))
            t = parts[0] if len(parts) == 1 else ("or", parts)
            return t if isinstance(op, ast.In) else negate(t)
        if isinstance(op, (ast.In, ast.NotIn)):
            t = ("in", a, b)
            return t if isinstance(op, ast.In) else ("not", t)
        if isinstance(op, (ast.Eq, ast.NotEq)) and a[0] == "tuple" and b[0] == "tuple" and len(a[1]) == len(b[1]) and a[1]:
            # (x, y) == (u, v) is x == u and y == v
            parts = tuple(sorted((self._cmp(ast.Eq(), x, y) for x, y in zip(a[1], b[1])), key=repr))
            t = parts[0] if len(parts) == 1 else ("and", parts)
            return t if isinstance(op, ast.Eq) else negate(t)
        if _is_stringy(a) or _is_stringy(b) or _is_none(a) or _is_none(b):
            pair = tuple(sorted((a, b), key=repr))
            if isinstance(op, ast.Eq):
                return ("eqv", pair)
            if isinstance(op, ast.NotEq):
                return ("not", ("eqv", pair))
        pa, pb = term_to_poly(a), term_to_poly(b)
        if isinstance(op, ast.Eq):
            return ("eq", _canon_sign(pa - pb))
        if isinstance(op, ast.NotEq):
            return ("ne", _canon_sign(pa - pb))
        if isinstance(op, ast.Lt):
            return ("lt", poly_term(pa - pb))
        if isinstance(op, ast.Gt):
            return ("lt", poly_term(pb - pa))
        if isinstance(op, ast.LtE):
            return ("le", poly_term(pa - pb))
        if isinstance(op, ast.GtE):
            return ("le", poly_term(pb - pa))
        return ("cmp", type(op).__name__, a, b)


_MUTATING_METHODS = {"append", "extend", "insert", "pop", "remove", "sort", "reverse", "clear", "update", "add", "discard",
                     "setdefault", "popitem", "appendleft", "mul_", "add_", "sub_", "div_", "fill_", "zero_", "copy_",
                     "clamp_", "masked_fill_", "index_fill_"}
_DRAW_METHODS = {"random", "integers", "uniform", "normal", "standard_normal", "choice", "permutation", "permuted",
                 "shuffle", "beta", "binomial", "exponential", "gamma", "poisson", "bytes", "multinomial", "triangular",
                 "laplace", "lognormal", "rand", "randn", "randint", "random_", "normal_", "uniform_", "bernoulli_",
                 "randperm", "bernoulli"}


def _is_reference(e) -> bool:
    """A name or attribute chain: evaluating it yields an existing object, it creates none."""
    while isinstance(e, ast.Attribute):
        e = e.value
    return isinstance(e, ast.Name)


def _is_draw(f: Term) -> bool:
    if f[0] == "attr" and f[2] in _DRAW_METHODS:
        return True
    if f[0] == "global":
        parts = f[1].split(".")
        if parts[-1] in _DRAW_METHODS and parts[0] in ("numpy", "random", "torch"):
            return True
    return False


def _mentions(e: ast.AST, name: str) -> bool:
    if "." in name:
        base, attr = name.split(".", 1)
        return any(isinstance(y, ast.Attribute) and y.attr == attr and isinstance(y.value, ast.Name) and y.value.id == base
                   for y in ast.walk(e))
    return any(isinstance(y, ast.Name) and y.id == name for y in ast.walk(e))


def _canon_sign(p: Poly) -> Term:
    if p.terms:
        k = sorted(p.terms, key=repr)[0]
        if p.terms[k] < 0:
            p = -p
    return poly_term(p)


def negate(t: Term) -> Term:
    if isinstance(t, tuple) and t:
        if t[0] == "not":
            return t[1]
        if t[0] == "lt":  # not (p < 0)  <=>  -p <= 0
            return ("le", poly_term(-term_to_poly(t[1])))
        if t[0] == "le":
            return ("lt", poly_term(-term_to_poly(t[1])))
        if t[0] == "eq":
            return ("ne", t[1])
        if t[0] == "ne":
            return ("eq", t[1])
        if t[0] == "const" and isinstance(t[1], bool):
            return ("const", not t[1])
        if t[0] in ("and", "or") and all(_is_boolish(p) for p in t[1]):
            # De Morgan over truth-valued operands: one normal form for 'if not (a or b)' and 'if not a and not b'
            kind = "or" if t[0] == "and" else "and"
            parts = []
            for p in t[1]:
                q = negate(p)
                for x in (q[1] if isinstance(q, tuple) and q and q[0] == kind else (q,)):
                    if x not in parts:
                        parts.append(x)
            return (kind, tuple(sorted(parts, key=repr)))
    return ("not", t)


def _is_boolish(t) -> bool:
    return isinstance(t, tuple) and t and t[0] in ("lt", "le", "eq", "ne", "not", "is", "in", "eqv", "and", "or") or (
            isinstance(t, tuple) and t and t[0] == "const" and isinstance(t[1], bool))


def _is_stringy(t) -> bool:
    return isinstance(t, tuple) and t and ((t[0] == "const" and isinstance(t[1], (str, bytes))) or t[0] in ("fstr",))


def _is_none(t) -> bool:
    return isinstance(t, tuple) and t and t[0] == "const" and t[1] is None


def _is_seq(t) -> bool:
    return isinstance(t, tuple) and t and t[0] in ("list", "tuple", "comp", "dict", "set")


def is_call_to(t: Term, name: str) -> bool:
    """term is a call whose callee is the global / attribute named ``name`` (last component)."""
    if not (isinstance(t, tuple) and t and t[0] == "call"):
        return False
    return callee_name(t) == name


def callee_name(t: Term) -> Optional[str]:
    f = t[1]
    if f[0] == "global":
        return f[1].rsplit(".", 1)[-1]
    if f[0] == "attr":
        return f[2]
    if f[0] == "self":
        return f[1]
    if f[0] == "param":
        return f[1]
    return None


def callee_dotted(t: Term) -> Optional[str]:
    f = t[1]
    if f[0] == "global":
        return f[1]
    return None
