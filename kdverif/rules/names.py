"""G1 - name binding.

A name that is read in a scope and is bound neither in that scope, nor in an enclosing function
scope, nor at module level (assignments, defs, imports, resolved star imports), nor in builtins is a
definite ``NameError`` on every path that evaluates it.  Scoping is taken from ``symtable`` (so
comprehension and class scopes are exact); module-level bindings from the program model.
"""
from __future__ import annotations

import ast
import builtins
import symtable
from typing import Dict, Iterable, List, Optional, Set, Tuple

from ..core import Report
from ..model import Module, Program

RULE = "G1.unbound-name"
RULE_TEXT = ("every name read inside the functions that implement the property's mechanism is bound in its "
             "scope chain (function scopes via symtable, module bindings incl. star re-exports, builtins); "
             "an unbound name is a NameError on every path evaluating it")

_BUILTINS = set(dir(builtins)) | {"__file__", "__name__", "__doc__", "__package__", "__spec__", "__loader__",
                                  "__builtins__", "__path__", "__class__"}


def module_names(prog: Program, m: Module) -> Tuple[Set[str], bool]:
    """names bound at module level; second result False if an external star import makes the set open."""
    names = set(m.bindings)
    closed = True
    for target in m.star_from:
        tm = prog.modules.get(target)
        if tm is None:
            if target == prog.pkg or target.startswith(prog.pkg + "."):
                continue
            closed = False
            continue
        sub, c2 = module_names(prog, tm)
        all_ = _dunder_all(tm)
        names |= (set(all_) if all_ is not None else {n for n in sub if not n.startswith("_")})
        closed = closed and c2
    return names, closed


def _dunder_all(m: Module) -> Optional[List[str]]:
    for st in m.tree.body:
        if isinstance(st, ast.Assign) and any(isinstance(t, ast.Name) and t.id == "__all__" for t in st.targets):
            try:
                return list(ast.literal_eval(st.value))
            except Exception:
                return None
    return None


def _scopes(tab: symtable.SymbolTable, chain=()):
    yield tab, chain
    for ch in tab.get_children():
        yield from _scopes(ch, chain + (tab,))


def unbound_names(prog: Program, m: Module) -> List[Tuple[str, str, int]]:
    """-> [(qualified scope name, name, first line of a read)]"""
    mod_names, closed = module_names(prog, m)
    if not closed:
        return []
    try:
        top = symtable.symtable(m.src, m.relpath, "exec")
    except SyntaxError:
        return []
    # index of Name loads by (scope first line, scope name)
    out = []
    func_nodes: Dict[Tuple[str, int], ast.AST] = {}
    for node in ast.walk(m.tree):
        if isinstance(node, (ast.FunctionDef, ast.AsyncFunctionDef, ast.ClassDef, ast.Lambda, ast.ListComp,
                             ast.SetComp, ast.DictComp, ast.GeneratorExp)):
            func_nodes.setdefault((getattr(node, "name", type(node).__name__), node.lineno), node)
    for tab, chain in _scopes(top):
        if tab.get_type() == "module":
            qual = ""
        else:
            qual = ".".join([c.get_name() for c in chain[1:]] + [tab.get_name()])
        for s in tab.get_symbols():
            if not s.is_referenced():
                continue
            name = s.get_name()
            if tab.get_type() == "module":
                unbound = not s.is_assigned() and not s.is_imported() and name not in mod_names \
                          and name not in _BUILTINS
            else:
                if not s.is_global():
                    # local / free / cell: a free variable is bound in an enclosing function by
                    # construction of symtable; class-scope names that are not assigned in the class
                    # are reported as global-implicit
                    continue
                unbound = name not in mod_names and name not in _BUILTINS
            if unbound:
                line = _first_read_line(m, tab, name)
                out.append((qual, name, line))
    return sorted(set(out))


def _first_read_line(m: Module, tab, name) -> int:
    lo = tab.get_lineno() if tab.get_type() != "module" else 1
    best = None
    # nearest enclosing def starting at that line
    target = None
    if tab.get_type() != "module":
        for node in ast.walk(m.tree):
            if getattr(node, "lineno", None) == lo and isinstance(node, (
                    ast.FunctionDef, ast.AsyncFunctionDef, ast.ClassDef, ast.Lambda, ast.ListComp, ast.SetComp,
                    ast.DictComp, ast.GeneratorExp)):
                target = node
                break
    root = target if target is not None else m.tree
    for node in ast.walk(root):
        if isinstance(node, ast.Name) and node.id == name and isinstance(node.ctx, ast.Load):
            if best is None or node.lineno < best:
                best = node.lineno
    return best or lo


def check(prog: Program, rep: Report, relpaths: Iterable[str], clause="G1", floor: int = 1):
    rep.rule(RULE, RULE_TEXT)
    n_funcs = 0
    for rel in relpaths:
        m = prog.module(rel)
        rep.analysed_add("modules", rel)
        hits = unbound_names(prog, m)
        scopes = 0
        for node in ast.walk(m.tree):
            if isinstance(node, (ast.FunctionDef, ast.AsyncFunctionDef)):
                scopes += 1
        n_funcs += scopes
        if hits:
            for qual, name, line in hits:
                rep.bad(RULE, m, f"name:{name}", f"'{name}' is read in {qual or '<module>'} but bound nowhere "
                        f"(scope chain, module, builtins): NameError when evaluated", line=line, clause=clause) \
                    .func = _strip_comp(qual)
        else:
            rep.ok(RULE, m, "all-names-bound", f"{scopes} function scopes, every read name bound", clause=clause,
                   nontrivial=False)
    rep.floor("G1 function scopes analysed", n_funcs, floor)
    late_binding(prog, rep, relpaths, clause=clause)
    shared_class_state(prog, rep, relpaths, clause=clause)
    shared_defaults(prog, rep, relpaths, clause=clause)


def _strip_comp(qual: str) -> str:
    parts = [p for p in qual.split(".") if p not in ("listcomp", "genexpr", "setcomp", "dictcomp", "lambda")]
    return ".".join(parts)


# ---- closures created in a loop that capture the loop's variables ------------------------------------------------------------
LB_RULE = "G1.late-binding"
LB_TEXT = ("a lambda / nested function created inside a loop (or comprehension) that outlives the iteration - appended to a "
           "container, stored in an attribute or subscript, wrapped by partial, returned or yielded - does not read a variable "
           "the loop re-binds (loop target or assigned in the loop body) as a free variable: Python closures capture the "
           "variable, not its value, so every such callable would see the value of the last iteration (bind the value with a "
           "default argument or functools.partial instead)")
_STORING_METHODS = {"append", "add", "insert", "extend", "setdefault", "update", "appendleft", "register"}


def _free_names(fn) -> Set[str]:
    """Names a lambda / def body reads that it does not bind itself (parameters, own assignments, comprehension targets)."""
    a = fn.args
    bound = {x.arg for x in a.posonlyargs + a.args + a.kwonlyargs}
    if a.vararg:
        bound.add(a.vararg.arg)
    if a.kwarg:
        bound.add(a.kwarg.arg)
    body = [fn.body] if isinstance(fn, ast.Lambda) else list(fn.body)
    for b in body:
        for n in ast.walk(b):
            if isinstance(n, ast.Name) and isinstance(n.ctx, (ast.Store, ast.Del)):
                bound.add(n.id)
    free = set()
    for b in body:
        for n in ast.walk(b):
            if isinstance(n, ast.Name) and isinstance(n.ctx, ast.Load) and n.id not in bound:
                free.add(n.id)
    return free


def _escapes(closure, parents) -> Optional[str]:
    """How the closure object leaves the iteration, or None when that cannot be told."""
    cur = closure
    while True:
        par = parents.get(id(cur))
        if par is None:
            return None
        if isinstance(par, ast.Call):
            f = par.func
            if cur is f:
                return None  # called on the spot
            nm = f.attr if isinstance(f, ast.Attribute) else getattr(f, "id", "")
            if nm in _STORING_METHODS:
                return f".{nm}(...)"
            if nm == "partial":
                cur = par
                continue
            return None  # passed to some call: used during the iteration as far as can be told (sorted(key=...), map ...)
        if isinstance(par, (ast.List, ast.Tuple, ast.Set, ast.Dict, ast.keyword, ast.Starred, ast.IfExp)):
            cur = par
            continue
        if isinstance(par, ast.Assign):
            if any(isinstance(t, (ast.Attribute, ast.Subscript)) for t in par.targets):
                return "stored in an attribute / subscript"
            return None
        if isinstance(par, (ast.Return, ast.Yield)):
            return "returned / yielded"
        if isinstance(par, (ast.ListComp, ast.SetComp, ast.GeneratorExp, ast.DictComp)):
            return "element of a comprehension"
        return None


def late_binding(prog: Program, rep: Report, relpaths: Iterable[str], clause="G1"):
    rep.rule(LB_RULE, LB_TEXT)
    n_loops = 0
    for rel in relpaths:
        m = prog.raw.module(rel)
        parents = {}
        for p in ast.walk(m.tree):
            for c in ast.iter_child_nodes(p):
                parents[id(c)] = p
        hits = []
        for fn in ast.walk(m.tree):
            if not isinstance(fn, (ast.FunctionDef, ast.AsyncFunctionDef)):
                continue
            for loop in ast.walk(fn):
                if isinstance(loop, (ast.For, ast.AsyncFor, ast.While)):
                    rebound = {n.id for s in ([loop.target] if hasattr(loop, "target") else []) + list(loop.body)
                               for n in ast.walk(s) if isinstance(n, ast.Name) and isinstance(n.ctx, ast.Store)}
                    region = list(loop.body)
                elif isinstance(loop, (ast.ListComp, ast.SetComp, ast.GeneratorExp, ast.DictComp)):
                    rebound = {n.id for g in loop.generators for n in ast.walk(g.target) if isinstance(n, ast.Name)}
                    region = [loop.elt] if not isinstance(loop, ast.DictComp) else [loop.key, loop.value]
                else:
                    continue
                n_loops += 1
                for s in region:
                    for c in ast.walk(s):
                        if isinstance(c, (ast.Lambda, ast.FunctionDef)):
                            late = _free_names(c) & rebound
                            if not late:
                                continue
                            how = _escapes(c, parents) if isinstance(c, ast.Lambda) else None
                            if isinstance(c, ast.FunctionDef):
                                # a nested def escapes when its name is stored / appended inside the loop
                                for u in ast.walk(loop):
                                    if isinstance(u, ast.Name) and u.id == c.name and isinstance(u.ctx, ast.Load):
                                        how = how or _escapes(u, parents)
                            if how:
                                hits.append((fn, c, sorted(late), how))
        seen = set()
        for fn, c, late, how in hits:
            key = (fn.name, c.lineno, tuple(late))
            if key in seen:
                continue
            seen.add(key)
            rep.bad(LB_RULE, m, f"closure-over:{','.join(late)}", f"a {'lambda' if isinstance(c, ast.Lambda) else 'nested def'} "
                    f"created in a loop of {fn.name} reads the loop-bound variable(s) {', '.join(late)} as free variables and is "
                    f"{how}: after the loop every such callable sees the last iteration's value", line=c.lineno,
                    clause=clause).func = (f"{parents[id(fn)].name}.{fn.name}" if isinstance(parents.get(id(fn)), ast.ClassDef)
                                           else fn.name)
        if not hits:
            rep.ok(LB_RULE, m, "no-late-binding-closure", "no escaping closure over a loop-bound variable", clause=clause,
                   nontrivial=False)
    return n_loops


# ---- mutable class-level containers written through instances -----------------------------------------------------------------
SC_RULE = "G1.shared-class-state"
SC_TEXT = ("a mutable container declared in a class body ({} / [] / set() / dict() / list()) and never re-bound per instance is one "
           "object shared by all instances.  Where a method stores into it through self, the stored value must not depend on "
           "instance attributes that the key does not depend on (for a keyless append / add: on no instance attribute at all) - "
           "otherwise one instance's configuration answers the lookups of every other instance with the same key")


def shared_class_state(prog: Program, rep: Report, relpaths: Iterable[str], clause="G1"):
    from ..deps import Deps
    from ..fa import fa_of
    rep.rule(SC_RULE, SC_TEXT)
    n = 0
    for rel in relpaths:
        m = prog.raw.module(rel)
        for b in m.bindings.values():
            if b[0] != "class" or b[1].module is not m:
                continue
            C = b[1]
            shared = {}
            for a, v in C.class_attrs.items():
                if isinstance(v, (ast.Dict, ast.List, ast.Set)) or (isinstance(v, ast.Call) and isinstance(v.func, ast.Name)
                                                                   and v.func.id in ("dict", "list", "set", "defaultdict",
                                                                                     "OrderedDict")):
                    shared[a] = v
            if not shared:
                continue
            # re-bound per instance anywhere (self.a = ...)?  then it is instance state
            for fi in C.methods.values():
                ps = fi.params()
                for st in ast.walk(fi.node):
                    if isinstance(st, (ast.Assign, ast.AnnAssign)):
                        for t in (st.targets if isinstance(st, ast.Assign) else [st.target]):
                            if isinstance(t, ast.Attribute) and isinstance(t.value, ast.Name) and ps and t.value.id == ps[0]:
                                shared.pop(t.attr, None)
            for a in sorted(shared):
                n += 1
                bad = []
                for fi in C.methods.values():
                    ps = fi.params()
                    if not ps or fi.is_static:
                        continue
                    me = ps[0]
                    fa = fa_of(prog.raw, fi)
                    dep = Deps(fa, control=True)

                    def attrs_of(e, at):
                        # what distinguishes one instance from another: its attributes and, in the constructor, its arguments
                        d_ = dep.of(e, at)
                        out_ = {x[1] for x in d_ if x[0] == "self"} - {a}
                        if fi.name == "__init__":
                            out_ |= {f"<argument {x[1]}>" for x in d_ if x[0] == "param" and x[1] != me}
                        return out_

                    for nn, nd in fa.cfg.nodes.items():
                        st = nd.ast if nd.kind == "stmt" else None
                        if isinstance(st, ast.Assign):
                            for t in st.targets:
                                if isinstance(t, ast.Subscript) and isinstance(t.value, ast.Attribute) and t.value.attr == a \
                                        and isinstance(t.value.value, ast.Name) and t.value.value.id == me:
                                    extra = attrs_of(st.value, nn) - attrs_of(t.slice, nn)
                                    if extra:
                                        bad.append((st.lineno, f"{fi.name} stores a value that depends on {', '.join(_pretty(extra))} "
                                                               f"under a key that does not"))
                        for c in fa.cfg.calls_at(nn):
                            f = c.func
                            if isinstance(f, ast.Attribute) and isinstance(f.value, ast.Attribute) and f.value.attr == a and \
                                    isinstance(f.value.value, ast.Name) and f.value.value.id == me and c.args:
                                if f.attr in ("append", "add", "extend", "insert"):
                                    extra = attrs_of(c.args[-1], nn)
                                    if extra:
                                        bad.append((c.lineno, f"{fi.name} appends a value that depends on {', '.join(_pretty(extra))}"))
                                elif f.attr == "setdefault" and len(c.args) == 2:
                                    extra = attrs_of(c.args[1], nn) - attrs_of(c.args[0], nn)
                                    if extra:
                                        bad.append((c.lineno, f"{fi.name} setdefaults a value that depends on {', '.join(_pretty(extra))} "
                                                              f"under a key that does not"))
                o = rep.decide(not bad, SC_RULE, m, f"class-attribute:{C.name}.{a}", "not written through instances with "
                               "instance-dependent values", "; ".join(f"{w} (line {ln})" for ln, w in bad[:3]) +
                               f": {C.name}.{a} is shared by all instances, so the first instance to fill an entry decides it for all "
                               f"others", line=bad[0][0] if bad else C.node.lineno, clause=clause)
                o.func = C.name
    return n


def _pretty(extra):
    return [x if x.startswith("<") else f"self.{x}" for x in sorted(extra)]


# ---- mutable default arguments kept by the instance ---------------------------------------------------------------------------------
MD_RULE = "G1.shared-default"
MD_TEXT = ("a parameter default that is a freshly built object (a call such as Value(..) / Lock() / [] / {} / set()) exists once per "
           "function, not once per call.  A method that stores such a default - unchanged - into an attribute of the instance makes "
           "every instance created without that argument share one object: state that should belong to one instance (a step "
           "counter, a cache) is advanced by all of them")


def shared_defaults(prog: Program, rep: Report, relpaths: Iterable[str], clause="G1"):
    rep.rule(MD_RULE, MD_TEXT)
    for rel in relpaths:
        m = prog.raw.module(rel)
        hits = []
        for cls in [c for c in ast.walk(m.tree) if isinstance(c, ast.ClassDef)]:
            for fn in [f for f in cls.body if isinstance(f, ast.FunctionDef)]:
                a = fn.args
                pos = a.posonlyargs + a.args
                dflt = dict(zip([x.arg for x in pos][len(pos) - len(a.defaults):], a.defaults))
                dflt.update({x.arg: d for x, d in zip(a.kwonlyargs, a.kw_defaults) if d is not None})
                me = pos[0].arg if pos else None
                for p, d in dflt.items():
                    immutable_call = isinstance(d, ast.Call) and isinstance(d.func, ast.Name) and d.func.id in (
                        "tuple", "frozenset", "int", "float", "str", "bool", "bytes", "object", "Path", "range")
                    fresh = (isinstance(d, (ast.List, ast.Dict, ast.Set, ast.ListComp, ast.DictComp, ast.SetComp))
                             or (isinstance(d, ast.Call) and not immutable_call))
                    if not fresh:
                        continue
                    rebound = any(isinstance(y, ast.Name) and y.id == p and isinstance(y.ctx, ast.Store) for y in ast.walk(fn))
                    if rebound:
                        continue
                    for st in ast.walk(fn):
                        if isinstance(st, ast.Assign) and isinstance(st.value, ast.Name) and st.value.id == p:
                            for t in st.targets:
                                if isinstance(t, ast.Attribute) and isinstance(t.value, ast.Name) and t.value.id == me:
                                    hits.append((cls.name, fn.name, p, t.attr, ast.unparse(d)[:40], st.lineno))
        for cname, fname, p, attr, dtxt, line in hits:
            o = rep.bad(MD_RULE, m, f"default:{cname}.{fname}:{p}", f"{cname}.{fname} stores its default argument {p}={dtxt} into "
                        f"self.{attr}: the default is built once, so all instances created without '{p}' share that object",
                        line=line, clause=clause)
            o.func = f"{cname}.{fname}"
        if not hits:
            rep.ok(MD_RULE, m, "no-shared-default", "no freshly built default argument is kept by an instance", clause=clause,
                   nontrivial=False)
