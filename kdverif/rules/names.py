"""G1 - name binding.

A name that is read in a scope and is bound neither in that scope, nor in an enclosing function
scope, nor at module level (assignments, defs, imports, resolved star imports), nor in builtins is a
definite ``NameError`` on every path that evaluates it.  Scoping is taken from ``symtable`` (so
comprehension and class scopes are exact); module-level bindings from the program model.
"""
from __future__ import annotations

import ast
import builtins
import symtable
from typing import Dict, Iterable, List, Optional, Set, Tuple

from ..core import Report
from ..model import Module, Program

RULE = "G1.unbound-name"
RULE_TEXT = ("every name read inside the functions that implement the property's mechanism is bound in its "
             "scope chain (function scopes via symtable, module bindings incl. star re-exports, builtins); "
             "an unbound name is a NameError on every path evaluating it")

_BUILTINS = set(dir(builtins)) | {"__file__", "__name__", "__doc__", "__package__", "__spec__", "__loader__",
                                  "__builtins__", "__path__", "__class__"}


def module_names(prog: Program, m: Module) -> Tuple[Set[str], bool]:
    """names bound at module level; second result False if an external star import makes the set open."""
    names = set(m.bindings)
    closed = True
    for target in m.star_from:
        tm = prog.modules.get(target)
        if tm is None:
            if target == prog.pkg or target.startswith(prog.pkg + "."):
                continue
            closed = False
            continue
        sub, c2 = module_names(prog, tm)
        all_ = _dunder_all(tm)
        names |= (set(all_) if all_ is not None else {n for n in sub if not n.startswith("_")})
        closed = closed and c2
    return names, closed


def _dunder_all(m: Module) -> Optional[List[str]]:
    for st in m.tree.body:
        if isinstance(st, ast.Assign) and any(isinstance(t, ast.Name) and t.id == "__all__" for t in st.targets):
            try:
                return list(ast.literal_eval(st.value))
            except Exception:
                return None
    return None


def _scopes(tab: symtable.SymbolTable, chain=()):
    yield tab, chain
    for ch in tab.get_children():
        yield from _scopes(ch, chain + (tab,))


def unbound_names(prog: Program, m: Module) -> List[Tuple[str, str, int]]:
    """-> [(qualified scope name, name, first line of a read)]"""
    mod_names, closed = module_names(prog, m)
    if not closed:
        return []
    try:
        top = symtable.symtable(m.src, m.relpath, "exec")
    except SyntaxError:
        return []
    # index of Name loads by (scope first line, scope name)
    out = []
    func_nodes: Dict[Tuple[str, int], ast.AST] = {}
    for node in ast.walk(m.tree):
        if isinstance(node, (ast.FunctionDef, ast.AsyncFunctionDef, ast.ClassDef, ast.Lambda, ast.ListComp,
                             ast.SetComp, ast.DictComp, ast.GeneratorExp)):
            func_nodes.setdefault((getattr(node, "name", type(node).__name__), node.lineno), node)
    for tab, chain in _scopes(top):
        if tab.get_type() == "module":
            qual = ""
        else:
            qual = ".".join([c.get_name() for c in chain[1:]] + [tab.get_name()])
        for s in tab.get_symbols():
            if not s.is_referenced():
                continue
            name = s.get_name()
            if tab.get_type() == "module":
                unbound = not s.is_assigned() and not s.is_imported() and name not in mod_names \
                          and name not in _BUILTINS
            else:
                if not s.is_global():
                    # local / free / cell: a free variable is bound in an enclosing function by
                    # construction of symtable; class-scope names that are not assigned in the class
                    # are reported as global-implicit
                    continue
                unbound = name not in mod_names and name not in _BUILTINS
            if unbound:
                line = _first_read_line(m, tab, name)
                out.append((qual, name, line))
    return sorted(set(out))


def _first_read_line(m: Module, tab, name) -> int:
    lo = tab.get_lineno() if tab.get_type() != "module" else 1
    best = None
    # nearest enclosing def starting at that line
    target = None
    if tab.get_type() != "module":
        for node in ast.walk(m.tree):
            if getattr(node, "lineno", None) == lo and isinstance(node, (
                    ast.FunctionDef, ast.AsyncFunctionDef, ast.ClassDef, ast.Lambda, ast.ListComp, ast.SetComp,
                    ast.DictComp, ast.GeneratorExp)):
                target = node
                break
    root = target if target is not None else m.tree
    for node in ast.walk(root):
        if isinstance(node, ast.Name) and node.id == name and isinstance(node.ctx, ast.Load):
            if best is None or node.lineno < best:
                best = node.lineno
    return best or lo


def check(prog: Program, rep: Report, relpaths: Iterable[str], clause="G1", floor: int = 1):
    rep.rule(RULE, RULE_TEXT)
    n_funcs = 0
    for rel in relpaths:
        m = prog.module(rel)
        rep.analysed_add("modules", rel)
        hits = unbound_names(prog, m)
        scopes = 0
        for node in ast.walk(m.tree):
            if isinstance(node, (ast.FunctionDef, ast.AsyncFunctionDef)):
                scopes += 1
        n_funcs += scopes
        if hits:
            for qual, name, line in hits:
                rep.bad(RULE, m, f"name:{name}", f"'{name}' is read in {qual or '<module>'} but bound nowhere "
                        f"(scope chain, module, builtins): NameError when evaluated", line=line, clause=clause) \
                    .func = _strip_comp(qual)
        else:
            rep.ok(RULE, m, "all-names-bound", f"{scopes} function scopes, every read name bound", clause=clause,
                   nontrivial=False)
    rep.floor("G1 function scopes analysed", n_funcs, floor)


def _strip_comp(qual: str) -> str:
    parts = [p for p in qual.split(".") if p not in ("listcomp", "genexpr", "setcomp", "dictcomp", "lambda")]
    return ".".join(parts)
