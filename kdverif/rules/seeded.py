"""Seeded per-sample streams (C08): generator construction, injection before application, draw source."""
from __future__ import annotations

import ast
from typing import Dict, List, Optional, Set, Tuple

from ..fa import FA, fa_of
from ..model import ClassInfo, FuncInfo, Program
from ..sym import Poly, Term, leaves, term_to_poly, show
from .hooks import Forwarding, Member, Ownership, _lines


def seed_not_none_assumption(fa: FA, attr="seed") -> Dict[Term, bool]:
    """The assumption 'self.<attr> is not None' expressed over the normal form of the tests."""
    none = ("const", None)
    s = ("self", attr)
    pair = tuple(sorted((none, s), key=repr))
    return {("is", pair): False}


def generator_constructions(fa: FA, depth: int = 0) -> List[Tuple[int, ast.Call, Term]]:
    """(node, call, seed term) of np.random.default_rng(...) calls in the function - also through package functions that build the
    generator from their arguments (the seed term is then expressed in the caller's terms)."""
    out = []
    for n, call in fa.calls():
        t = fa.sym.term(call, n)
        f = t[1]
        if f[0] == "global" and (f[1] == "numpy.random.default_rng" or f[1].endswith("random.default_rng")
                                 or f[1] == "default_rng"):
            seed = None
            if t[2]:
                seed = t[2][0]
            for k, v in t[3]:
                if k == "seed":
                    seed = v
            out.append((n, call, seed))
            continue
        # a package function that builds the generator from its arguments (per_sample_rng(seed, idx)): its summary, instantiated
        g = _resolve_package_function(fa, call, f)
        if g is not None and depth < 2:
            from ..fa import fa_of
            ga = fa_of(fa.prog, g)
            inner = generator_constructions(ga, depth + 1)
            if inner:
                ps = g.params()
                if g.cls is not None and not g.is_static:
                    ps = ps[1:]
                binding = {}
                for p_, a_ in zip(ps, t[2]):
                    binding[("param", p_)] = a_
                for k_, v_ in t[3]:
                    binding[("param", k_)] = v_
                for _, _, seed_g in inner:
                    out.append((n, call, _subst(seed_g, binding) if seed_g is not None else None))
    return out


def _resolve_package_function(fa: FA, call: ast.Call, f: Term):
    try:
        r = fa.prog.resolve_expr(fa.fi.module, call.func) if isinstance(call.func, (ast.Name, ast.Attribute)) else None
    except Exception:  # pragma: no cover
        r = None
    if r and r[0] == "func" and r[1] is not fa.fi:
        return r[1]
    return None


def _subst(t, binding):
    if not isinstance(t, tuple):
        return t
    if t in binding:
        return binding[t]
    return tuple(_subst(x, binding) if isinstance(x, tuple) else x for x in t)


def simplify(t: Term, assume) -> Term:
    """Resolve conditional expressions whose test is decided by the assumptions."""
    from ..fa import eval_truth

    if not isinstance(t, tuple):
        return t
    if t and t[0] == "ifexp":
        tv = eval_truth(t[1], assume)
        if tv is True:
            return simplify(t[2], assume)
        if tv is False:
            return simplify(t[3], assume)
    return tuple(simplify(x, assume) if isinstance(x, tuple) else x for x in t)


def seed_form(seed: Term, idx_param: str, seed_attr: str = "seed", assume=None) -> Tuple[Optional[bool], str]:
    """Is the seed expression a function of exactly {self.seed, idx}, affine with a non-zero constant
    coefficient in idx (distinct indices -> distinct seeds)?"""
    if seed is None:
        return False, "generator constructed without a seed"
    seed = simplify(seed, assume or {})
    lf = leaves(seed)
    want = {("self", seed_attr), ("param", idx_param)}
    extra = {x for x in lf if x not in want}
    missing = want - lf
    if missing or extra:
        parts = []
        if missing:
            parts.append("does not depend on " + ", ".join(show(x) for x in sorted(missing, key=repr)))
        if extra:
            parts.append("also depends on " + ", ".join(show(x) for x in sorted(extra, key=repr)))
        return False, f"seed expression {show(seed)} " + " and ".join(parts)
    p = term_to_poly(seed)
    idx = ("param", idx_param)
    sd = ("self", seed_attr)
    if p.degree_in(idx) == 1 and p.coeff_of(idx).const_value() not in (None, 0) and p.degree_in(sd) == 1 \
            and p.coeff_of(sd).const_value() not in (None, 0):
        return True, f"seed = {show(seed)}: affine in (self.{seed_attr}, {idx_param}) with non-zero coefficients"
    return None, f"seed expression {show(seed)} depends on (self.{seed_attr}, {idx_param}) but is not affine; " \
                 f"injectivity in {idx_param} not decided"


def _shared_atoms(fa: FA):
    """[(term, expression, node)] of atomic truth-valued sub-conditions (no and / or / not at the top) that occur in the tests of
    at least two branch nodes."""
    seen: Dict[Term, Set[int]] = {}
    first: Dict[Term, Tuple[ast.AST, int]] = {}

    def atoms(e):
        if isinstance(e, ast.BoolOp):
            for x in e.values:
                yield from atoms(x)
        elif isinstance(e, ast.UnaryOp) and isinstance(e.op, ast.Not):
            yield from atoms(e.operand)
        else:
            yield e
    for n, nd in fa.cfg.nodes.items():
        if nd.kind == "test" and not isinstance(nd.owner, ast.Assert):
            for e in atoms(nd.ast):
                a = fa.sym.term(e, n)
                if isinstance(a, tuple) and a and a[0] == "not":
                    a = a[1]
                if isinstance(a, tuple) and a and a[0] in ("call", "is", "eq", "lt", "le", "in", "eqv", "var", "self"):
                    seen.setdefault(a, set()).add(n)
                    first.setdefault(a, (e, n))
    return [(a, first[a][0], first[a][1]) for a in sorted([a for a, ns in seen.items() if len(ns) >= 2], key=repr)]


class SeededApplication:
    """Injection-before-application analysis for one entry method of a seeded wrapper."""

    def __init__(self, prog: Program, own: Ownership, fwd: Forwarding):
        self.prog, self.own, self.fwd = prog, own, fwd

    def application_sites(self, fa: FA, member: Member) -> List[int]:
        out = []
        for n, call in fa.calls():
            m = self.fwd.access_of(fa, call.func, n)
            if m == member:
                out.append(n)
        return out

    def _handed_to_package_function(self, fa: FA, member: Member) -> Set[int]:
        """Nodes where the member object is passed as an argument to a module-level function of the package."""
        out = set()
        for n, call in fa.calls():
            if not isinstance(call.func, (ast.Name, ast.Attribute)):
                continue
            try:
                r = self.prog.resolve_expr(fa.fi.module, call.func)
            except Exception:  # pragma: no cover
                r = None
            if not (r and r[0] == "func" and r[1].cls is None):
                continue
            for a in list(call.args) + [k.value for k in call.keywords]:
                try:
                    if self.fwd.access_of(fa, a, n) == member:
                        out.add(n)
                except Exception:  # pragma: no cover
                    pass
        return out

    def check_member(self, C: ClassInfo, fi: FuncInfo, member: Member, types: Set[tuple], needs: Dict[str, bool],
                     assume: Dict[Term, bool], gen_terms: Set[Term], _split: bool = True, _needed=None
                     ) -> List[Tuple[Optional[bool], str, int]]:
        """-> [(verdict, detail, line)] one per application site of the member (after pruning)."""
        res = []
        needed = self.own.needed_classes(types, needs) if _needed is None else _needed
        if not needed:
            return res
        fa = fa_of(self.prog, fi).prune(assume)
        if _split:
            # correlated tests ('if seeded and accepts: inject' ... 'if joint: apply' with accepts = joint or ...): the same atomic
            # condition is tested at several places; decide each combination of such atoms on its own pruned CFG
            from ..fa import eval_truth
            atoms_x = _shared_atoms(fa)
            atoms_x = [(a, e, nn) for a, e, nn in atoms_x if a not in assume and ("not", a) not in assume
                       and eval_truth(a, assume) is None][:3]
            atoms = [a for a, _, _ in atoms_x]
            if atoms:
                import itertools
                by_line: Dict[int, List[Tuple[Optional[bool], str]]] = {}
                for vals in itertools.product((True, False), repeat=len(atoms)):
                    case = dict(assume)
                    case.update(dict(zip(atoms, vals)))
                    # an isinstance atom about this member restricts which of the classes that need the generator the case
                    # is about (those its class tuple admits / does not admit); a case about no such class is vacuous
                    sub = list(needed)
                    for (a, e, nn), v in zip(atoms_x, vals):
                        if isinstance(e, ast.Call) and isinstance(e.func, ast.Name) and e.func.id == "isinstance" and len(e.args) == 2:
                            try:
                                about = self.fwd.access_of(fa, e.args[0], nn) == member
                            except Exception:  # pragma: no cover
                                about = False
                            classes = self.own.guard_classes(fa.fi, e.args[1]) if about else None
                            if classes is not None:
                                sub = [k for k in sub if any(g in k.mro() for g in classes) == v]
                    if not sub:
                        continue
                    for ok_, why_, line_ in self.check_member(C, fi, member, types, needs, case, gen_terms, _split=False,
                                                              _needed=sub):
                        by_line.setdefault(line_, []).append((ok_, why_))
                for line_, vs in sorted(by_line.items()):
                    bad = [v for v in vs if v[0] is False]
                    unk = [v for v in vs if v[0] is None]
                    res.append((False, bad[0][1], line_) if bad else ((None, unk[0][1], line_) if unk else (True, vs[0][1], line_)))
                return res
        self.fwd._undecided_guards = []
        removed, narrow = self.fwd.guard_edges(fa, member, needed)
        undecided_guards = list(self.fwd._undecided_guards)
        # aliases: a loop over self.<list> that holds this attribute
        alias_lists = [lst for lst, attrs in self.own.types.aliases(C).items() if member.kind == "attr"
                       and member.attr in attrs]
        alias_members = [Member(lst, "elem") for lst in alias_lists]
        for am in alias_members:
            r2, n2 = self.fwd.guard_edges(fa, am, needed)
            removed += r2
            narrow += n2
        cfg_unguarded = fa.cfg
        if removed:
            fa = fa.with_cfg(fa.cfg.pruned(removed)).prune(assume)
        cfg = fa.cfg

        def arg_is_generator(fa_, n, call, fi_):
            if not call.args and not call.keywords:
                return False
            a = call.args[0] if call.args else call.keywords[0].value
            return fa_.sym.term(a, n) in gen_terms

        direct, _ = self.fwd.forwarding_nodes(C, fi, fa, member, {"set_rng"}, needed, arg_is_generator, 0)
        sites = self.application_sites(fa, member)
        for site in sites:
            line = cfg.nodes[site].lineno
            if member.kind == "attr":
                through = set(direct)
                # complete forwarding loops over an alias list
                for am in alias_members:
                    nodes, _ = self.fwd.forwarding_nodes(C, fi, fa, am, {"set_rng"}, needed, arg_is_generator, 0)
                    for n, nd in cfg.nodes.items():
                        if nd.kind == "next" and self.fwd._loop_source(fa, n, _lv(nd.owner)) == am.attr:
                            body = cfg.out_edge(n, True)
                            if body is not None and (body in nodes or not cfg.reachable(body, n, avoid=nodes)) \
                                    and not cfg.reachable(body, site, avoid={n}):
                                # the loop completes (is exhausted) before the application?  its exit edge
                                # must lie on every path: use the loop's 'next' node as pass-through point
                                through.add(n)
                ok = cfg.must_pass(through, src=cfg.entry, dst=site)
                start = cfg.entry
            else:
                # element members: within the iteration that applies the element
                t = fa.sym.term(fa.cfg.calls_at(site)[0].func, site)
                loop_next = _loop_next_of(fa, self.fwd, site, member)
                if loop_next is None:
                    res.append((None, f"application of {member} at line {line} outside a loop over the member", line))
                    continue
                ok = cfg.must_pass(set(direct), src=loop_next, dst=site)
                start = loop_next
                through = set(direct)
                if not ok:
                    # a complete pre-pass: an earlier loop over the same collection that injects into every element (no
                    # break / return inside - judged before the isinstance guards were resolved, another element may fail
                    # them) and is exhausted before the applying loop starts
                    from .hooks import _early_exits
                    pre = set()
                    for n2, nd2 in cfg.nodes.items():
                        if nd2.kind != "next" or n2 == loop_next or not isinstance(nd2.owner, ast.For):
                            continue
                        if self.fwd._loop_source(fa, n2, _lv(nd2.owner)) != member.attr:
                            continue
                        body = cfg.out_edge(n2, True)
                        if body is None or _early_exits(cfg_unguarded, nd2.owner):
                            continue
                        if (body in direct or not cfg.reachable(body, n2, avoid=set(direct))) and \
                                not cfg.reachable(body, site, avoid={n2}):
                            pre.add(n2)
                    if pre and cfg.must_pass(pre, src=cfg.entry, dst=site):
                        ok = True
            if ok:
                res.append((True, f"{member} applied at line {line} only after set_rng(<generator seeded with "
                                  f"seed and idx>)", line))
            elif cfg.must_pass(through | self._handed_to_package_function(fa, member), src=start, dst=site):
                # on every path without a visible injection the member is handed to a function of the package that was not
                # inlined (a public helper of another module): it may inject there - not decided here
                res.append((None, f"{member} is handed to a package function before line {line}; whether that function injects "
                                  f"the per-sample generator is not analysed", line))
            elif undecided_guards and not narrow:
                res.append((None, f"the injection before line {line} is guarded by {member}.{undecided_guards[0][1]}, a predicate whose "
                                  f"value for the classes that hold a generator is not decided by the class alone", line))
            else:
                p = cfg.path_avoiding(start, site, avoid=through)
                why = f"{member} is applied at line {line} on a path on which the per-sample generator was not " \
                      f"injected (lines {_lines(cfg, p)})"
                for n, gs, miss in narrow:
                    why += f"; isinstance guard ({', '.join(gs)}) at line {cfg.nodes[n].lineno} does not admit " \
                           f"{', '.join(miss[:6])}{'...' if len(miss) > 6 else ''}"
                res.append((False, why, line))
        return res


    # ---- interprocedural: entry method -> helpers called on self ------------------------------------------------
    def summarize(self, C: ClassInfo, fi: FuncInfo, member: Member, needed, assume, depth=0, _stack=()):
        """-> (exposed, must_inject): ``exposed`` = [(function, line, path text)] applications of the member that are not
        preceded, inside this function (helpers included), by an injection of a per-sample generator on every path;
        ``must_inject`` = every normal-return path of the function injects such a generator into the member."""
        key = (C.qualname, fi.qualname, fi.module.name, str(member))
        if key in _stack or depth > 4:
            return [], False
        fa = fa_of(self.prog, fi).prune(assume)
        if depth == 0:
            self.summary_undecided = False
        self.fwd._undecided_guards = []
        removed, narrow = self.fwd.guard_edges(fa, member, needed)
        if self.fwd._undecided_guards and not narrow:
            self.summary_undecided = True
        alias_members = [Member(lst, "elem") for lst, attrs in self.own.types.aliases(C).items()
                         if member.kind == "attr" and member.attr in attrs]
        for am in alias_members:
            r2, _ = self.fwd.guard_edges(fa, am, needed)
            removed += r2
        if removed:
            fa = fa.with_cfg(fa.cfg.pruned(removed)).prune(assume)
        cfg = fa.cfg
        gen_terms = {fa.sym.term(call, n) for n, call, seed in generator_constructions(fa)}

        def arg_is_generator(fa_, n, call, fi_):
            if not call.args and not call.keywords:
                return False
            a = call.args[0] if call.args else call.keywords[0].value
            return fa_.sym.term(a, n) in gen_terms

        inject, _ = self.fwd.forwarding_nodes(C, fi, fa, member, {"set_rng"}, needed, arg_is_generator, 0)
        inject = set(inject)
        # a complete forwarding loop over a list that holds this member (self.transforms = [self.a, self.b, ...])
        for am in alias_members:
            nodes, _ = self.fwd.forwarding_nodes(C, fi, fa, am, {"set_rng"}, needed, arg_is_generator, 0)
            for n, nd in cfg.nodes.items():
                if nd.kind == "next" and self.fwd._loop_source(fa, n, _lv(nd.owner)) == am.attr:
                    body = cfg.out_edge(n, True)
                    if body is not None and (body in nodes or not cfg.reachable(body, n, avoid=nodes)):
                        inject.add(n)
        applies = [(n, None) for n in self.application_sites(fa, member)]
        for n, call in fa.calls():
            f = call.func
            if isinstance(f, ast.Attribute) and isinstance(f.value, ast.Name) and f.value.id == fa.self_name:
                tgt = C.lookup(f.attr)
                if tgt is None or tgt is fi or f.attr in ("set_rng",):
                    continue
                exp, must = self.summarize(C, tgt, member, needed, assume, depth + 1, _stack + (key,))
                if must:
                    inject.add(n)
                for e in exp:
                    applies.append((n, e))
        exposed = []
        for n, inner in applies:
            if n in inject and inner is not None:
                # the helper both injects (on every path) and has an exposed application: the exposure is the helper's
                pass
            if cfg.must_pass(inject - {n}, src=cfg.entry, dst=n):
                continue
            if inner is None:
                p = cfg.path_avoiding(cfg.entry, n, avoid=inject)
                exposed.append((fi.qualname, cfg.nodes[n].lineno, f"{fi.qualname} lines {_lines(cfg, p)}"))
            else:
                exposed.append((inner[0], inner[1], f"{fi.qualname} line {cfg.nodes[n].lineno} -> {inner[2]}"))
        must_inject = bool(inject) and cfg.must_pass(inject)
        return exposed, must_inject


def _lv(loop: ast.For) -> str:
    tgt = loop.target
    if isinstance(tgt, ast.Name):
        return tgt.id
    if isinstance(tgt, ast.Tuple) and len(tgt.elts) == 2 and isinstance(tgt.elts[1], ast.Name):
        return tgt.elts[1].id
    return ""


def _loop_next_of(fa: FA, fwd: Forwarding, site: int, member: Member) -> Optional[int]:
    """The 'next' node of the loop whose element the application at ``site`` uses."""
    call = None
    for c in fa.cfg.calls_at(site):
        if fwd.access_of(fa, c.func, site) == member:
            call = c
            break
    if call is None:
        return None
    t = fa.sym.term(call.func, site)
    base = t if t[0] == "var" else (t[1] if t[0] == "attr" else None)
    if base is not None and base[0] == "var" and len(base[2]) == 1:
        (d,) = base[2]
        if fa.cfg.nodes[d].kind == "next":
            return d
    return None
