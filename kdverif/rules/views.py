"""Filtered views of a member list, expanded before the forwarding analysis.

A hook (set_rng, worker_init_fn, ...) has to reach every member that needs it.  Code that walks the member list itself under an
``if`` is judged by the guard rules of ``hooks.py``.  The same decision is often taken elsewhere: the constructor pre-computes
``self._rng_members = [t for t in self.members if <filter>]``, a property returns such a list, a local holds it, or the members
are zipped with a list that repeats the received argument.  This module rewrites those spellings - on a private copy of the
function - into the guarded walk

    for t in self.members:
        if <filter on t>:
            <body>

so that one rule decides all of them.  What is assumed: an attribute view computed by the constructor chain is assigned exactly
once in the class (checked here) and the member list is not changed afterwards (the same assumption the member model makes).
Nothing here judges anything; an unrecognised shape is left as it is (and stays undecided in the caller)."""
import ast
import copy
from typing import List, Optional, Tuple

from ..model import ClassInfo, FuncInfo

V = "__view_elem__"


def _me(fi: FuncInfo) -> Optional[str]:
    p = fi.params()
    return p[0] if p and fi.cls is not None and not fi.is_static else None


class _Subst(ast.NodeTransformer):
    def __init__(self, mapping):
        self.mapping = mapping

    def visit_Name(self, node):
        r = self.mapping.get(node.id)
        if r is None:
            return node
        return ast.copy_location(copy.deepcopy(r), node) if isinstance(r, ast.AST) else ast.copy_location(
            ast.Name(id=r, ctx=node.ctx), node)


def _subst(e: ast.AST, mapping) -> ast.AST:
    return _Subst(mapping).visit(copy.deepcopy(e))


def _names(e: ast.AST) -> set:
    return {n.id for n in ast.walk(e) if isinstance(n, ast.Name)}


def _stores_of(own, C: ClassInfo, attr: str) -> List[Tuple[FuncInfo, ast.Assign, bool]]:
    """every 'self.<attr> = value' in the methods of C's MRO: (method, statement, statement is at the top level of a constructor)"""
    out = []
    seen = set()
    for k in C.mro():
        if not hasattr(k, "methods"):
            continue
        for name, f in k.methods.items():
            if id(f.node) in seen:
                continue
            seen.add(id(f.node))
            me = _me(f)
            if me is None:
                continue
            for st in ast.walk(f.node):
                tgs = []
                if isinstance(st, ast.Assign):
                    tgs = st.targets
                elif isinstance(st, (ast.AugAssign, ast.AnnAssign)):
                    tgs = [st.target]
                for t in tgs:
                    for y in ast.walk(t):
                        if isinstance(y, ast.Attribute) and y.attr == attr and isinstance(y.value, ast.Name) and y.value.id == me \
                                and isinstance(y.ctx, ast.Store):
                            top = isinstance(st, ast.Assign) and len(st.targets) == 1 and st.targets[0] is y and \
                                name == "__init__" and st in f.node.body
                            out.append((f, st, top))
    return out


def resolve_view(own, C: ClassInfo, fi: FuncInfo, e: ast.AST, depth: int = 0) -> Optional[Tuple[str, List[ast.AST]]]:
    """e, an expression in method fi of class C -> (member list attribute M, filter conditions over the element named V) when e
    denotes the elements of self.M that pass the conditions, in order."""
    if depth > 6:
        return None
    me = _me(fi)
    if me is None:
        return None
    if isinstance(e, ast.Call) and isinstance(e.func, ast.Name) and e.func.id in ("list", "tuple") and len(e.args) == 1 \
            and not e.keywords:
        return resolve_view(own, C, fi, e.args[0], depth + 1)
    if isinstance(e, ast.Attribute) and isinstance(e.value, ast.Name) and e.value.id == me:
        tgt = C.lookup(e.attr)
        if tgt is not None and tgt.is_property:
            body = [x for x in tgt.node.body if not (isinstance(x, ast.Expr) and isinstance(x.value, ast.Constant))]
            if len(body) == 1 and isinstance(body[0], ast.Return) and body[0].value is not None:
                return resolve_view(own, C, tgt, body[0].value, depth + 1)
            return None
        if tgt is not None:
            return None
        stores = _stores_of(own, C, e.attr)
        if len(stores) == 1 and stores[0][2]:
            f, st, _ = stores[0]
            r = resolve_view(own, C, f, st.value, depth + 1)
            if r is not None:
                return r
        return (e.attr, [])  # not a view of something else: a list of its own
    if isinstance(e, (ast.ListComp, ast.GeneratorExp)) and len(e.generators) == 1 and not e.generators[0].is_async:
        g = e.generators[0]
        if not isinstance(e.elt, ast.Name):
            return None
        if isinstance(g.target, ast.Name) and g.target.id == e.elt.id:
            src = resolve_view(own, C, fi, g.iter, depth + 1)
            if src is None:
                return None
            conds = list(src[1])
            for c in g.ifs:
                c2 = _subst(c, {g.target.id: V})
                if not _closed(c2, me):
                    return None
                conds.append(_rename_self(c2, me))
            return src[0], conds
        # [t for t, flag in zip(self.M, self.F) if flag]  with  self.F = [<expr of x> for x in self.M]
        if isinstance(g.target, ast.Tuple) and len(g.target.elts) == 2 and all(isinstance(x, ast.Name) for x in g.target.elts) \
                and g.target.elts[0].id == e.elt.id and isinstance(g.iter, ast.Call) and isinstance(g.iter.func, ast.Name) \
                and g.iter.func.id == "zip" and len(g.iter.args) == 2 and not g.iter.keywords:
            src = resolve_view(own, C, fi, g.iter.args[0], depth + 1)
            if src is None or src[1]:
                return None  # the flag list is aligned with the unfiltered member list only
            flag_expr = _flag_list(own, C, fi, g.iter.args[1], src[0], depth + 1)
            if flag_expr is None:
                return None
            conds = []
            for c in g.ifs:
                c2 = _subst(c, {g.target.elts[0].id: V, g.target.elts[1].id: flag_expr})
                if not _closed(c2, me):
                    return None
                conds.append(_rename_self(c2, me))
            return src[0], conds
    return None


def _flag_list(own, C, fi, e, M: str, depth: int) -> Optional[ast.AST]:
    """e denotes [<expr of x> for x in self.M] -> that expression over V"""
    me = _me(fi)
    if isinstance(e, ast.Attribute) and isinstance(e.value, ast.Name) and e.value.id == me and C.lookup(e.attr) is None:
        stores = _stores_of(own, C, e.attr)
        if len(stores) == 1 and stores[0][2]:
            f, st, _ = stores[0]
            return _flag_list(own, C, f, st.value, M, depth + 1)
        return None
    if isinstance(e, (ast.ListComp, ast.GeneratorExp)) and len(e.generators) == 1 and not e.generators[0].ifs and \
            isinstance(e.generators[0].target, ast.Name):
        g = e.generators[0]
        src = resolve_view(own, C, fi, g.iter, depth + 1)
        if src is None or src[0] != M or src[1]:
            return None
        ex = _subst(e.elt, {g.target.id: V})
        if not _closed(ex, me):
            return None
        return _rename_self(ex, me)
    return None


_SELF = "__view_self__"


def _closed(e: ast.AST, me: str) -> bool:
    """the expression reads only the element, the instance and names that look global (classes, builtins)"""
    import builtins
    for n in _names(e):
        if n in (V, me):
            continue
        if hasattr(builtins, n) or n[:1].isupper() or n in ("np", "torch"):
            continue
        return False
    return not any(isinstance(x, (ast.Lambda, ast.NamedExpr, ast.Await, ast.Yield, ast.YieldFrom)) for x in ast.walk(e))


def _rename_self(e: ast.AST, me: str) -> ast.AST:
    return _subst(e, {me: _SELF})


def _single_def(fn: ast.AST, name: str) -> Optional[ast.AST]:
    """the value of the only binding of a local (one plain assignment at the top level of the function body)"""
    binds = []
    for st in ast.walk(fn):
        if isinstance(st, (ast.Assign, ast.AugAssign, ast.AnnAssign, ast.For, ast.With, ast.NamedExpr, ast.comprehension)):
            tg = []
            if isinstance(st, ast.Assign):
                tg = st.targets
            elif isinstance(st, (ast.AugAssign, ast.AnnAssign, ast.For, ast.NamedExpr, ast.comprehension)):
                tg = [st.target]
            elif isinstance(st, ast.With):
                tg = [i.optional_vars for i in st.items if i.optional_vars is not None]
            for t in tg:
                if any(isinstance(y, ast.Name) and y.id == name for y in ast.walk(t)):
                    binds.append(st)
    if len(binds) == 1 and isinstance(binds[0], ast.Assign) and len(binds[0].targets) == 1 and \
            isinstance(binds[0].targets[0], ast.Name) and binds[0] in fn.body:
        return binds[0].value
    return None


def _bind_defaults(node: ast.FunctionDef, n_base: int) -> bool:
    """optional parameters the hook's base signature does not have are fixed to their constant defaults (the framework calls the
    hook with the base signature)"""
    a = node.args
    pos = a.posonlyargs + a.args
    defaults = [None] * (len(pos) - len(a.defaults)) + list(a.defaults)
    mapping = {}
    for i, (p, d) in enumerate(zip(pos, defaults)):
        if i >= n_base and isinstance(d, ast.Constant) and (d.value is None or isinstance(d.value, (bool, int, str))):
            mapping[p.arg] = d
    for p, d in zip(a.kwonlyargs, a.kw_defaults):
        if isinstance(d, ast.Constant) and (d.value is None or isinstance(d.value, (bool, int, str))):
            mapping[p.arg] = d
    # never re-bound in the body
    for st in ast.walk(node):
        if isinstance(st, ast.Name) and isinstance(st.ctx, (ast.Store, ast.Del)) and st.id in mapping:
            del mapping[st.id]
    if not mapping:
        return False
    changed = False
    for i, st in enumerate(node.body):
        if any(isinstance(x, ast.Name) and x.id in mapping for x in ast.walk(st)):
            node.body[i] = _Subst(mapping).visit(st)
            changed = True
    return changed


def expand(own, prog, C: ClassInfo, fi: FuncInfo, hook: str) -> FuncInfo:
    """fi with its filtered views of member lists spelled as guarded walks over the member list; fi itself when nothing applies."""
    if fi.cls is None or not isinstance(C, ClassInfo):
        return fi
    me = _me(fi)
    if me is None:
        return fi
    cache = own.__dict__.setdefault("_view_cache", {})
    key = (id(fi.node), id(C), hook)
    if key in cache:
        return cache[key]
    node = copy.deepcopy(fi.node)
    sfi = FuncInfo(fi.name, fi.qualname, fi.module, node, fi.cls)
    changed = False
    # the hook's base signature: the rootmost definition of the method in the MRO
    n_base = None
    for k in reversed(C.mro()):
        if hasattr(k, "methods") and hook in k.methods and fi.name == hook:
            n_base = len(k.methods[hook].params())
            break
    if n_base is not None and len(fi.params()) > n_base:
        if _bind_defaults(node, n_base):
            from ..normal import normalise_function
            normalise_function(node)
            changed = True
    for loop in [x for x in ast.walk(node) if isinstance(x, ast.For)]:
        # for a, b in zip(X, Y) with Y = [E] * len(X): b is E
        it = loop.iter
        if isinstance(it, ast.Call) and isinstance(it.func, ast.Name) and it.func.id == "zip" and len(it.args) == 2 and \
                not it.keywords and isinstance(loop.target, ast.Tuple) and len(loop.target.elts) == 2 and \
                all(isinstance(x, ast.Name) for x in loop.target.elts):
            Y = it.args[1]
            yv = _single_def(node, Y.id) if isinstance(Y, ast.Name) else Y
            if isinstance(yv, ast.BinOp) and isinstance(yv.op, ast.Mult):
                lst, cnt = (yv.left, yv.right) if isinstance(yv.left, ast.List) else (yv.right, yv.left)
                if isinstance(lst, ast.List) and len(lst.elts) == 1 and isinstance(lst.elts[0], (ast.Name, ast.Constant)) and \
                        isinstance(cnt, ast.Call) and isinstance(cnt.func, ast.Name) and cnt.func.id == "len" and \
                        len(cnt.args) == 1 and ast.dump(cnt.args[0]) == ast.dump(it.args[0]):
                    b = loop.target.elts[1]
                    loop.body.insert(0, ast.copy_location(ast.Assign(targets=[ast.Name(id=b.id, ctx=ast.Store())],
                                                                      value=copy.deepcopy(lst.elts[0]), lineno=loop.lineno), loop))
                    loop.target = loop.target.elts[0]
                    loop.iter = it.args[0]
                    changed = True
        if not isinstance(loop.target, ast.Name):
            continue
        it = loop.iter
        if isinstance(it, ast.Name):
            v = _single_def(node, it.id)
            if v is None:
                continue
            it = v
        if isinstance(it, ast.Attribute) and isinstance(it.value, ast.Name) and it.value.id == me and \
                C.lookup(it.attr) is None and not _stores_of(own, C, it.attr):
            continue
        r = resolve_view(own, C, sfi, it)
        if r is None:
            continue
        M, conds = r
        same = isinstance(loop.iter, ast.Attribute) and isinstance(loop.iter.value, ast.Name) and loop.iter.value.id == me \
            and loop.iter.attr == M
        if same and not conds:
            continue
        loop.iter = ast.copy_location(ast.Attribute(value=ast.Name(id=me, ctx=ast.Load()), attr=M, ctx=ast.Load()), loop.iter)
        if conds:
            cs = [_subst(c, {V: loop.target.id, _SELF: me}) for c in conds]
            test = cs[0] if len(cs) == 1 else ast.BoolOp(op=ast.And(), values=cs)
            body = loop.body
            loop.body = [ast.copy_location(ast.If(test=test, body=body, orelse=[]), loop)]
        changed = True
    if not changed:
        cache[key] = fi
        return fi
    ast.fix_missing_locations(node)
    from ..normal import normalise_function
    normalise_function(node)
    cache[key] = sfi
    return sfi
