"""G3 - ownership / hook propagation.

For a class family with a hook method (``set_rng``, ``worker_init_fn`` / ``_worker_init_fn``,
``scale_strength`` / ``_scale_strength``): every owned member whose type *needs* the hook must be
reached by the hook on every path to a normal return of the method the concrete class resolves the
hook to - directly (``self.a.h(arg)``), through a loop over a list member, or through a ``super()`` /
``self`` call that does.  ``isinstance`` guards in front of the forwarding call are accepted iff they
admit every class that needs the hook.
"""
from __future__ import annotations

import ast
from dataclasses import dataclass
from typing import Callable, Dict, Iterable, List, Optional, Set, Tuple

from ..cfg import walk_expr
from ..fa import FA, fa_of
from ..model import AnalysisError, ClassInfo, FuncInfo, Program
from ..sym import Term, leaves
from ..types_ import AttrTypes, flatten, walk_expr_body, _is_super

HOOKISH = {"set_rng", "worker_init_fn", "_worker_init_fn", "scale_strength", "_scale_strength"}


@dataclass(frozen=True)
class Member:
    attr: str
    kind: str  # 'attr' | 'elem' | 'elem_attr'
    sub: str = ""

    def __str__(self):
        if self.kind == "attr":
            return f"self.{self.attr}"
        if self.kind == "elem":
            return f"self.{self.attr}[*]"
        return f"self.{self.attr}[*].{self.sub}"


class Ownership:
    def __init__(self, prog: Program, family_root: str = "KDTransform", exclude_attrs=("dataset", "datasets")):
        self.prog = prog
        self.exclude_attrs = set(exclude_attrs)  # the wrapped dataset layer(s): not owned transforms
        self.types = AttrTypes(prog)
        self.root = prog.cls(family_root)
        self.family = prog.subclasses(self.root)
        self._tl_cache: Dict[Tuple[str, str], bool] = {}
        self._needs: Dict[str, Dict[str, bool]] = {}

    # ---- which attributes are transforms -----------------------------------------------------
    def in_family(self, c: ClassInfo) -> bool:
        return self.root in c.mro()

    def transform_like_param(self, cls: ClassInfo, attr: str) -> bool:
        """An attribute that stores a constructor parameter is used like a transform somewhere in the
        class hierarchy: called with a ``ctx`` argument, hooked, or isinstance-tested against the
        transform family."""
        key = (cls.qualname, attr)
        if key in self._tl_cache:
            return self._tl_cache[key]
        res = False
        for c in cls.mro_classes():
            for fi in c.methods.values():
                ps = fi.params()
                if not ps or fi.is_static:
                    continue
                selfn = ps[0]
                for n in walk_expr_body(fi.node):
                    if not isinstance(n, ast.Call):
                        continue
                    f = n.func
                    if _is_self_attr(f, selfn, attr):
                        if any(k.arg == "ctx" for k in n.keywords) or any(
                                isinstance(a, ast.Name) and a.id == "ctx" for a in n.args):
                            res = True
                    if isinstance(f, ast.Attribute) and f.attr in HOOKISH and _is_self_attr(f.value, selfn, attr):
                        res = True
                    if isinstance(f, ast.Name) and f.id == "isinstance" and len(n.args) == 2 and _is_self_attr(
                            n.args[0], selfn, attr):
                        for k in self.guard_classes(fi, n.args[1]) or []:
                            if self.in_family(k):
                                res = True
        self._tl_cache[key] = res
        return res

    def guard_classes(self, fi: FuncInfo, e: ast.AST) -> Optional[List[ClassInfo]]:
        """Classes named by the second argument of an isinstance call (None if not resolvable)."""
        if isinstance(e, ast.Tuple):
            out = []
            for x in e.elts:
                r = self.guard_classes(fi, x)
                if r is None:
                    return None
                out += r
            return out
        r = self.prog.resolve_expr(fi.module, e)
        if r and r[0] == "class":
            return [r[1]]
        if r and r[0] == "ext":
            return []  # an external class admits no package class
        # self._TUPLE / Cls._TUPLE class-level constant
        if isinstance(e, ast.Attribute) and isinstance(e.value, ast.Name) and fi.cls is not None:
            for c in fi.cls.mro_classes():
                if e.attr in c.class_attrs:
                    return self.guard_classes(_as_fi(c, fi), c.class_attrs[e.attr])
        return None

    def members(self, cls: ClassInfo) -> Dict[Member, Set[tuple]]:
        """Owned members that may hold transforms: member -> set of element types."""
        out: Dict[Member, Set[tuple]] = {}
        at = self.types.of(cls)
        for attr, ts in at.items():
            if attr in self.exclude_attrs:
                continue
            for t in ts:
                if t[0] == "list":
                    elems = flatten({t})
                    keep = {e for e in elems if self._maybe_transform(cls, attr, e)}
                    if keep:
                        out.setdefault(Member(attr, "elem"), set()).update(keep)
                else:
                    if self._maybe_transform(cls, attr, t):
                        kind = "attr"
                        if t[0] == "param" and self.asserted_family_param(cls, t[1]) == "elem":
                            kind = "elem"
                        out.setdefault(Member(attr, kind), set()).add(t)
        return out

    def _maybe_transform(self, cls, attr, t) -> bool:
        if t[0] == "tf?":
            return True
        if t[0] == "inst":
            return self.in_family(t[1])
        if t[0] == "param":
            return self.transform_like_param(cls, attr) or bool(self.asserted_family_param(cls, t[1]))
        return False

    def asserted_family_param(self, cls: ClassInfo, param: str) -> Optional[str]:
        """The constructor asserts that the parameter (or each of its elements) is an instance of the family:
        ``assert isinstance(p, K)`` / ``assert all(isinstance(c, K) for c in p)``."""
        for owner, fi in self.types.init_chain(cls):
            for st in ast.walk(fi.node):
                if not isinstance(st, ast.Assert):
                    continue
                for y in ast.walk(st.test):
                    if isinstance(y, ast.Call) and isinstance(y.func, ast.Name) and y.func.id == "isinstance" and len(y.args) == 2:
                        ks = self.guard_classes(fi, y.args[1]) or []
                        if not any(self.in_family(k) for k in ks):
                            continue
                        subj = y.args[0]
                        if isinstance(subj, ast.Name) and subj.id == param:
                            return "attr"
                        # element of a comprehension over the parameter
                        for g in ast.walk(st.test):
                            if isinstance(g, ast.GeneratorExp) and isinstance(g.generators[0].iter, ast.Name) \
                                    and g.generators[0].iter.id == param:
                                return "elem"
        return None

    # ---- needs-the-hook fixpoint ---------------------------------------------------------------
    def needs(self, kind: str) -> Dict[str, bool]:
        """kind = 'rng': the class (transitively) holds a generator;  'scale': supports strength scaling."""
        if kind in self._needs:
            return self._needs[kind]
        res = {c.qualname: False for c in self.family}
        for c in self.family:
            if kind == "rng":
                at = self.types.of(c)
                if any(("gen",) in ts for ts in at.values()):
                    res[c.qualname] = True
            elif kind == "scale":
                f = c.lookup("_scale_strength")
                if f is not None and f.cls != self.root:
                    res[c.qualname] = True
            elif kind == "any":
                res[c.qualname] = True
        changed = True
        while changed:
            changed = False
            for c in self.family:
                if res[c.qualname]:
                    continue
                for m, ts in self.members(c).items():
                    if any(self.type_needs(t, res) for t in ts):
                        res[c.qualname] = True
                        changed = True
                        break
        self._needs[kind] = res
        return res

    def type_needs(self, t: tuple, res: Dict[str, bool]) -> bool:
        if t[0] in ("tf?", "param"):
            return True
        if t[0] == "inst":
            return res.get(t[1].qualname, False)
        return False

    def needed_classes(self, ts: Set[tuple], res: Dict[str, bool]) -> List[ClassInfo]:
        """The concrete classes a member of these types may be, restricted to those needing the hook."""
        out = []
        if any(t[0] in ("tf?", "param") for t in ts):
            out = [c for c in self.family if res[c.qualname]]
        for t in ts:
            if t[0] == "inst" and res.get(t[1].qualname, False) and t[1] not in out:
                out.append(t[1])
        return out


def _as_fi(c: ClassInfo, fi: FuncInfo) -> FuncInfo:
    """A FuncInfo whose module is the module of class c (for resolving names in class attributes)."""
    return FuncInfo(fi.name, fi.qualname, c.module, fi.node, c)


def _is_self_attr(e, selfn, attr) -> bool:
    return isinstance(e, ast.Attribute) and e.attr == attr and isinstance(e.value, ast.Name) and e.value.id == selfn


# --------------------------------------------------------------------------------------------------
# forwarding analysis
# --------------------------------------------------------------------------------------------------
class Forwarding:
    def __init__(self, prog: Program, own: Ownership):
        self.prog = prog
        self.own = own

    def members(self, C: ClassInfo) -> Dict[Member, Set[tuple]]:
        """Typed members (constructor analysis) plus members discovered by *use*: a receiver of a hook
        call, of an ``isinstance(<recv>, <family class>)`` test or of a call with a ``ctx`` argument that
        is reached through ``self`` (directly, as a loop element, or as an attribute of a loop element)."""
        out = {m: set(ts) for m, ts in self.own.members(C).items()}
        typed_attrs = {m.attr for m in out}
        for K in C.mro_classes():
            for fi in K.methods.values():
                if fi.is_static or not fi.params():
                    continue
                fa = fa_of(self.prog, fi)
                for n, call in fa.calls():
                    recvs = []
                    f = call.func
                    if isinstance(f, ast.Attribute) and f.attr in HOOKISH and not _is_super(f.value):
                        recvs.append(f.value)
                    if isinstance(f, ast.Name) and f.id == "isinstance" and len(call.args) == 2:
                        ks = self.own.guard_classes(fi, call.args[1]) or []
                        if any(self.own.in_family(k) for k in ks):
                            recvs.append(call.args[0])
                    if any(k.arg == "ctx" for k in call.keywords):
                        recvs.append(f)
                    for r in recvs:
                        m = self.access_of(fa, r, n)
                        if m is None or m in out or m.attr in self.own.exclude_attrs:
                            continue
                        if m.attr not in self.own.types.of(C):
                            continue  # a property / inherited external attribute, not constructor-assigned state
                        if m.kind == "attr" and m.attr in typed_attrs:
                            continue
                        if m.kind == "attr" and m.attr not in self.own.types.of(C):
                            continue  # not an attribute the constructor chain assigns (e.g. self.dataset via base)
                        if m.kind == "attr" and not any(t[0] in ("param", "tf?") for t in self.own.types.of(C)[m.attr]):
                            continue
                        out.setdefault(m, set()).add(("tf?",))
        return out

    def _predicate_value(self, K: ClassInfo, prop: str, depth: int = 4):
        """Value of a boolean property for instances of class K when it is decided by the class alone: 'return <constant>',
        'return not self.<p>', 'return type(self).m != Base.m' (method identity through the MRO); None otherwise."""
        if depth <= 0:
            return None
        f = K.lookup(prop)
        if f is None or not f.is_property:
            return None
        body = [x for x in f.node.body if not (isinstance(x, ast.Expr) and isinstance(x.value, ast.Constant))]
        if len(body) != 1 or not isinstance(body[0], ast.Return) or body[0].value is None:
            return None
        me = f.params()[0] if f.params() else "self"

        def ev(e):
            if isinstance(e, ast.Constant) and isinstance(e.value, bool):
                return e.value
            if isinstance(e, ast.UnaryOp) and isinstance(e.op, ast.Not):
                v = ev(e.operand)
                return None if v is None else (not v)
            if isinstance(e, ast.Attribute) and isinstance(e.value, ast.Name) and e.value.id == me:
                return self._predicate_value(K, e.attr, depth - 1)
            if isinstance(e, ast.Compare) and len(e.ops) == 1 and isinstance(e.ops[0], (ast.NotEq, ast.IsNot, ast.Eq, ast.Is)):
                def meth(x):
                    # type(self).m  /  Base.m
                    if isinstance(x, ast.Attribute):
                        if isinstance(x.value, ast.Call) and isinstance(x.value.func, ast.Name) and x.value.func.id == "type" and \
                                x.value.args and isinstance(x.value.args[0], ast.Name) and x.value.args[0].id == me:
                            return K.lookup(x.attr)
                        if isinstance(x.value, ast.Name):
                            r = self.prog.resolve_name(f.module, x.value.id)
                            if r and r[0] == "class":
                                return r[1].lookup(x.attr)
                    return None
                a, b = meth(e.left), meth(e.comparators[0])
                if a is None or b is None:
                    return None
                same = a.node is b.node
                return same if isinstance(e.ops[0], (ast.Eq, ast.Is)) else (not same)
            if isinstance(e, ast.BoolOp):
                vals = [ev(v) for v in e.values]
                if isinstance(e.op, ast.And):
                    return False if any(v is False for v in vals) else (True if all(v is True for v in vals) else None)
                return True if any(v is True for v in vals) else (False if all(v is False for v in vals) else None)
            return None
        return ev(body[0].value)

    def _derived_from(self, C: ClassInfo, attr: str) -> Set[str]:
        """attributes that a constructor of C's chain assigns from an expression mentioning self.<attr> (transitively)"""
        stores = []
        for owner, fi_ in self.own.types.init_chain(C):
            me = fi_.params()[0] if fi_.params() else "self"
            for st in ast.walk(fi_.node):
                if isinstance(st, ast.Assign):
                    for t in st.targets:
                        if isinstance(t, ast.Attribute) and isinstance(t.value, ast.Name) and t.value.id == me:
                            used = {y.attr for y in ast.walk(st.value) if isinstance(y, ast.Attribute)
                                    and isinstance(y.value, ast.Name) and y.value.id == me}
                            stores.append((t.attr, used))
        out = {attr}
        changed = True
        while changed:
            changed = False
            for tgt, used in stores:
                if tgt not in out and used & out:
                    out.add(tgt)
                    changed = True
        return out - {attr}

    def access_of(self, fa: FA, e: ast.AST, at: int) -> Optional[Member]:
        """Which owned member does the receiver expression denote?"""
        t = fa.sym.term(e, at)
        return self.access_of_term(fa, t)

    def access_of_term(self, fa: FA, t: Term) -> Optional[Member]:
        if t[0] == "self":
            return Member(t[1], "attr")
        if t[0] == "var" and len(t[2]) == 1:
            (d,) = t[2]
            src = self._loop_source(fa, d, t[1])
            if src is not None:
                return Member(src, "elem")
        if t[0] == "attr":
            base = t[1]
            if base[0] == "var" and len(base[2]) == 1:
                (d,) = base[2]
                src = self._loop_source(fa, d, base[1])
                if src is not None:
                    return Member(src, "elem_attr", t[2])
        if t[0] == "sub" and t[1][0] == "self":
            return Member(t[1][1], "elem")
        return None

    def _loop_source(self, fa: FA, d: int, var: str) -> Optional[str]:
        nd = fa.cfg.nodes.get(d)
        if nd is None or nd.kind != "next":
            return None
        loop = nd.owner
        it = fa.sym.term(loop.iter, fa.cfg.stmt_node[loop])
        tgt = loop.target
        if it[0] == "self" and isinstance(tgt, ast.Name) and tgt.id == var:
            return it[1]
        # enumerate(self.a) -> (i, t)
        if it[0] == "call" and it[1] == ("global", "enumerate") and it[2] and it[2][0][0] == "self":
            if isinstance(tgt, ast.Tuple) and len(tgt.elts) == 2 and isinstance(tgt.elts[1], ast.Name) \
                    and tgt.elts[1].id == var:
                return it[2][0][1]
        return None

    def guard_edges(self, fa: FA, member: Member, needed: List[ClassInfo]) -> Tuple[list, list]:
        """(edges to remove, descriptions of too-narrow guards).  Every branch condition that speaks about the member
        (``isinstance(<member>, G)``, a boolean property ``<member>.p``, ``hasattr(<member>, ..)``; combined with and / or /
        not and with conditions decided by the assumptions of this analysis) is evaluated once per class that needs the hook.
        True for all of them: the False edge cannot be taken by an object that needs the hook and is removed (and vice versa);
        False for some, True for others: the guard is too narrow (reported when a path without the call exists); not decided by
        the class alone: recorded in ``_undecided_guards``."""
        from ..fa import eval_truth
        removed, narrow = [], []
        if not hasattr(self, "_undecided_guards"):
            self._undecided_guards = []

        def k3_and(vals):
            return False if any(v is False for v in vals) else (True if all(v is True for v in vals) else None)

        def k3_or(vals):
            return True if any(v is True for v in vals) else (False if all(v is False for v in vals) else None)

        for n, nd in fa.cfg.nodes.items():
            if nd.kind != "test":
                continue
            about: List[str] = []   # what the test says about the member
            unknown: List[str] = []

            def ev(e, K):
                if isinstance(e, ast.UnaryOp) and isinstance(e.op, ast.Not):
                    v = ev(e.operand, K)
                    return None if v is None else (not v)
                if isinstance(e, ast.BoolOp):
                    vals = [ev(v, K) for v in e.values]
                    return k3_and(vals) if isinstance(e.op, ast.And) else k3_or(vals)
                if isinstance(e, ast.Call) and isinstance(e.func, ast.Name) and e.func.id == "isinstance" and len(e.args) == 2 \
                        and not e.keywords and self.access_of(fa, e.args[0], n) == member:
                    classes = self.own.guard_classes(fa.fi, e.args[1])
                    if classes is None:
                        unknown.append(ast.unparse(e)[:50])
                        return None
                    about.append(", ".join(g.name for g in classes))
                    return any(g in K.mro() for g in classes)
                if isinstance(e, ast.Call) and isinstance(e.func, ast.Name) and e.func.id == "hasattr" and len(e.args) == 2 \
                        and isinstance(e.args[1], ast.Constant) and isinstance(e.args[1].value, str) \
                        and self.access_of(fa, e.args[0], n) == member:
                    about.append(f"hasattr {e.args[1].value}")
                    if K.lookup(e.args[1].value) is not None:
                        return True
                    unknown.append(ast.unparse(e)[:50])
                    return None
                if isinstance(e, ast.Attribute) and isinstance(e.ctx, ast.Load) and self.access_of(fa, e.value, n) == member:
                    about.append(f".{e.attr}")
                    v = self._predicate_value(K, e.attr)
                    if v is None:
                        unknown.append(e.attr)
                    return v
                return eval_truth(fa.sym.term(e, n), fa.assume)

            vals = {}
            for K in needed:
                vals[K.name] = ev(nd.ast, K)
            if not about:
                continue
            vs = list(vals.values())
            if vs and all(v is True for v in vs):
                tgt = fa.cfg.out_edge(n, False)
                if tgt is not None:
                    removed.append((n, tgt, False))
            elif vs and all(v is False for v in vs):
                tgt = fa.cfg.out_edge(n, True)
                if tgt is not None:
                    removed.append((n, tgt, True))
            elif any(v is True for v in vs) and any(v is False for v in vs):
                # the classes on the rarer side are the ones the guard does not treat like the others
                t_ = [k for k, v in vals.items() if v is True]
                f_ = [k for k, v in vals.items() if v is False]
                odd = f_ if len(f_) <= len(t_) else t_
                narrow.append((n, sorted(set(about)), odd))
            elif any(v is False for v in vs) or any(v is True for v in vs):
                # decided for some classes, open for the others
                if unknown:
                    self._undecided_guards.append((n, unknown[0]))
                else:
                    self._undecided_guards.append((n, ast.unparse(nd.ast)[:50]))
            else:
                self._undecided_guards.append((n, unknown[0] if unknown else ast.unparse(nd.ast)[:50]))
        return removed, narrow

    def forwarding_nodes(self, C: ClassInfo, fi: FuncInfo, fa: FA, member: Member, hooks: Set[str],
                         needed: List[ClassInfo], arg_ok: Optional[Callable], depth: int) -> Tuple[Set[int], list]:
        nodes: Set[int] = set()
        self._delegates = set()
        unknown: list = []
        notes = []
        for n, call in fa.calls():
            f = call.func
            if not isinstance(f, ast.Attribute):
                continue
            # direct: <member>.hook(...)
            if f.attr in hooks:
                if _is_super(f.value):
                    tgt = C.lookup_after(fi.cls, f.attr) if fi.cls is not None else None
                    if tgt is not None and depth < 4 and (arg_ok is None or arg_ok(fa, n, call, fi)):
                        ok, _ = self.check(C, tgt, member, hooks, needed, arg_ok, depth + 1)
                        if ok:
                            nodes.add(n)
                            self._delegates.add(n)
                    continue
                m = self.access_of(fa, f.value, n)
                if m == member:
                    if arg_ok is None or arg_ok(fa, n, call, fi):
                        nodes.add(n)
                    else:
                        notes.append(f"call at line {fa.line(n)} does not pass the received argument on")
                        if call.args and isinstance(call.args[0], ast.Name) and call.args[0].id not in fi.params():
                            # the argument is a local (an element of a list built from the received one, ...): not traced
                            unknown.append((n, ast.unparse(call)[:50]))
                    continue
                part = self._slice_of_member(fa, f.value, n, member)
                if part is not None:
                    notes.append(f"the loop at line {part} walks a slice of the members only")
                    continue
                if m is None and not (isinstance(f.value, ast.Name) and f.value.id == fa.self_name):
                    # the hook is called on something whose relation to the members is not recognised (an element of a
                    # pre-computed / zipped / filtered collection)
                    unknown.append((n, ast.unparse(f.value)[:50]))
            # self.other(...) that forwards
            if isinstance(f.value, ast.Name) and f.value.id == fa.self_name and depth < 4:
                tgt = C.lookup(f.attr)
                if tgt is not None and tgt is not fi and f.attr in hooks:
                    if arg_ok is None or arg_ok(fa, n, call, fi):
                        ok, _ = self.check(C, tgt, member, hooks, needed, arg_ok, depth + 1)
                        if ok:
                            nodes.add(n)
                            self._delegates.add(n)
        self._unknown_receivers = unknown
        return nodes, notes

    def _slice_of_member(self, fa: FA, recv: ast.AST, at: int, member: Member) -> Optional[int]:
        """line of the loop when recv is the element of 'for x in self.<member list>[a:b]' (a proper part of the members)"""
        if member.kind not in ("elem", "elem_attr"):
            return None
        t = fa.sym.term(recv, at)
        if t[0] == "attr":
            t = t[1]
        if t[0] != "var" or len(t[2]) != 1:
            return None
        (d,) = t[2]
        nd = fa.cfg.nodes.get(d)
        if nd is None or nd.kind != "next":
            return None
        it = nd.owner.iter
        if isinstance(it, ast.Subscript) and isinstance(it.slice, ast.Slice) and \
                fa.sym.term(it.value, fa.cfg.stmt_node[nd.owner]) == ("self", member.attr):
            sl = it.slice
            whole = (sl.lower is None or (isinstance(sl.lower, ast.Constant) and sl.lower.value in (0, None))) and sl.upper is None \
                and (sl.step is None or (isinstance(sl.step, ast.Constant) and sl.step.value in (1, None)))
            if not whole:
                return nd.lineno
        return None

    def check(self, C: ClassInfo, fi: FuncInfo, member: Member, hooks: Set[str], needed: List[ClassInfo],
              arg_ok: Optional[Callable] = None, depth: int = 0, assume=None,
              src: Optional[int] = None) -> Tuple[bool, str]:
        """Does fi (resolved in the context of concrete class C) forward the hook to member on every
        path to a normal return?"""
        inl = getattr(self.prog, "inliner", None)
        if inl is not None and isinstance(C, ClassInfo):
            fi = inl.specialise(fi, C)  # template methods: private helpers resolved for the concrete receiver class
        if isinstance(C, ClassInfo) and member.kind in ("elem", "elem_attr"):
            from .views import expand
            fi = expand(self, self.prog, C, fi, fi.name if fi.name in hooks else sorted(hooks)[0])
        fa0 = fa_of(self.prog, fi)
        fa = fa0.prune(assume) if assume else fa0
        n_und = len(getattr(self, "_undecided_guards", []))
        removed, narrow = self.guard_edges(fa, member, needed)
        und_guards = list(getattr(self, "_undecided_guards", [])[n_und:])
        cfg_unguarded = fa.cfg       # early exits are judged here: another element may fail the guard
        if removed:
            fa = fa.with_cfg(fa.cfg.pruned(removed))
            if assume:
                fa = fa.prune(assume)
        nodes, notes = self.forwarding_nodes(C, fi, fa, member, hooks, needed, arg_ok, depth)
        unk_here = list(self._unknown_receivers)
        delegates = set(self._delegates) & nodes
        cfg = fa.cfg
        through: Set[int] = set()
        if member.kind == "attr":
            through = set(nodes)
            # a complete loop over a list attribute that holds this member (self.ts = [self.a, self.b])
            for lst, attrs in self.own.types.aliases(C).items():
                if member.attr in attrs and depth < 4:
                    ok, _ = self.check(C, fi, Member(lst, "elem"), hooks, needed, arg_ok, depth + 1, assume, src)
                    if ok:
                        return True, f"{fi.qualname} forwards to every element of self.{lst}, which holds {member}"
        else:
            # loop members: the loop's iter node counts if every iteration forwards; calls that delegate
            # to a method which forwards to the whole member count as they are
            through = set(delegates)
            for n, nd in cfg.nodes.items():
                if nd.kind != "next":
                    continue
                loop = nd.owner
                src_attr = self._loop_source(fa, n, _loop_var_name(loop, member))
                if src_attr != member.attr:
                    continue
                body_entry = cfg.out_edge(n, True)
                if body_entry is None:
                    continue
                inner = [x for x in nodes if x != n]
                early = _early_exits(cfg_unguarded, loop)
                if early:
                    notes.append("the loop at line %d can be left early (break / return at line %s): later members are not "
                                 "reached" % (nd.lineno, ", ".join(str(cfg_unguarded.nodes[e].lineno) for e in early)))
                elif body_entry in inner or not cfg.reachable(body_entry, n, avoid=set(inner)):
                    through.add(cfg.stmt_node[loop])
                else:
                    p = cfg.path_avoiding(body_entry, n, avoid=set(inner))
                    notes.append("an iteration of the loop at line %d can finish without the call (via lines %s)" % (
                        nd.lineno, _lines(cfg, p)))
        start = cfg.entry if src is None else src
        if start not in cfg.nodes:
            return True, "start unreachable under the assumptions"
        if cfg.must_pass(through, src=start, dst=cfg.exit):
            return True, f"every normal-return path of {fi.qualname} forwards to {member}"
        p = cfg.path_avoiding(start, cfg.exit, avoid=through)
        why = f"path to normal return without forwarding to {member} (lines {_lines(cfg, p)})"
        if not through and not nodes:
            why = f"{fi.qualname} contains no forwarding call for {member}"
        for n, gs, miss in narrow:
            why += f"; isinstance guard ({', '.join(gs)}) at line {cfg.nodes[n].lineno} does not admit " \
                   f"{', '.join(miss[:6])}{'...' if len(miss) > 6 else ''}"
        if notes:
            why += "; " + "; ".join(notes)
        unk = unk_here
        if not unk and depth == 0 and member.kind in ("elem", "elem_attr"):
            # the hook is forwarded to the elements of another attribute that the constructor derives from this member's list
            # (a pre-computed / filtered copy): whether that copy holds every element that needs the hook is not decided here
            derived = self._derived_from(C, member.attr)
            for n_, call_ in fa.calls():
                f_ = call_.func
                if isinstance(f_, ast.Attribute) and f_.attr in hooks:
                    m_ = self.access_of(fa, f_.value, n_)
                    if m_ is not None and m_ != member and m_.attr in derived:
                        unk = [(n_, f"the elements of self.{m_.attr}")]
                        break
        if unk and depth == 0:
            return None, (f"not decided: {fi.qualname} forwards the hook to {unk[0][1]} (line {fa.line(unk[0][0])}), whose relation to "
                          f"{member} is not recognised")
        if und_guards and not narrow:
            return None, (f"not decided: whether the guard at line {cfg_unguarded.nodes[und_guards[0][0]].lineno} "
                          f"({und_guards[0][1]}) lets every {member} that needs the hook through is not decided by its class")
        return False, why


def _early_exits(cfg, loop: ast.For) -> List[int]:
    """break / return statements that leave this loop from inside its body (nested loops' breaks excluded)."""
    out = []

    def walk(stmts, nested):
        for st in stmts:
            if isinstance(st, ast.Break) and not nested:
                n = cfg.stmt_node.get(st)
                if n is not None:
                    out.append(n)
            elif isinstance(st, ast.Return):
                n = cfg.stmt_node.get(st)
                if n is not None:
                    out.append(n)
            elif isinstance(st, (ast.For, ast.While, ast.AsyncFor)):
                walk(st.body, True)
                walk(st.orelse, nested)
            elif isinstance(st, (ast.FunctionDef, ast.AsyncFunctionDef, ast.ClassDef)):
                continue
            else:
                for fld in ("body", "orelse", "finalbody"):
                    walk(getattr(st, fld, []) or [], nested)
                for h in getattr(st, "handlers", []) or []:
                    walk(h.body, nested)

    walk(loop.body, False)
    return out


def _loop_var_name(loop: ast.For, member: Member) -> str:
    tgt = loop.target
    if isinstance(tgt, ast.Name):
        return tgt.id
    if isinstance(tgt, ast.Tuple) and len(tgt.elts) == 2 and isinstance(tgt.elts[1], ast.Name):
        return tgt.elts[1].id
    return ""


def _lines(cfg, path) -> str:
    if not path:
        return "?"
    ls = []
    for n in path:
        nd = cfg.nodes.get(n)
        if nd is not None and nd.lineno and (not ls or ls[-1] != nd.lineno):
            ls.append(nd.lineno)
    return "->".join(map(str, ls[:12]))


def _guard_atom(fa: FA, n: int, test: ast.AST):
    """(polarity, isinstance call) if the truth of the test at node n is decided by exactly one isinstance call: a bare call, its
    negation, a conjunction whose other conjuncts are known to be true at n (``rng is not None`` after the generator was just
    constructed), or a disjunction whose other disjuncts are known to be false (under the assumptions of this analysis)."""
    from ..fa import eval_truth

    def red(e):
        """-> True | False | (polarity, call) | None (not decided by one isinstance call)"""
        if isinstance(e, ast.Call) and isinstance(e.func, ast.Name) and e.func.id == "isinstance":
            tv = eval_truth(fa.sym.term(e, n), fa.assume)
            return tv if tv is not None else (True, e)
        if isinstance(e, ast.Attribute) and isinstance(e.ctx, ast.Load):
            # a predicate property of some object (decided per class by the caller): member.requires_rng
            tv = eval_truth(fa.sym.term(e, n), fa.assume)
            return tv if tv is not None else (True, e)
        if isinstance(e, ast.UnaryOp) and isinstance(e.op, ast.Not):
            r = red(e.operand)
            if isinstance(r, bool):
                return not r
            return None if r is None else ((not r[0]), r[1])
        if isinstance(e, ast.BoolOp):
            is_and = isinstance(e.op, ast.And)
            atoms = []
            for v in e.values:
                r = red(v) if isinstance(v, (ast.BoolOp, ast.UnaryOp, ast.Call, ast.Attribute)) else None
                if r is None:
                    tv = eval_truth(fa.sym.term(v, n), fa.assume)
                    if tv is None:
                        return None
                    r = tv
                if isinstance(r, bool):
                    if r is (not is_and):
                        return r  # a false conjunct / a true disjunct decides the whole
                    continue
                atoms.append(r)
            if not atoms:
                return is_and
            if len(atoms) == 1:
                return atoms[0]
            if is_and and all(isinstance(a, tuple) and len(a) == 2 and isinstance(a[0], bool) for a in atoms):
                return ("all", atoms)  # a conjunction of several such atoms
            return None
        tv = eval_truth(fa.sym.term(e, n), fa.assume)
        return tv
    r = red(test)
    if isinstance(r, tuple):
        return r
    return None


def stores_on_self(fa: FA) -> List[Tuple[int, str]]:
    """[(line, description)] of everything a method writes onto its instance: attribute (re)bindings, element stores into attribute
    containers (self.a[k] = v, also as the first target of a chained assignment), and mutating container methods on attributes."""
    out: List[Tuple[int, str]] = []
    me = fa.self_name
    if me is None:
        return out

    def root_is_self_attr(e):
        while isinstance(e, (ast.Subscript,)):
            e = e.value
        return isinstance(e, ast.Attribute) and isinstance(e.value, ast.Name) and e.value.id == me

    for x in ast.walk(fa.fi.node):
        if isinstance(x, (ast.Assign, ast.AugAssign, ast.AnnAssign)):
            tgs = x.targets if isinstance(x, ast.Assign) else [x.target]
            for t in tgs:
                for y in ast.walk(t):
                    if isinstance(y, ast.Attribute) and isinstance(y.ctx, ast.Store) and isinstance(y.value, ast.Name) and y.value.id == me:
                        out.append((x.lineno, f"self.{y.attr} = ..."))
                    if isinstance(y, ast.Subscript) and isinstance(y.ctx, ast.Store) and root_is_self_attr(y):
                        out.append((x.lineno, f"{ast.unparse(y)[:40]} = ..."))
        if isinstance(x, ast.Call) and isinstance(x.func, ast.Attribute) and x.func.attr in (
                "append", "extend", "insert", "add", "update", "setdefault", "pop", "popitem", "clear", "remove", "discard",
                "__setitem__", "appendleft") and root_is_self_attr(x.func.value):
            out.append((x.lineno, f"{ast.unparse(x.func)[:40]}(...)"))
        if isinstance(x, ast.Call) and isinstance(x.func, ast.Name) and x.func.id == "setattr" and x.args and \
                isinstance(x.args[0], ast.Name) and x.args[0].id == me:
            out.append((x.lineno, "setattr(self, ...)"))
    return out
