"""In-place convex mixes  own <- L * own + P  in the spellings a tensor code base uses:
   own.mul_(L).add_(P)        |   own.mul_(L) ; own.add_(P)   |   own *= L ; own += P    (two adjacent statements).
Every spelling is returned in the first one (a synthesised call expression), so that the rules have one shape to judge."""
from __future__ import annotations

import ast
from typing import List, Tuple

from ..fa import FA


def inplace_mixes(fa: FA) -> List[Tuple[int, ast.Call, ast.AST, ast.AST, ast.AST]]:
    """-> [(node, call 'own.mul_(L).add_(P)', own, L, P)]"""
    cfg = fa.cfg
    out = []
    for n, c in fa.calls_named("add_"):
        f = c.func
        if isinstance(f, ast.Attribute) and isinstance(f.value, ast.Call) and isinstance(f.value.func, ast.Attribute) \
                and f.value.func.attr == "mul_" and len(c.args) == 1 and len(f.value.args) == 1:
            out.append((n, c, f.value.func.value, f.value.args[0], c.args[0]))

    def scale_of(st):
        """(own, L) if the statement is 'own *= L' or 'own.mul_(L)'"""
        if isinstance(st, ast.AugAssign) and isinstance(st.op, ast.Mult):
            return st.target, st.value
        if isinstance(st, ast.Expr) and isinstance(st.value, ast.Call) and isinstance(st.value.func, ast.Attribute) and \
                st.value.func.attr == "mul_" and len(st.value.args) == 1 and not isinstance(st.value.func.value, ast.Call):
            return st.value.func.value, st.value.args[0]
        return None

    def add_of(st):
        if isinstance(st, ast.AugAssign) and isinstance(st.op, ast.Add):
            return st.target, st.value
        if isinstance(st, ast.Expr) and isinstance(st.value, ast.Call) and isinstance(st.value.func, ast.Attribute) and \
                st.value.func.attr == "add_" and len(st.value.args) == 1 and not isinstance(st.value.func.value, ast.Call):
            return st.value.func.value, st.value.args[0]
        return None

    for n, nd in cfg.nodes.items():
        st = nd.ast if nd.kind == "stmt" else None
        a = add_of(st) if st is not None else None
        if a is None:
            continue
        # the scaling of 'own' is the statement before, possibly with the scaling of the partner in between
        s_ = None
        cur = n
        for _ in range(3):
            prev = list(cfg.g.predecessors(cur))
            if len(prev) != 1 or cfg.nodes[prev[0]].kind != "stmt":
                break
            cur = prev[0]
            cand = scale_of(cfg.nodes[cur].ast)
            if cand is not None and ast.dump(_load(cand[0])) == ast.dump(_load(a[0])):
                s_ = cand
                break
            pst = cfg.nodes[cur].ast
            # only statements that do not touch 'own' may lie in between
            if any(isinstance(y, ast.Name) and y.id == _root_name(a[0]) for y in ast.walk(pst)):
                break
        if s_ is None:
            continue
        own = _load(a[0])
        call = ast.Call(func=ast.Attribute(value=ast.Call(func=ast.Attribute(value=own, attr="mul_", ctx=ast.Load()),
                                                          args=[s_[1]], keywords=[]), attr="add_", ctx=ast.Load()),
                        args=[a[1]], keywords=[])
        ast.copy_location(call, st)
        ast.fix_missing_locations(call)
        out.append((n, call, own, s_[1], a[1]))
    return out


def _load(e: ast.AST) -> ast.AST:
    return ast.parse(ast.unparse(e), mode="eval").body


def split_scaled(fa: FA, P: ast.AST, at: int):
    """P = partner.mul_(w) | partner.mul(w) | partner * w | w * partner  ->  (partner expression, weight expression) or None.
    For the operator form the weight is the operand that (temporaries looked through) has the shape '1 - <something>'."""
    if isinstance(P, ast.Call) and isinstance(P.func, ast.Attribute) and P.func.attr in ("mul_", "mul") and len(P.args) == 1:
        return P.func.value, P.args[0]
    if isinstance(P, ast.BinOp) and isinstance(P.op, ast.Mult):
        def is_weight(e):
            x = fa.expand(e, at)
            return isinstance(x, ast.BinOp) and isinstance(x.op, ast.Sub) and isinstance(x.left, ast.Constant)
        if is_weight(P.right) and not is_weight(P.left):
            return P.left, P.right
        if is_weight(P.left) and not is_weight(P.right):
            return P.right, P.left
    if isinstance(P, ast.Name):
        x = fa.expand(P, at)
        if not isinstance(x, ast.Name):
            return split_scaled(fa, x, at)
        defs = fa.cfg.reaching().get(at, {}).get(x.id, set())
        if len(defs) == 1:
            (d,) = defs
            st = fa.cfg.nodes[d].ast if fa.cfg.nodes[d].kind == "stmt" else None
            if isinstance(st, ast.AugAssign) and isinstance(st.op, ast.Mult) and isinstance(st.target, ast.Name):
                return st.target, st.value  # partner *= w ; own += partner
            if isinstance(st, ast.Expr) and isinstance(st.value, ast.Call) and isinstance(st.value.func, ast.Attribute) and \
                    st.value.func.attr == "mul_" and len(st.value.args) == 1:
                return st.value.func.value, st.value.args[0]
            if isinstance(st, ast.Assign) and isinstance(st.value, (ast.Call, ast.BinOp)):
                return split_scaled(fa, st.value, d)
    return None


def _root_name(e):
    while isinstance(e, (ast.Subscript, ast.Attribute, ast.Call)):
        e = e.value if not isinstance(e, ast.Call) else e.func
    return e.id if isinstance(e, ast.Name) else None
