"""G2 - random-source discipline.

Starting from a set of entry methods of a concrete class, every call reachable through ``self`` /
``super()`` / package-function calls (inlining bound) is classified with the effect table below:

  global      draws from (or re-seeds) a process-global RNG: ``np.random.<fn>``, stdlib ``random.<fn>``,
              ``torch.rand*/randint/randperm/normal/bernoulli/multinomial/...`` and ``Tensor.<x>_()`` samplers
              without ``generator=``, calling an instance of a torchvision random transform
  entropy     ``np.random.default_rng()`` with no / ``None`` seed: OS entropy, not reproducible
  explicit    a method of the generator the seed-injection hook controls (``self.rng`` or a value
              derived from it / a parameter bound to it)
  uncontrolled  a draw on a generator-typed attribute that the hook does not overwrite
  from-global ``get_rng_from_global()`` (consumes the global NumPy state by design)
  rebind      a store to the controlled generator attribute inside the call path
"""
from __future__ import annotations

import ast
from dataclasses import dataclass
from typing import Dict, List, Optional, Set, Tuple

from ..fa import FA, fa_of
from ..model import ClassInfo, FuncInfo, Program
from ..sym import Term, leaves, subterms
from ..types_ import AttrTypes, _is_super, flatten

NP_RANDOM_NON_DRAW = {"default_rng", "Generator", "RandomState", "SeedSequence", "PCG64", "MT19937", "Philox",
                      "SFC64", "BitGenerator", "get_state"}
STDLIB_RANDOM_NON_DRAW = {"Random", "SystemRandom"}
TORCH_GLOBAL_DRAWS = {"rand", "randn", "randint", "randperm", "rand_like", "randn_like", "randint_like", "normal",
                      "bernoulli", "multinomial", "poisson", "manual_seed", "seed", "binomial"}
TENSOR_INPLACE_DRAWS = {"random_", "normal_", "uniform_", "bernoulli_", "exponential_", "geometric_", "cauchy_",
                        "log_normal_"}
TV_RANDOM_CLASSES = {"RandomCrop", "RandomResizedCrop", "RandomHorizontalFlip", "RandomVerticalFlip", "ColorJitter",
                     "RandomRotation", "RandomAffine", "RandomGrayscale", "RandomPerspective", "RandomErasing",
                     "GaussianBlur", "RandomApply", "RandomChoice", "RandomOrder", "RandAugment", "AutoAugment",
                     "TrivialAugmentWide", "AugMix", "RandomInvert", "RandomPosterize", "RandomSolarize",
                     "RandomAdjustSharpness", "RandomAutocontrast", "RandomEqualize", "ElasticTransform"}
GENERATOR_METHODS = {"random", "integers", "uniform", "normal", "standard_normal", "choice", "permutation",
                     "permuted", "shuffle", "beta", "binomial", "exponential", "gamma", "poisson", "bytes",
                     "multinomial", "triangular", "laplace", "lognormal", "rand", "randn", "randint", "sample"}


@dataclass
class Event:
    kind: str
    fi: FuncInfo
    line: int
    text: str
    detail: str = ""
    depth: int = 0


def classify_ext(dotted: str, call: ast.Call) -> Optional[Tuple[str, str]]:
    has_gen = any(k.arg == "generator" for k in call.keywords)
    parts = dotted.split(".")
    if dotted.startswith("numpy.random."):
        fn = parts[2]
        if fn == "default_rng":
            seed = None
            if call.args:
                seed = call.args[0]
            for k in call.keywords:
                if k.arg == "seed":
                    seed = k.value
            if seed is None or (isinstance(seed, ast.Constant) and seed.value is None):
                return "entropy", "np.random.default_rng() without seed draws its state from OS entropy"
            return None
        if fn in NP_RANDOM_NON_DRAW:
            return None
        return "global", f"np.random.{fn} uses the process-global NumPy RNG"
    if parts[0] == "random" and len(parts) == 2:
        if parts[1] in STDLIB_RANDOM_NON_DRAW:
            return None
        return "global", f"random.{parts[1]} uses the process-global Python RNG"
    if parts[0] == "torch" and len(parts) == 2 and parts[1] in TORCH_GLOBAL_DRAWS:
        if has_gen:
            return None
        return "global", f"torch.{parts[1]} without generator= uses the process-global Torch RNG"
    if dotted.startswith("torch.nn.functional.") and parts[-1].startswith(("dropout", "alpha_dropout", "rrelu",
                                                                           "gumbel_softmax", "feature_alpha_dropout")):
        return "global", f"{dotted} uses the process-global Torch RNG"
    if dotted.startswith("torch.nn.init."):
        return "global", f"{dotted} uses the process-global Torch RNG"
    if len(parts) >= 3 and parts[0] == "torchvision" and parts[-1] == "get_params" and parts[-2] in TV_RANDOM_CLASSES:
        return "global", f"{dotted} samples with the process-global Torch RNG"
    return None


class RngDiscipline:
    def __init__(self, prog: Program, types: Optional[AttrTypes] = None, bound: int = 4,
                 family_root: Optional[ClassInfo] = None):
        self.prog = prog
        self.types = types or AttrTypes(prog)
        self.bound = bound
        self.family_root = family_root

    # generator attributes of the class and which of them the hook overwrites
    def generator_attrs(self, C: ClassInfo) -> Set[str]:
        return {a for a, ts in self.types.of(C).items() if ("gen",) in ts}

    def controlled(self, C: ClassInfo) -> Set[str]:
        out = set()
        fi = C.lookup("set_rng")
        seen = set()
        while fi is not None and id(fi) not in seen:
            seen.add(id(fi))
            ps = fi.params()
            calls_super = False
            for n in ast.walk(fi.node):
                if isinstance(n, ast.Assign) and len(ps) >= 2:
                    for t in n.targets:
                        if isinstance(t, ast.Attribute) and isinstance(t.value, ast.Name) and t.value.id == ps[0] \
                                and isinstance(n.value, ast.Name) and n.value.id == ps[1]:
                            out.add(t.attr)
                if isinstance(n, ast.Call) and isinstance(n.func, ast.Attribute) and n.func.attr == "set_rng" \
                        and _is_super(n.func.value):
                    calls_super = True
            fi = C.lookup_after(fi.cls, "set_rng") if calls_super and fi.cls is not None else None
        return out

    def explore(self, C: Optional[ClassInfo], entries: List[FuncInfo], extra_ok: Optional[Set[Term]] = None,
                assume=None) -> Tuple[List[Event], List[str]]:
        """-> (events, analysed function names)."""
        events: List[Event] = []
        analysed: List[str] = []
        ctrl = self.controlled(C) if C is not None else set()
        gens = self.generator_attrs(C) if C is not None else set()
        seen: Set[Tuple[int, frozenset]] = set()

        def visit(fi: FuncInfo, ok_params: frozenset, depth: int, ok_terms: frozenset = frozenset()):
            key = (id(fi), ok_params)
            if key in seen:
                return
            seen.add(key)
            analysed.append(f"{fi.module.relpath}:{fi.qualname}")
            fa = fa_of(self.prog, fi)
            if assume and depth == 0:
                fa = fa.prune(assume)
            at = self.types.of(C) if C is not None else {}

            def rng_ok(t: Term) -> bool:
                if t in ok_terms or (extra_ok and t in extra_ok):
                    return True
                if t[0] == "self" and t[1] in ctrl:
                    return True
                if t[0] == "param" and t[1] in ok_params:
                    return True
                return False

            for n in sorted(fa.cfg.nodes):
                nd = fa.cfg.nodes[n]
                # rebind of the controlled generator inside the call path
                if C is not None and fi.name not in ("__init__", "set_rng", "worker_init_fn", "_worker_init_fn"):
                    for var, tgt, val in fa.cfg.defs_at(n):
                        if fa.self_name and var in {f"{fa.self_name}.{a}" for a in ctrl}:
                            events.append(Event("rebind", fi, nd.lineno, _src(nd.ast),
                                                f"{var} is overwritten inside the call path", depth))
                for call in fa.cfg.calls_at(n):
                    ct = fa.sym.term(call, n)
                    f = ct[1]
                    line = getattr(call, "lineno", nd.lineno)
                    text = _src(call)
                    # 1. external callee
                    if f[0] == "global":
                        cls_ext = classify_ext(f[1], call)
                        if cls_ext:
                            events.append(Event(cls_ext[0], fi, line, text, cls_ext[1], depth))
                            continue
                        if f[1].startswith("torch.") and f[1].count(".") == 1 and f[1].split(".")[1] in TORCH_GLOBAL_DRAWS:
                            # torch draw with generator=<g>: g kept on the instance must be what the hook overwrites
                            g = next((v for k_, v in ct[3] if k_ == "generator"), None)
                            if g is not None and C is not None:
                                ga = g[1] if g[0] == "self" else (g[1].split(".", 1)[1] if g[0] == "var" and fa.self_name and
                                                                  g[1].startswith(f"{fa.self_name}.") else None)
                                if ga is not None and ga not in ctrl:
                                    events.append(Event("uncontrolled", fi, line, text,
                                                        f"draw with generator=self.{ga}, an attribute / property that set_rng "
                                                        f"does not overwrite: after a (re-)injection the draw still follows the "
                                                        f"generator derived earlier", depth))
                            continue
                        last = f[1].rsplit(".", 1)[-1]
                        if last == "get_rng_from_global":
                            events.append(Event("from-global", fi, line, text, "", depth))
                            continue
                        # construction of a package class whose constructor chain takes a generator from the global state
                        K_ = self._resolve_class(f[1])
                        if K_ is not None and fi.name not in ("__init__", "worker_init_fn", "_worker_init_fn") and \
                                self._ctor_from_global(K_):
                            # behind a memo-miss test ('key not in self.<table>' / 'self.<slot> is None') the construction
                            # happens only when the constructor did not fill the memo: not decided here
                            lazy = False
                            for e_, pol_, c_, tn_ in fa.cond_parts_at(n):
                                for x_ in subterms(c_):
                                    if x_[0] == "in" and any(l_[0] == "self" for l_ in leaves(x_[2])):
                                        lazy = True
                                    if x_[0] == "is" and any(y_[0] == "self" for y_ in x_[1]):
                                        lazy = True
                            events.append(Event("from-global-lazy" if lazy else "from-global", fi, line, text,
                                                f"constructing {K_.name} runs get_rng_from_global() (in "
                                                f"{self._ctor_from_global(K_)}), which consumes the process-global NumPy "
                                                f"state", depth))
                            continue
                        # package function: follow with parameter binding
                        r = self._resolve_internal(f[1])
                        if r is not None and depth < self.bound:
                            okp = self._bind_ok(r, ct, rng_ok, skip_self=False)
                            visit(r, okp, depth + 1)
                        continue
                    if not isinstance(call.func, ast.Attribute):
                        # calling a local / attribute value directly, e.g. transform(x, m) with a bound method
                        if f[0] == "self" and C is not None:
                            tgt = C.lookup(f[1])
                            if tgt is not None and depth < self.bound:
                                visit(tgt, self._bind_ok(tgt, ct, rng_ok), depth + 1)
                            else:
                                self._call_attr_value(C, at, f[1], fi, line, text, events, depth)
                        continue
                    name = call.func.attr
                    recv_ast = call.func.value
                    if _is_super(recv_ast):
                        if C is not None and fi.cls is not None and depth < self.bound:
                            tgt = C.lookup_after(fi.cls, name)
                            if tgt is not None:
                                visit(tgt, self._bind_ok(tgt, ct, rng_ok), depth + 1)
                        continue
                    recv = fa.sym.term(recv_ast, n)
                    # 2. self.method(...)
                    if recv == ("param", fa.self_name) and C is not None:
                        tgt = C.lookup(name)
                        if tgt is not None:
                            if depth < self.bound:
                                visit(tgt, self._bind_ok(tgt, ct, rng_ok), depth + 1)
                        else:
                            self._call_attr_value(C, at, name, fi, line, text, events, depth)
                        continue
                    # 3. draws on generators
                    if rng_ok(recv):
                        events.append(Event("explicit", fi, line, text, f"draw on {_show(recv)}", depth))
                        continue
                    if recv[0] == "self" and recv[1] in gens and recv[1] not in ctrl:
                        events.append(Event("uncontrolled", fi, line, text,
                                            f"draw on generator attribute self.{recv[1]} which set_rng does not "
                                            f"overwrite", depth))
                        continue
                    if recv[0] == "call" and recv[1][0] == "global" and recv[1][1].rsplit(".", 1)[-1] in (
                            "default_rng", "get_rng_from_global", "RandomState") and name in GENERATOR_METHODS:
                        # draw on a generator constructed in place: classified by its constructor call
                        continue
                    if name in TENSOR_INPLACE_DRAWS and not any(k.arg == "generator" for k in call.keywords):
                        events.append(Event("global", fi, line, text,
                                            f"Tensor.{name}() without generator= uses the process-global Torch RNG",
                                            depth))
                        continue
                    if recv[0] == "param" and name in GENERATOR_METHODS and recv[1] not in ok_params \
                            and recv[1] in ("rng", "generator", "gen", "random_state"):
                        events.append(Event("via-param", fi, line, text, f"draw on parameter {recv[1]}", depth))
                        continue
                    # 4. method of an owned helper object of a package class that is not itself a
                    #    member of the hooked family (family members are analysed as classes of their own)
                    if recv[0] == "self" and C is not None and depth < self.bound:
                        for t in flatten(at.get(recv[1], set())):
                            if t[0] != "inst" or (self.family_root is not None and self.family_root in t[1].mro()):
                                continue
                            K = t[1]
                            tgt = K.lookup(name)
                            if tgt is not None:
                                cands = [(tgt, self._bind_ok(tgt, ct, rng_ok))]
                            else:
                                # dynamically bound (self.sample = self._sample_const): all plain methods;
                                # a generator handed over positionally may land in any parameter
                                any_ok = any(rng_ok(a) for a in ct[2]) or any(rng_ok(v) for _, v in ct[3])
                                cands = [(m, frozenset(m.params()[1:]) if any_ok else frozenset())
                                         for m in K.methods.values() if not m.name.startswith("__")]
                            for m, okp in cands:
                                ev, an = self._explore_helper(K, m, okp, depth + 1)
                                events.extend(ev)
                                analysed.extend(x for x in an if x not in analysed)
                # bound-method values: self.<method> loaded without a call -> reachable later
                if C is not None and depth < self.bound:
                    for x in fa.cfg.walk_node(n):
                        if isinstance(x, ast.Attribute) and isinstance(x.ctx, ast.Load) and isinstance(
                                x.value, ast.Name) and x.value.id == fa.self_name:
                            tgt = C.lookup(x.attr)
                            if tgt is not None and not tgt.is_property and tgt is not fi:
                                visit(tgt, frozenset(), depth + 1)
                            elif tgt is not None and tgt.is_property:
                                visit(tgt, frozenset(), depth + 1)

        for e in entries:
            visit(e, frozenset(), 0)
        # methods stored as bound-method values anywhere in the class hierarchy (KDRandAugment.ops,
        # KDRandomErasing._get_replacement) may be invoked through those attributes from the call path
        if C is not None:
            for m in self.bound_method_values(C):
                visit(m, frozenset(), 1)
        return events, analysed

    def bound_method_values(self, C: ClassInfo) -> List[FuncInfo]:
        out = []
        for K in C.mro_classes():
            for fi in K.methods.values():
                ps = fi.params()
                if not ps or fi.is_static:
                    continue
                called = {id(n.func) for n in ast.walk(fi.node) if isinstance(n, ast.Call)}
                for n in ast.walk(fi.node):
                    if isinstance(n, ast.Attribute) and isinstance(n.ctx, ast.Load) and id(n) not in called \
                            and isinstance(n.value, ast.Name) and n.value.id == ps[0]:
                        tgt = C.lookup(n.attr)
                        if tgt is not None and not tgt.is_property and tgt not in out:
                            out.append(tgt)
        return out

    def _explore_helper(self, K: ClassInfo, m: FuncInfo, okp: frozenset, depth: int):
        events: List[Event] = []
        analysed: List[str] = []
        fa = fa_of(self.prog, m)
        analysed.append(f"{m.module.relpath}:{m.qualname}")
        for n in sorted(fa.cfg.nodes):
            for call in fa.cfg.calls_at(n):
                ct = fa.sym.term(call, n)
                f = ct[1]
                line = getattr(call, "lineno", 0)
                if f[0] == "global":
                    ce = classify_ext(f[1], call)
                    if ce:
                        events.append(Event(ce[0], m, line, _src(call), ce[1], depth))
                    elif f[1].rsplit(".", 1)[-1] == "get_rng_from_global":
                        events.append(Event("from-global", m, line, _src(call), "", depth))
                    continue
                if isinstance(call.func, ast.Attribute):
                    recv = fa.sym.term(call.func.value, n)
                    name = call.func.attr
                    if recv[0] == "param" and recv[1] in okp:
                        events.append(Event("explicit", m, line, _src(call), f"draw on parameter {recv[1]} bound to the "
                                            f"controlled generator", depth))
                    elif name in TENSOR_INPLACE_DRAWS and not any(k.arg == "generator" for k in call.keywords):
                        events.append(Event("global", m, line, _src(call),
                                            f"Tensor.{name}() without generator=", depth))
                    elif recv[0] == "param" and name in GENERATOR_METHODS and recv[1] != fa.self_name:
                        events.append(Event("via-param", m, line, _src(call), f"draw on parameter {recv[1]}", depth))
        return events, analysed

    def _call_attr_value(self, C, at, attr, fi, line, text, events, depth):
        for t in flatten(at.get(attr, set())):
            if t[0] == "ext" and t[1].rsplit(".", 1)[-1] in TV_RANDOM_CLASSES and t[1].startswith("torchvision"):
                events.append(Event("global", fi, line, text,
                                    f"calls an instance of {t[1]}, which samples with the process-global Torch RNG",
                                    depth))

    def _resolve_class(self, dotted: str) -> Optional[ClassInfo]:
        if not dotted.startswith(self.prog.pkg + "."):
            return None
        mod, _, name = dotted.rpartition(".")
        m = self.prog.modules.get(mod)
        if m is None:
            return None
        b = m.bindings.get(name)
        if b and b[0] == "class":
            return b[1]
        r = self.prog.resolve_name(m, name)
        return r[1] if r and r[0] == "class" else None

    def _ctor_from_global(self, K: ClassInfo) -> Optional[str]:
        """qualified name of the constructor in K's chain that calls get_rng_from_global, if any"""
        cache = self.__dict__.setdefault("_cfg_cache", {})
        if K.qualname in cache:
            return cache[K.qualname]
        res = None
        fi = K.lookup("__init__")
        seen = set()
        while fi is not None and id(fi) not in seen and res is None:
            seen.add(id(fi))
            calls_super = False
            for n in ast.walk(fi.node):
                if isinstance(n, ast.Call):
                    r = self.prog.resolve_expr(fi.module, n.func)
                    if r and r[0] == "func" and r[1].name == "get_rng_from_global":
                        res = fi.qualname
                    if isinstance(n.func, ast.Attribute) and n.func.attr == "__init__" and _is_super(n.func.value):
                        calls_super = True
            fi = K.lookup_after(fi.cls, "__init__") if calls_super and fi.cls is not None else None
        cache[K.qualname] = res
        return res

    def _resolve_internal(self, dotted: str) -> Optional[FuncInfo]:
        if not dotted.startswith(self.prog.pkg + "."):
            return None
        return self.prog.functions.get(dotted)

    def _bind_ok(self, tgt: FuncInfo, ct: Term, rng_ok, skip_self=True) -> frozenset:
        ps = tgt.params()
        if tgt.cls is not None and not tgt.is_static and skip_self:
            ps = ps[1:]
        ok = set()
        for i, a in enumerate(ct[2]):
            if i < len(ps) and rng_ok(a):
                ok.add(ps[i])
        for k, v in ct[3]:
            if k in ps and rng_ok(v):
                ok.add(k)
        return frozenset(ok)


def _src(n) -> str:
    try:
        s = " ".join(ast.unparse(n).split())
    except Exception:
        s = "?"
    return s if len(s) < 120 else s[:117] + "..."


def _show(t) -> str:
    from ..sym import show

    return show(t)
