"""Apply a unified diff (git format) to in-memory file contents -> source overlays.  Nothing is written to disk."""
from __future__ import annotations

import os
import re
from typing import Dict, Optional

_HUNK = re.compile(r"^@@ -(\d+)(?:,(\d+))? \+(\d+)(?:,(\d+))? @@")


def overlays_from_patch(root: str, diff_text: str) -> Optional[Dict[str, str]]:
    """-> {relative path: new source} or None if some hunk does not apply to the current files (stale patch)."""
    out: Dict[str, str] = {}
    cur = None
    hunks = []

    def flush():
        nonlocal cur, hunks
        if cur is None:
            return True
        path = os.path.join(root, cur)
        try:
            with open(path, encoding="utf-8") as f:
                src = f.read()
        except OSError:
            src = ""
        lines = src.split("\n")
        # apply hunks from the bottom so that line numbers stay valid; context is matched with a small search window
        for start, old, new in sorted(hunks, key=lambda h: -h[0]):
            pos = None
            for delta in sorted(range(-60, 61), key=abs):
                p = start - 1 + delta
                if 0 <= p <= len(lines) - len(old) and lines[p:p + len(old)] == old:
                    pos = p
                    break
            if pos is None:
                # tolerate a missing final newline marker
                return False
            lines[pos:pos + len(old)] = new
        out[cur] = "\n".join(lines)
        cur, hunks = None, []
        return True

    it = iter(diff_text.split("\n"))
    old, new, start = None, None, None
    for line in it:
        if line.startswith("diff --git"):
            if old is not None:
                hunks.append((start, old, new))
                old = None
            if not flush():
                return None
            m = re.match(r"diff --git a/(.*) b/(.*)", line)
            cur = m.group(2) if m else None
            hunks = []
        elif line.startswith("@@"):
            if old is not None:
                hunks.append((start, old, new))
            m = _HUNK.match(line)
            start = int(m.group(1))
            old, new = [], []
        elif old is not None:
            if line.startswith("+") and not line.startswith("+++"):
                new.append(line[1:])
            elif line.startswith("-") and not line.startswith("---"):
                old.append(line[1:])
            elif line.startswith(" "):
                old.append(line[1:])
                new.append(line[1:])
            elif line.startswith("\\"):
                continue
            elif line == "":
                # blank context line whose leading space was stripped, or the end of the patch
                old.append("")
                new.append("")
    if old is not None:
        # drop a trailing artefact of the final split
        while old and new and old[-1] == "" and new[-1] == "":
            old.pop()
            new.pop()
        hunks.append((start, old, new))
    if not flush():
        return None
    return out
