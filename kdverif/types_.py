"""Flow-insensitive attribute typing over ``__init__`` bodies along the MRO of a concrete class.

Types (tuples):
  ('inst', ClassInfo)      instance of a package class
  ('ext', dotted)          instance/value produced by calling an external callable (``ColorJitter(...)``)
  ('tf?',)                 unknown transform (result of ``object_to_transform`` or a constructor
                           parameter that the class later *calls* / hooks like a transform)
  ('list', T)              list/tuple whose elements have type T (a union is ('union', (T1, T2, ...)))
  ('gen',)                 a random generator (default_rng / get_rng_from_global / RandomState / torch.Generator)
  ('none',)                the constant None
  ('param', name)          constructor parameter stored as is (not otherwise classified)
  ('other',)
"""
from __future__ import annotations

import ast
from typing import Dict, List, Optional, Set, Tuple

from .cfg import walk_expr
from .model import ClassInfo, FuncInfo, Program

GEN_CTORS = {"numpy.random.default_rng", "numpy.random.RandomState", "numpy.random.Generator", "torch.Generator",
             "random.Random"}
GEN_FUNCS_INTERNAL = {"get_rng_from_global"}
TRANSFORM_FACTORY = {"object_to_transform"}


class AttrTypes:
    def __init__(self, prog: Program):
        self.prog = prog
        self._cache: Dict[str, Dict[str, Set[tuple]]] = {}
        self._aliases: Dict[str, Dict[str, Set[str]]] = {}

    def init_chain(self, cls: ClassInfo) -> List[Tuple[ClassInfo, FuncInfo]]:
        """The ``__init__`` methods executed when constructing ``cls`` (following super().__init__)."""
        out = []
        seen = set()
        fi = cls.lookup("__init__")
        while fi is not None and fi.qualname + fi.module.name not in seen:
            seen.add(fi.qualname + fi.module.name)
            out.append((fi.cls, fi))
            calls_super = False
            for n in walk_expr_body(fi.node):
                if isinstance(n, ast.Call) and isinstance(n.func, ast.Attribute) and n.func.attr == "__init__" \
                        and _is_super(n.func.value):
                    calls_super = True
            if not calls_super:
                break
            fi = cls.lookup_after(fi.cls, "__init__")
        return out

    def of(self, cls: ClassInfo) -> Dict[str, Set[tuple]]:
        if cls.qualname in self._cache:
            return self._cache[cls.qualname]
        res: Dict[str, Set[tuple]] = {}
        aliases: Dict[str, Set[str]] = {}
        self._aliases[cls.qualname] = aliases
        for owner, fi in self.init_chain(cls):
            local_types: Dict[str, Set[tuple]] = {}
            params = set(fi.params()[1:])
            # two passes so that locals assigned before use are known
            for _ in range(2):
                for n in walk_expr_body(fi.node):
                    if isinstance(n, ast.Assign):
                        t = self.type_of_expr(fi, n.value, params, local_types, res)
                        for tgt in n.targets:
                            self._bind(tgt, t, local_types, res, fi)
                            if _self_attr(tgt, fi) and isinstance(n.value, (ast.List, ast.Tuple)) and n.value.elts \
                                    and all(_self_attr(e, fi) for e in n.value.elts):
                                aliases.setdefault(tgt.attr, set()).update(e.attr for e in n.value.elts)
                    elif isinstance(n, ast.AnnAssign) and n.value is not None:
                        t = self.type_of_expr(fi, n.value, params, local_types, res)
                        self._bind(n.target, t, local_types, res, fi)
                    elif isinstance(n, ast.AugAssign) and isinstance(n.op, ast.Add) and _self_attr(n.target, fi) and \
                            n.target.attr in aliases and isinstance(n.value, (ast.List, ast.Tuple)) and n.value.elts and \
                            all(_self_attr(e, fi) for e in n.value.elts):
                        # self.ts += [self.c, self.d]: the alias list grows
                        aliases[n.target.attr].update(e.attr for e in n.value.elts)
                    elif isinstance(n, ast.Call) and isinstance(n.func, ast.Attribute) and n.func.attr in ("append", "extend") \
                            and _self_attr(n.func.value, fi) and n.func.value.attr in aliases and len(n.args) == 1 and (
                                (n.func.attr == "append" and _self_attr(n.args[0], fi)) or
                                (n.func.attr == "extend" and isinstance(n.args[0], (ast.List, ast.Tuple)) and n.args[0].elts
                                 and all(_self_attr(e, fi) for e in n.args[0].elts))):
                        aliases[n.func.value.attr].update(
                            [n.args[0].attr] if n.func.attr == "append" else [e.attr for e in n.args[0].elts])
                    elif isinstance(n, ast.Call) and isinstance(n.func, ast.Attribute) and n.func.attr == "append":
                        # lst.append(e) on a local or self list
                        et = self.type_of_expr(fi, n.args[0], params, local_types, res) if n.args else {("other",)}
                        recv = n.func.value
                        lt = {("list", e) for e in et}
                        if isinstance(recv, ast.Name):
                            local_types.setdefault(recv.id, set()).update(lt)
                        elif _self_attr(recv, fi):
                            res.setdefault(recv.attr, set()).update(lt)
        for c in cls.mro_classes():
            for name, ann in c.annotations.items():
                res.setdefault(name, set()).add(("other",))
        self._cache[cls.qualname] = res
        return res

    def aliases(self, cls: ClassInfo) -> Dict[str, Set[str]]:
        """list attribute -> the self attributes whose values it holds (``self.ts = [self.a, self.b]``)."""
        self.of(cls)
        return self._aliases.get(cls.qualname, {})

    def _bind(self, tgt, t, local_types, res, fi):
        if isinstance(tgt, ast.Name):
            local_types.setdefault(tgt.id, set()).update(t)
        elif _self_attr(tgt, fi):
            res.setdefault(tgt.attr, set()).update(t)
        elif isinstance(tgt, (ast.Tuple, ast.List)):
            for e in tgt.elts:
                self._bind(e, {("other",)}, local_types, res, fi)

    def type_of_expr(self, fi: FuncInfo, e: ast.AST, params: Set[str], local_types, attr_types) -> Set[tuple]:
        prog = self.prog
        if isinstance(e, ast.Constant):
            return {("none",)} if e.value is None else {("other",)}
        if isinstance(e, ast.Name):
            if e.id in local_types and local_types[e.id]:
                return set(local_types[e.id])
            if e.id in params:
                return {("param", e.id)}
            return {("other",)}
        if _self_attr(e, fi):
            return set(attr_types.get(e.attr, {("other",)}))
        if isinstance(e, ast.Call):
            r = prog.resolve_expr(fi.module, e.func)
            if r is not None:
                if r[0] == "class":
                    return {("inst", r[1])}
                if r[0] == "func":
                    if r[1].name in TRANSFORM_FACTORY:
                        return {("tf?",)}
                    if r[1].name in GEN_FUNCS_INTERNAL:
                        return {("gen",)}
                    return {("other",)}
                if r[0] == "ext":
                    if r[1] in GEN_CTORS:
                        return {("gen",)}
                    return {("ext", r[1])}
            if isinstance(e.func, ast.Name) and e.func.id in ("list", "tuple") and e.args:
                return self.type_of_expr(fi, e.args[0], params, local_types, attr_types)
            return {("other",)}
        if isinstance(e, (ast.List, ast.Tuple)):
            out = set()
            for x in e.elts:
                for t in self.type_of_expr(fi, x, params, local_types, attr_types):
                    out.add(("list", t))
            return out or {("list", ("other",))}
        if isinstance(e, ast.ListComp):
            # element type with the comprehension variable unknown
            bound = set()
            for g in e.generators:
                for n in ast.walk(g.target):
                    if isinstance(n, ast.Name):
                        bound.add(n.id)
            lt = dict(local_types)
            for b in bound:
                lt[b] = {("other",)}
            return {("list", t) for t in self.type_of_expr(fi, e.elt, params - bound, lt, attr_types)}
        if isinstance(e, ast.IfExp):
            return self.type_of_expr(fi, e.body, params, local_types, attr_types) | self.type_of_expr(
                fi, e.orelse, params, local_types, attr_types)
        if isinstance(e, ast.BoolOp):
            out = set()
            for v in e.values:
                out |= self.type_of_expr(fi, v, params, local_types, attr_types)
            return out
        if isinstance(e, ast.BinOp) and isinstance(e.op, ast.Add):
            return self.type_of_expr(fi, e.left, params, local_types, attr_types) | self.type_of_expr(
                fi, e.right, params, local_types, attr_types)
        return {("other",)}


def _is_super(e: ast.AST) -> bool:
    return isinstance(e, ast.Call) and isinstance(e.func, ast.Name) and e.func.id == "super"


def _self_attr(e: ast.AST, fi: FuncInfo) -> bool:
    if not isinstance(e, ast.Attribute) or not isinstance(e.value, ast.Name):
        return False
    ps = fi.params()
    return bool(ps) and e.value.id == ps[0] and fi.cls is not None and not fi.is_static


def walk_expr_body(func: ast.AST):
    for st in func.body:
        yield from _walk_stmt(st)


def _walk_stmt(st):
    stack = [st]
    while stack:
        x = stack.pop()
        yield x
        for c in reversed(list(ast.iter_child_nodes(x))):
            if isinstance(c, (ast.FunctionDef, ast.AsyncFunctionDef, ast.ClassDef, ast.Lambda)):
                continue
            stack.append(c)


def flatten(ts: Set[tuple]) -> Set[tuple]:
    """Element types of possibly nested list types."""
    out = set()
    for t in ts:
        if t[0] == "list":
            out |= flatten({t[1]})
        else:
            out.add(t)
    return out
