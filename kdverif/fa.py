"""Per-function analysis bundle: CFG + symbolic evaluator + name resolution against the program."""
from __future__ import annotations

import ast
from typing import Dict, List, Optional, Tuple

from .cfg import CFG, walk_expr
from .model import ClassInfo, FuncInfo, Program
from .sym import SymEval, Term


class FA:
    def __init__(self, prog: Program, fi: FuncInfo, cfg: Optional[CFG] = None):
        self.prog = prog
        self.fi = fi
        self.cfg = cfg if cfg is not None else CFG(fi.node)
        self.assume = {}
        params = fi.params()
        self.self_name = None
        if fi.cls is not None and not fi.is_static and params:
            self.self_name = params[0]
        self.sym = SymEval(self.cfg, resolve_global=self.resolve_global, self_name=self.self_name or "self")
        self.sym.signature_of = self._signature_of

    def _signature_of(self, f):
        """parameter names of a package callee given as a term: ('global', 'pkg.mod.func') or self.<method> (resolved in the
        defining class; methods that subclasses re-define with another signature are left alone); plain signatures only"""
        tgt, skip = None, 0
        if f[0] == "global":
            tgt = self.prog.functions.get(f[1])
        elif f[0] == "self" and self.fi.cls is not None:
            tgt = self.fi.cls.lookup(f[1])
            if tgt is not None and not tgt.is_static:
                skip = 1
            if tgt is not None:
                for sc in self.prog.subclasses(self.fi.cls, include_self=False, include_dead=True):
                    o = sc.methods.get(f[1])
                    if o is not None and o.params() != tgt.params():
                        return None
        if f[0] == "var" and "." not in f[1]:
            # a function defined inside this function (one definition of that name)
            inner = [y for y in ast.walk(self.fi.node) if isinstance(y, (ast.FunctionDef, ast.AsyncFunctionDef))
                     and y is not self.fi.node and y.name == f[1]]
            if len(inner) == 1:
                a = inner[0].args
                if a.vararg or a.kwarg or a.kwonlyargs or a.posonlyargs:
                    return None
                return [x.arg for x in a.args]
            return None
        if tgt is None or getattr(tgt, "is_property", False):
            return None
        a = tgt.node.args
        if a.vararg or a.kwarg or a.kwonlyargs or a.posonlyargs:
            return None
        return [x.arg for x in a.args][skip:]

    def resolve_global(self, name: str) -> Optional[str]:
        r = self.prog.resolve_name(self.fi.module, name)
        if r is None:
            return None
        if r[0] == "ext":
            return r[1]
        if r[0] == "class":
            return r[1].qualname
        if r[0] == "func":
            return f"{r[1].module.name}.{r[1].qualname}"
        if r[0] == "module":
            return r[1].name
        if r[0] == "var":
            c = _module_constant(self.fi.module, name)
            if c is not None:
                return c
            # a named constant imported from another module of the package
            m_, nm_ = self.fi.module, name
            for _ in range(4):
                b_ = m_.bindings.get(nm_)
                if not b_ or b_[0] != "from":
                    break
                tm_ = self.prog.modules.get(b_[1])
                if tm_ is None:
                    break
                m_, nm_ = tm_, b_[2]
                c = _module_constant(m_, nm_)
                if c is not None:
                    return c
            return f"{self.fi.module.name}.{name}"
        return None

    def with_cfg(self, cfg: CFG) -> "FA":
        r = FA(self.prog, self.fi, cfg)
        r.assume = self.assume
        return r

    # ---- feasibility pruning ------------------------------------------------------------------
    def truth(self, n: int, assume=None) -> Optional[bool]:
        """Truth value of the test at node n if it follows from the assumptions (term -> bool) or
        from the unique reaching definitions (None-ness of constructor results / None constants)."""
        nd = self.cfg.nodes[n]
        if nd.kind != "test":
            return None
        return eval_truth(self.sym.term(nd.ast, n), assume or {})

    def prune(self, assume=None, max_iter=6) -> "FA":
        """Remove out-edges of tests that are infeasible under the assumptions, to a fixpoint."""
        cur = self.with_cfg(self.cfg)
        cur.assume = dict(assume or {})
        for _ in range(max_iter):
            removed = []
            for n, nd in cur.cfg.nodes.items():
                if nd.kind != "test":
                    continue
                tv = cur.truth(n, assume)
                if tv is None:
                    continue
                for m, labels in cur.cfg.succs(n):
                    if (not tv) in labels:
                        removed.append((n, m, not tv))
            if not removed:
                break
            cur = cur.with_cfg(cur.cfg.pruned(removed))
        return cur

    def term(self, e: ast.AST, at: Optional[int] = None) -> Term:
        if at is None:
            at = self.cfg.node_of(e)
            if at is None:
                at = self.cfg.entry
        return self.sym.term(e, at)

    def calls(self) -> List[Tuple[int, ast.Call]]:
        out = []
        for n in sorted(self.cfg.nodes):
            for c in self.cfg.calls_at(n):
                out.append((n, c))
        return out

    def nodes_where(self, pred) -> List[int]:
        return [n for n in sorted(self.cfg.nodes) if pred(n, self.cfg.nodes[n])]

    def line(self, n: int) -> int:
        return self.cfg.nodes[n].lineno

    # ---- convenience queries used by the property modules --------------------------------------------
    def alternatives(self, t, limit=4):
        """Case split of a term on one local with several reaching definitions (('var', name, defs) - e.g. assigned in both arms
        of an if): the list of terms obtained by substituting, consistently, the value of one definition at a time.  Terms
        without such a local, or whose definitions are not plain assignments, are returned as they are ([t])."""
        from .sym import subterms
        vs = [x for x in subterms(t) if isinstance(x, tuple) and x and x[0] == "var" and len(x) > 2 and len(x[2]) > 1]
        if not vs:
            return [t]
        v = vs[0]
        if len(v[2]) > limit:
            return [t]
        vals = []
        for dn in sorted(v[2]):
            nd = self.cfg.nodes.get(dn)
            a = getattr(nd, "ast", None)
            if not (nd is not None and nd.kind == "stmt" and isinstance(a, ast.Assign) and len(a.targets) == 1 and
                    isinstance(a.targets[0], ast.Name) and a.targets[0].id == v[1]):
                return [t]
            vals.append(self.sym.term(a.value, dn))

        def rep(x, val):
            if x == v:
                return val
            if isinstance(x, tuple):
                return tuple(rep(y, val) for y in x)
            return x
        return [rep(t, val) for val in vals]

    def conds_at(self, n: int, kinds=("test",), asserts=True) -> List[Term]:
        """Branch conditions that hold on every path reaching n (normal forms, negated for False edges)."""
        from .sym import negate
        out = []
        for t, lab in self.cfg.control_predicates(n):
            nd = self.cfg.nodes[t]
            if nd.kind not in kinds or nd.kind != "test":
                continue
            if not asserts and isinstance(nd.owner, ast.Assert):
                continue
            c = self.sym.term(nd.ast, t)
            out.append(c if lab else negate(c))
        return out

    def cond_parts_at(self, n: int, asserts=True) -> List[Tuple[ast.AST, bool, Term, int]]:
        """The conjuncts (expression, polarity, normal form, test node) of the branch conditions that hold on every path
        reaching n: 'if a and b' on its True edge gives a and b, 'if a or b' on its False edge gives not a and not b."""
        from .sym import negate
        out = []
        for t, lab in self.cfg.control_predicates(n):
            nd = self.cfg.nodes[t]
            if nd.kind != "test" or (not asserts and isinstance(nd.owner, ast.Assert)):
                continue

            def parts(e, pol):
                if isinstance(e, ast.UnaryOp) and isinstance(e.op, ast.Not):
                    yield from parts(e.operand, not pol)
                elif isinstance(e, ast.BoolOp) and isinstance(e.op, ast.And if pol else ast.Or):
                    for v in e.values:
                        yield from parts(v, pol)
                else:
                    yield e, pol
            for e, pol in parts(nd.ast, lab):
                c = self.sym.term(e, t)
                out.append((e, pol, c if pol else negate(c), t))
        return out

    def referent(self, e: ast.AST, at: int, depth: int = 4) -> ast.AST:
        """Follow local aliases: a name whose only reaching definition is 'x = <name or attribute chain>' stands for that
        expression (the same object).  -> the expression at the end of the alias chain."""
        while depth > 0 and isinstance(e, ast.Name):
            defs = self.cfg.reaching().get(at, {}).get(e.id, set())
            if len(defs) != 1:
                break
            (d,) = defs
            if self.cfg.nodes[d].kind == "entry":
                break
            val = self.cfg.def_value(d, e.id)
            x = val
            while isinstance(x, (ast.Attribute, ast.Subscript)):
                x = x.value  # 'm = masks[i]' / 'xs = self.items': an existing object, not a new one
            if val is None or not isinstance(x, ast.Name):
                break
            e, at, depth = val, d, depth - 1
        return e

    def expand(self, e: ast.AST, at: int, depth: int = 5) -> ast.AST:
        """A copy of e in which every local with exactly one reaching definition of the form 'v = E' - E call-free, its operands
        having the same reaching definitions there and here - is replaced by E (temporaries and hoisted sub-expressions
        are looked through).  Names bound by tuple unpacking, loops or several definitions stay."""
        import copy
        fa = self
        rd = self.cfg.reaching()

        class X(ast.NodeTransformer):
            def __init__(self, at_, depth_):
                self.at, self.depth = at_, depth_

            def visit_Lambda(self, node):
                return node

            def visit_Name(self, node):
                if not isinstance(node.ctx, ast.Load) or self.depth <= 0:
                    return node
                defs = rd.get(self.at, {}).get(node.id, set())
                if len(defs) != 1:
                    return node
                (d,) = defs
                nd = fa.cfg.nodes[d]
                if nd.kind != "stmt" or not isinstance(nd.ast, (ast.Assign, ast.AnnAssign)):
                    return node
                tg = nd.ast.targets if isinstance(nd.ast, ast.Assign) else [nd.ast.target]
                if len(tg) != 1 or not isinstance(tg[0], ast.Name) or nd.ast.value is None:
                    return node
                val = nd.ast.value
                for y in ast.walk(val):
                    if isinstance(y, ast.Name) and isinstance(y.ctx, ast.Load):
                        if y.id == node.id or rd.get(d, {}).get(y.id, set()) != rd.get(self.at, {}).get(y.id, set()):
                            return node
                    if isinstance(y, (ast.Yield, ast.YieldFrom, ast.Await, ast.NamedExpr, ast.Call)):
                        return node  # a call creates / changes objects: the variable is not interchangeable with it
                return X(d, self.depth - 1).visit(copy.deepcopy(val))
        return X(at, depth).visit(copy.deepcopy(e))

    def returns(self) -> List[Tuple[int, Optional[Term]]]:
        """(node, term of the returned value or None for a bare return) of every reachable return."""
        out = []
        for n in sorted(self.cfg.nodes):
            nd = self.cfg.nodes[n]
            if nd.kind == "stmt" and isinstance(nd.ast, ast.Return):
                out.append((n, self.sym.term(nd.ast.value, n) if nd.ast.value is not None else None))
        return out

    def calls_named(self, name: str) -> List[Tuple[int, ast.Call]]:
        """Calls whose callee's last component (attribute or bare name) is ``name``."""
        out = []
        for n, c in self.calls():
            f = c.func
            if (isinstance(f, ast.Attribute) and f.attr == name) or (isinstance(f, ast.Name) and f.id == name):
                out.append((n, c))
        return out

    def stores(self, prefix: Optional[str] = None) -> List[Tuple[int, str, Optional[ast.AST]]]:
        """(node, variable, value expr) of every definition (entry pseudo-definitions excluded)."""
        out = []
        for n in sorted(self.cfg.nodes):
            if self.cfg.nodes[n].kind == "entry":
                continue
            for var, tgt, val in self.cfg.defs_at(n):
                if prefix is None or var.startswith(prefix):
                    out.append((n, var, val))
        return out

    def ret_ast(self, n: int, depth: int = 3) -> Tuple[Optional[ast.AST], int]:
        """The expression a return statement delivers: a bare name that has exactly one reaching definition, a plain single
        assignment, is resolved to that assignment's value (``tmp = E; return tmp`` is ``return E``).  -> (expr, node at which
        the expression is evaluated)."""
        nd = self.cfg.nodes[n]
        e = nd.ast.value if nd.kind == "stmt" and isinstance(nd.ast, ast.Return) else None
        at = n
        for _ in range(depth):
            if not isinstance(e, ast.Name):
                break
            defs = self.cfg.reaching().get(at, {}).get(e.id, set())
            if len(defs) != 1:
                break
            (d,) = defs
            dn = self.cfg.nodes[d]
            if dn.kind != "stmt" or not isinstance(dn.ast, ast.Assign) or len(dn.ast.targets) != 1 \
                    or not isinstance(dn.ast.targets[0], ast.Name):
                break
            # only resolve pure temporaries: the name is not used anywhere else
            other_uses = 0
            for m in self.cfg.nodes:
                mn = self.cfg.nodes[m]
                bare_return = mn.kind == "stmt" and isinstance(mn.ast, ast.Return) and isinstance(mn.ast.value, ast.Name) \
                    and mn.ast.value.id == e.id
                if bare_return:
                    continue
                other_uses += sum(1 for y in self.cfg.walk_node(m)
                                  if isinstance(y, ast.Name) and y.id == e.id and isinstance(y.ctx, ast.Load))
            if other_uses:
                break
            e, at = dn.ast.value, d
        return e, at

    def updates(self, var: str, ops=(ast.Add, ast.Sub)) -> List[Tuple[int, type, ast.AST]]:
        """(node, operator class, operand expression) of every in-place style update of ``var`` (a local name or 'self.attr'):
        ``var op= e`` and ``var = var op e`` (for +, also ``var = e + var``)."""
        out = []

        def is_var(e):
            if "." in var:
                base, attr = var.split(".", 1)
                return isinstance(e, ast.Attribute) and e.attr == attr and isinstance(e.value, ast.Name) and e.value.id == base
            return isinstance(e, ast.Name) and e.id == var

        for n in sorted(self.cfg.nodes):
            nd = self.cfg.nodes[n]
            if nd.kind != "stmt":
                continue
            st = nd.ast
            if isinstance(st, ast.AugAssign) and is_var(st.target) and isinstance(st.op, ops):
                out.append((n, type(st.op), st.value))
            elif isinstance(st, ast.Assign) and len(st.targets) == 1 and is_var(st.targets[0]) and isinstance(st.value, ast.BinOp) \
                    and isinstance(st.value.op, ops):
                if is_var(st.value.left):
                    out.append((n, type(st.value.op), st.value.right))
                elif is_var(st.value.right) and isinstance(st.value.op, ast.Add):
                    out.append((n, ast.Add, st.value.left))
        return out

    def yields(self) -> List[Tuple[int, ast.AST]]:
        out = []
        for n in sorted(self.cfg.nodes):
            for x in self.cfg.walk_node(n):
                if isinstance(x, (ast.Yield, ast.YieldFrom)):
                    out.append((n, x))
        return out


def _module_constant(m, name: str):
    """('const', v) when ``name`` is bound exactly once in the module, at top level, to a str / number / bool / None literal
    and no function declares it global - a named constant."""
    cache = m.__dict__.setdefault("_const_cache", {})
    if name in cache:
        return cache[name]
    val = None
    n_bind = 0
    for st in ast.walk(m.tree):
        if isinstance(st, ast.Global) and name in st.names:
            n_bind += 2
        elif isinstance(st, ast.Name) and st.id == name and isinstance(st.ctx, (ast.Store, ast.Del)):
            n_bind += 1
    for st in m.tree.body:
        if isinstance(st, ast.Assign) and len(st.targets) == 1 and isinstance(st.targets[0], ast.Name) and \
                st.targets[0].id == name and isinstance(st.value, ast.Constant) and not isinstance(st.value.value, bytes):
            val = ("const", st.value.value)
    # a local of the same name in some function also counts as a Store above: then only a unique top-level binding with
    # no other binding anywhere is accepted (conservative)
    r = val if (val is not None and n_bind == 1) else None
    cache[name] = r
    return r


def _non_none(t) -> Optional[bool]:
    """True if the term is definitely not None, False if definitely None."""
    if not isinstance(t, tuple) or not t:
        return None
    if t[0] == "const":
        return t[1] is not None
    if t[0] == "call":
        f = t[1]
        if f[0] == "global":
            last = f[1].rsplit(".", 1)[-1]
            if last[:1].isupper() or last in ("default_rng", "get_rng_from_global", "dict", "list", "tuple",
                                              "int", "float", "str", "len", "range", "set"):
                return True
        return None
    if t[0] in ("tuple", "list", "dict", "set", "comp", "fstr", "poly"):
        return True
    return None


def eval_truth(t, assume) -> Optional[bool]:
    from .sym import negate

    if t in assume:
        return assume[t]
    nt = negate(t)
    if nt in assume:
        return not assume[nt]
    if not isinstance(t, tuple) or not t:
        return None
    k = t[0]
    if k == "const":
        return bool(t[1])
    if k == "not":
        r = eval_truth(t[1], assume)
        return None if r is None else (not r)
    if k == "is":
        a, b = t[1]
        for x, y in ((a, b), (b, a)):
            if x == ("const", None):
                nn = _non_none(y)
                if nn is not None:
                    return not nn
        return None
    if k == "and":
        vals = [eval_truth(x, assume) for x in t[1]]
        if any(v is False for v in vals):
            return False
        if all(v is True for v in vals):
            return True
        return None
    if k == "or":
        vals = [eval_truth(x, assume) for x in t[1]]
        if any(v is True for v in vals):
            return True
        if all(v is False for v in vals):
            return False
        return None
    return None


_cache: Dict[Tuple[int, int], FA] = {}


def fa_of(prog: Program, fi: FuncInfo) -> FA:
    key = (id(prog), id(fi))
    r = _cache.get(key)
    if r is None or r.prog is not prog:
        r = FA(prog, fi)
        _cache[key] = r
        if len(_cache) > 5000:
            _cache.clear()
    return r
