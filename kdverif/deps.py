"""G4 - transitive dependence sets.

``Deps(fa).of(expr, at)`` = the set of *base* symbols the value of ``expr`` evaluated at CFG node ``at`` may depend
on: parameters ``('param', p)``, attributes of self that the function does not (re)define ``('self', a)``,
resolved globals ``('global', dotted)`` - reached backwards through

* data dependences: reaching definitions of every local / ``self.attr`` pseudo-variable that occurs in the term
  (value expressions of plain assignments, the old value and the operand of augmented assignments, the
  iterable of a ``for`` target, the context expression of a ``with`` target), and
* control dependences: the tests that decide which of several definitions reaches the use (the branch
  conditions dominating each definition).

This is the classical backward slice restricted to one function, an over-approximation of functional
dependence - so a rule of the form "Dep must include X" can only fail when the value really cannot depend on X.
"""
from __future__ import annotations

import ast
from typing import Dict, FrozenSet, Optional, Set, Tuple

from .fa import FA
from .sym import Term, leaves


class Deps:
    def __init__(self, fa: FA, control: bool = True, asserts: bool = True):
        self.fa = fa
        self.control = control
        self.asserts = asserts  # False: an assert that dominates a definition does not count as a control dependence
        self._memo: Dict[Tuple[str, int], FrozenSet[Term]] = {}
        self._active: Set[Tuple[str, int]] = set()

    def of(self, e: ast.AST, at: int) -> FrozenSet[Term]:
        return self.of_term(self.fa.sym.term(e, at))

    def of_var(self, name: str, at: int) -> FrozenSet[Term]:
        """Dependences of the local ``name`` as it is when node ``at`` executes (reaching definitions + everything stored
        into / appended to the object)."""
        defs = frozenset(self.fa.cfg.reaching().get(at, {}).get(name, ()))
        if not defs:
            return frozenset()
        return self.of_term(("var", name, defs))

    def of_term(self, t: Term) -> FrozenSet[Term]:
        out: Set[Term] = set()
        for lf in leaves(t):
            if lf[0] == "var":
                for d in lf[2]:
                    out |= self._of_def(lf[1], d)
                out |= self._container_deps(lf[1])
            elif lf[0] in ("param", "self", "global"):
                out.add(lf)
        return frozenset(out)

    def _container_deps(self, name: str) -> FrozenSet[Term]:
        """Element stores ``name[i] = v`` and in-place method calls ``name.m(args)`` anywhere in the function contribute
        their index, value, arguments and control dependences (flow-insensitive)."""
        key = (name + "[]", -1)
        if key in self._memo:
            return self._memo[key]
        if key in self._active:
            return frozenset()
        self._active.add(key)
        cfg = self.fa.cfg
        out: Set[Term] = set()
        for n in cfg.nodes:
            hit = False
            for var, tgt, val in cfg.defs_at(n):
                if var == name + "[]":
                    hit = True
                    if isinstance(tgt, ast.Subscript):
                        out |= self.of(tgt.slice, n)
                    nd = cfg.nodes[n]
                    if nd.kind == "stmt" and isinstance(nd.ast, (ast.Assign, ast.AugAssign)):
                        out |= self.of(nd.ast.value, n)
            for c in cfg.calls_at(n):
                f = c.func
                if isinstance(f, ast.Attribute) and f.attr.endswith("_") | (f.attr in ("append", "extend", "insert", "update",
                                                                                          "add", "sort", "remove")):
                    base = f.value
                    bn = base.id if isinstance(base, ast.Name) else (
                        f"{base.value.id}.{base.attr}" if isinstance(base, ast.Attribute) and isinstance(base.value, ast.Name)
                        else None)
                    if bn == name:
                        hit = True
                        for a in list(c.args) + [k.value for k in c.keywords]:
                            out |= self.of(a, n)
                # in-place operations that take the container as an argument: rng.shuffle(name)
                if isinstance(f, ast.Attribute) and f.attr in ("shuffle",) and any(
                        isinstance(a, ast.Name) and a.id == name for a in c.args):
                    hit = True
                    out |= self.of(f.value, n)
            if hit and self.control:
                for t_, lab in cfg.control_predicates(n):
                    tn = cfg.nodes[t_]
                    if tn.kind == "test":
                        if not self.asserts and isinstance(tn.owner, ast.Assert):
                            continue
                        out |= self.of(tn.ast, t_)
                    elif tn.kind == "next":
                        out |= self.of(tn.owner.iter, cfg.stmt_node[tn.owner])
        self._active.discard(key)
        res = frozenset(out)
        self._memo[key] = res
        return res

    def _of_def(self, var: str, d: int) -> FrozenSet[Term]:
        key = (var, d)
        if key in self._memo:
            return self._memo[key]
        if key in self._active:
            return frozenset()
        self._active.add(key)
        cfg = self.fa.cfg
        nd = cfg.nodes.get(d)
        out: Set[Term] = set()
        if nd is None:
            pass
        elif nd.kind == "entry":
            if "." in var:
                out.add(("self", var.split(".", 1)[1]))
            else:
                out.add(("param", var))
        else:
            if nd.kind == "next":
                loop = nd.owner
                out |= self.of(loop.iter, cfg.stmt_node[loop])
            elif nd.kind == "with":
                for item in nd.ast.items:
                    out |= self.of(item.context_expr, d)
            elif nd.kind == "stmt":
                st = nd.ast
                if isinstance(st, ast.AugAssign):
                    out |= self.of(st.value, d)
                    out |= self.of_term(self._prior(var, d))
                elif isinstance(st, (ast.Assign, ast.AnnAssign)) and st.value is not None:
                    out |= self.of(st.value, d)
                elif isinstance(st, (ast.FunctionDef, ast.AsyncFunctionDef, ast.ClassDef, ast.Import, ast.ImportFrom)):
                    pass
            else:
                for e in cfg.all_exprs(d):
                    out |= self.of(e, d)
            if self.control:
                for t_, lab in cfg.control_predicates(d):
                    tn = cfg.nodes[t_]
                    if tn.kind == "test":
                        if not self.asserts and isinstance(tn.owner, ast.Assert):
                            continue
                        out |= self.of(tn.ast, t_)
                    elif tn.kind == "next":
                        out |= self.of(tn.owner.iter, cfg.stmt_node[tn.owner])
        self._active.discard(key)
        res = frozenset(out)
        self._memo[key] = res
        return res

    def _prior(self, var: str, d: int) -> Term:
        defs = frozenset(self.fa.cfg.reaching().get(d, {}).get(var, ()))
        if not defs:
            return ("const", None)
        return ("var", var, defs)
