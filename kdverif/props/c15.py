"""C15 - strength scaling interpolates from identity to the configured augmentation (DESIGN §4 C15)."""
from __future__ import annotations

import ast
from fractions import Fraction
from typing import Dict, List, Optional, Set, Tuple

from ..core import Report
from ..fa import FA, fa_of
from ..model import ClassInfo, FuncInfo, Program
from ..rules import names
from ..rules.hooks import Forwarding, Ownership
from ..sym import Poly, Term, leaves, show, subterms, term_to_poly
from ..types_ import walk_expr_body

INF = float("inf")
# identity point (value at factor 0) of a scaled attribute, by attribute name; a string names another attribute
IDENTITY: Dict[str, object] = {
    "brightness_lb": 1, "brightness_ub": 1, "contrast_lb": 1, "contrast_ub": 1, "saturation_lb": 1, "saturation_ub": 1,
    # torchvision adjust_brightness / contrast / saturation with factor 1 return the input
    "hue_lb": 0, "hue_ub": 0,  # adjust_hue(x, 0) returns the input
    "p": 0,  # probability 0: never applied
    "threshold": (256, 1),  # solarize: PIL threshold 256 / tensor threshold 1.0 invert nothing
    "sigma_ub": "sigma_lb",  # the weakest blur the transform was configured with
    "degree_lb": 0, "degree_ub": 0,  # rotation by 0 degrees
    "magnitude": 0, "magnitude_std": 0, "magnitude_min": 0, "magnitude_max": 0,  # magnitude 0: no-op for every op
}
# range of the constructed original (og_*) values: fixed by the third-party constructor that preprocessed them
RANGES: Dict[str, Tuple[float, float]] = {
    # torchvision ColorJitter._check_input(center=1, bound=(0, inf), clip_first_on_zero=True)
    "og_brightness_lb": (0, INF), "og_brightness_ub": (0, INF), "og_contrast_lb": (0, INF), "og_contrast_ub": (0, INF),
    "og_saturation_lb": (0, INF), "og_saturation_ub": (0, INF),
    # torchvision ColorJitter._check_input(center=0, bound=(-0.5, 0.5), clip_first_on_zero=False)
    "og_hue_lb": (-0.5, 0.5), "og_hue_ub": (-0.5, 0.5),
}
TRANSPARENT = {"int", "float", "round"}


def peel(t: Term) -> Tuple[List[tuple], Term]:
    """Strip clamp / conversion wrappers: -> ([('max', c) | ('min', c) | ('conv', name)], inner term)."""
    layers = []
    while t[0] == "call" and t[1][0] == "global" and not t[3]:
        fn = t[1][1]
        if fn in ("max", "min") and len(t[2]) == 2:
            a, b = t[2]
            ca, cb = term_to_poly(a).const_value(), term_to_poly(b).const_value()
            if ca is not None and cb is None:
                layers.append((fn, ca))
                t = b
                continue
            if cb is not None and ca is None:
                layers.append((fn, cb))
                t = a
                continue
            break
        if fn in TRANSPARENT and len(t[2]) == 1:
            layers.append(("conv", fn))
            t = t[2][0]
            continue
        break
    return layers, t


def og_pairs(prog: Program, own: Ownership, C: ClassInfo) -> Dict[str, Set[str]]:
    """attr -> attributes that hold the same constructed value (chained assignment / copy in a constructor)."""
    pairs: Dict[str, Set[str]] = {}
    for owner, fi in own.types.init_chain(C):
        ps = fi.params()
        for n in walk_expr_body(fi.node):
            if isinstance(n, ast.Assign):
                tg = [t.attr for t in n.targets if isinstance(t, ast.Attribute) and isinstance(t.value, ast.Name)
                      and t.value.id == ps[0]]
                if len(tg) >= 2:
                    for a in tg:
                        pairs.setdefault(a, set()).update(x for x in tg if x != a)
                if len(tg) == 1 and isinstance(n.value, ast.Attribute) and isinstance(n.value.value, ast.Name) \
                        and n.value.value.id == ps[0]:
                    pairs.setdefault(tg[0], set()).add(n.value.attr)
                    pairs.setdefault(n.value.attr, set()).add(tg[0])
        # separate assignments of one and the same value (same normal form: 'v = f(..); self.a = v; self.og_a = v')
        fa = fa_of(prog, fi)
        by_term: Dict[object, Set[str]] = {}
        for n, var, val in fa.stores(f"{ps[0]}."):
            if val is None or var.endswith("[]"):
                continue
            by_term.setdefault(fa.sym.term(val, n), set()).add(var.split(".", 1)[1])
        for t, attrs in by_term.items():
            if len(attrs) >= 2 and t is not None:
                for a in attrs:
                    pairs.setdefault(a, set()).update(x for x in attrs if x != a)
    return pairs


def scaling_functions(prog: Program, own: Ownership) -> List[Tuple[ClassInfo, FuncInfo]]:
    out = []
    for C in own.family:
        f = C.methods.get("_scale_strength")
        if f is not None and C is not own.root:
            out.append((C, f))
    ms = prog.cls("MagnitudeSampler", required=False)
    if ms is not None and "scale_strength" in ms.methods:
        out.append((ms, ms.methods["scale_strength"]))
    return out


def run(prog: Program, rep: Report, tier: str):
    own = Ownership(prog, "KDTransform")
    fwd = Forwarding(prog, own)
    rep.trusted += ["IDENTITY table of kdverif/props/c15.py: the value of each scaled attribute that makes the transform a no-op "
                    "(one reason per row)", "RANGES table: ranges of the originals fixed by torchvision's ColorJitter "
                    "preprocessing", "int() / float() / round() around an interpolation are value-preserving at the end points "
                    "(the branch guards check the original's type)"]
    rep.not_decided += ["monotonic movement of the *sampled* parameters", "partial final batches / real multi-worker schedules",
                        "non-affine interpolation formulas (reported as undecided, never as violations)"]
    rep.rule("G6.scale-endpoints", "every attribute written by a _scale_strength is an affine function of the factor (possibly "
             "inside max/min clamps and int/float conversions) that equals the attribute's constructed original (its og_* "
             "partner from the constructor) at factor 1 - clamps must be non-binding there for every original in the range "
             "the constructor admits - and the identity point of the IDENTITY table at factor 0")
    rep.rule("G8.no-compounding", "a _scale_strength never reads (in a value it stores) an attribute that a _scale_strength of "
             "the same class writes: the result depends on the last factor only; og_* attributes are written in "
             "constructors only; delegating forms pass the received factor on unchanged")
    rep.rule("G3.scale-forward", "every transform class that owns members supporting strength scaling forwards "
             "scale_strength(<received factor>) to each of them on every path of the _scale_strength it resolves")
    rep.rule("G7.falsy-zero", "a _scale_strength decides whether a component is configured by 'is None' / 'is not None' on its "
             "constructed original, never by its truth value: 0 (and 0.0) is a legal original - a lower bound of 0, a probability "
             "of 0 - and a component whose original is 0 must still be scaled")
    fns = scaling_functions(prog, own)
    rep.floor("classes with their own strength scaling", len(fns), 15)
    n_attr = 0
    for C, fi in fns:
        fa = fa_of(prog, fi)
        rep.analysed_add("functions", f"{fi.module.relpath}:{fi.qualname}")
        ps = fi.params()
        if len(ps) < 2:
            continue
        for n_, nd_ in fa.cfg.nodes.items():
            if nd_.kind != "test" or isinstance(nd_.owner, ast.Assert):
                continue
            for atom in _truth_atoms(nd_.ast):
                r_ = fa.referent(atom, n_)
                e_ = fa.expand(atom, n_)
                for cand in (r_, e_, atom):
                    if isinstance(cand, ast.Attribute) and isinstance(cand.value, ast.Name) and cand.value.id == ps[0] and \
                            cand.attr.startswith("og_"):
                        rep.bad("G7.falsy-zero", fi, f"truthiness:{cand.attr}", f"line {nd_.lineno} branches on the truth value of "
                                f"self.{cand.attr}: an original of 0 is treated like a component that is not configured (None) and "
                                f"is never scaled", line=nd_.lineno, clause="C15.2")
                        break
        F = ("param", ps[1])
        pairs = og_pairs(prog, own, C)
        written = {var.split(".", 1)[1] for n, var, val in fa.stores(f"{ps[0]}.")}
        for n, var, val in fa.stores(f"{ps[0]}."):
            attr = var.split(".", 1)[1]
            construct = f"attr:{attr}"
            t = None
            if val is None:
                t = _component_term(prog, C, fa, n, var)
                if t is None:
                    rep.unk("G6.scale-endpoints", fi, construct, "augmented / tuple assignment not modelled", line=fa.line(n),
                            clause="C15.2")
                    continue
            n_attr += 1
            if t is None:
                t = fa.sym.term(val, n)
            # compounding: reads of written attributes
            reads = {lf[1] for lf in leaves(t) if lf[0] == "self"} | {lf[1][5:] for lf in leaves(t)
                                                                        if lf[0] == "var" and lf[1].startswith("self.")}
            comp = sorted(reads & written)
            rep.decide(not comp, "G8.no-compounding", fi, construct, "computed from originals / unscaled attributes only",
                       f"self.{attr} is computed from self.{', self.'.join(comp)}, which scaling itself overwrites: repeated "
                       f"scale_strength calls compound instead of depending on the last factor only", line=fa.line(n),
                       clause="C15.1")
            if attr.startswith("og_"):
                rep.bad("G8.no-compounding", fi, construct, f"the original self.{attr} is overwritten outside the constructor",
                        line=fa.line(n), clause="C15.3")
                continue
            layers, inner = peel(t)
            p = term_to_poly(inner)
            if F not in p.atoms() and attr not in IDENTITY:
                rep.unk("G6.scale-endpoints", fi, construct, f"self.{attr} = {show(t)} does not involve the factor",
                        line=fa.line(n), clause="C15.2")
                continue
            if p.degree_in(F) > 1 or any(F in {lf for lf in leaves(a)} for a in p.atoms() if a != F):
                rep.unk("G6.scale-endpoints", fi, construct, f"self.{attr} = {show(t)} is not affine in the factor",
                        line=fa.line(n), clause="C15.2")
                continue
            p1 = p.subst(F, Poly.const(1))
            p0 = p.subst(F, Poly.const(0))
            problems = []
            # ---- factor 1
            og = None
            a1 = list(p1.atoms())
            if len(p1.terms) == 1 and len(a1) == 1 and p1.coeff_of(a1[0]).const_value() == 1 and a1[0][0] == "self":
                og = a1[0][1]
            partners = pairs.get(attr, set())
            if og is None or og not in partners:
                want = ", ".join(f"self.{x}" for x in sorted(partners)) or "its constructed original"
                problems.append(f"at factor 1 the value is {p1!r}, not {want}")
            else:
                for kind, c in layers:
                    if kind in ("max", "min"):
                        rng = RANGES.get(og)
                        if rng is None:
                            problems.append(None)  # undecided marker
                            continue
                        if kind == "max" and rng[0] < c:
                            problems.append(f"at factor 1 the clamp max({c}, .) is binding for originals below {c} "
                                            f"(self.{og} ranges over [{rng[0]}, {rng[1]}]): the constructed range is not "
                                            f"restored")
                        if kind == "min" and rng[1] > c:
                            problems.append(f"at factor 1 the clamp min({c}, .) is binding for originals above {c} "
                                            f"(self.{og} ranges over [{rng[0]}, {rng[1]}])")
            # ---- factor 0
            ident = IDENTITY.get(attr)
            if ident is None:
                problems.append(None)
            else:
                c0 = p0.const_value()
                if isinstance(ident, str):
                    if p0 != Poly.atom(("self", ident)):
                        problems.append(f"at factor 0 the value is {p0!r}, not self.{ident}")
                elif c0 is None:
                    problems.append(f"at factor 0 the value is {p0!r}, not the identity point {ident}")
                else:
                    v = c0
                    for kind, c in reversed(layers):
                        if kind == "max":
                            v = max(v, c)
                        elif kind == "min":
                            v = min(v, c)
                    idents = ident if isinstance(ident, tuple) else (ident,)
                    if v not in [Fraction(i) for i in idents]:
                        problems.append(f"at factor 0 the value is {float(v)}, not the identity point "
                                        f"{' / '.join(map(str, idents))}")
            real = [x for x in problems if x]
            verdict = False if real else (None if problems else True)
            rep.decide(verdict, "G6.scale-endpoints", fi, construct,
                       f"self.{attr}: {p!r}" + (f" within {layers}" if layers else "") + f": original self.{og} at 1, identity at 0",
                       "; ".join(real) or f"self.{attr}: no IDENTITY / RANGES entry for this attribute", line=fa.line(n),
                       clause="C15.2")
        # delegating calls pass the factor on
        for n, c in fa.calls_named("scale_strength"):
            arg = fa.sym.term(c.args[0], n) if c.args else None
            rep.decide(arg == F, "G8.no-compounding", fi, f"delegate:{' '.join(ast.unparse(c.func).split())}",
                       "passes the received factor on", f"passes {show(arg) if arg else 'nothing'} instead of the received "
                       f"factor", line=c.lineno, clause="C15.1", nontrivial=False)
    rep.floor("attributes written by strength scaling", n_attr, 18)
    # og_* written only in constructors
    n_og = 0
    for C in own.family + [c for c in [prog.cls("MagnitudeSampler", required=False)] if c is not None]:
        for fi in C.methods.values():
            if fi.name == "__init__" or fi.is_static or not fi.params():
                continue
            fa = fa_of(prog, fi)
            for n, var, val in fa.stores(f"{fi.params()[0]}."):
                if var.split(".", 1)[1].startswith("og_"):
                    n_og += 1
                    rep.bad("G8.no-compounding", fi, f"attr:{var.split('.', 1)[1]}", f"{fi.qualname} overwrites the "
                            f"constructed original {var}", line=fa.line(n), clause="C15.3")
    # ---- forwarding through composites -----------------------------------------------------------------------------
    needs = own.needs("scale")
    from .c07 import passes_received_arg
    n_fw = 0
    for C in own.family:
        members = own.members(C)
        todo = {m: ts for m, ts in members.items() if any(own.type_needs(t, needs) for t in ts)}
        if not todo:
            continue
        fi = C.lookup("_scale_strength")
        if C.name == "KDScheduledTransform":
            continue  # drives the strength of its member itself (clause 5)
        for m, ts in sorted(todo.items(), key=lambda kv: str(kv[0])):
            needed = own.needed_classes(ts, needs)
            if not needed:
                continue
            n_fw += 1
            ok, why = fwd.check(C, fi, m, {"scale_strength", "_scale_strength"}, needed, arg_ok=passes_received_arg)
            o = rep.decide(ok, "G3.scale-forward", C.module, f"member:{m}", why, why, line=C.node.lineno, clause="C15.4")
            o.func = f"{C.name}._scale_strength"
    rep.floor("owned members supporting strength scaling", n_fw, 10)
    scheduled(prog, rep)
    mods = sorted({fi.module.relpath for _, fi in fns} | {"kappadata/transforms/base/kd_scheduled_transform.py",
                                                          "kappadata/transforms/base/kd_transform.py"})
    names.check(prog, rep, mods, clause="C15.G1", floor=40)


def _subst(t, mapping):
    if isinstance(t, tuple):
        if t in mapping:
            return mapping[t]
        return tuple(_subst(x, mapping) for x in t)
    return t


def _renorm(t):
    from ..sym import poly_term
    if isinstance(t, tuple) and t:
        if t[0] == "poly":
            p = Poly()
            for mono, c in t[1]:
                m = Poly.const(Fraction(*c))
                for a, pw in mono:
                    for _ in range(pw):
                        m = m * term_to_poly(_renorm(a))
                p = p + m
            return poly_term(p)
        return tuple(_renorm(x) for x in t)
    return t


def _component_term(prog: Program, C: ClassInfo, fa: FA, n: int, var: str) -> Optional[Term]:
    """self.a, self.b = self.helper(args): the term of the component bound to ``var``, obtained by inlining the helper's single
    'return x, y' with its parameters replaced by the argument terms."""
    st = fa.cfg.nodes[n].ast
    if not (isinstance(st, ast.Assign) and isinstance(st.targets[0], ast.Tuple) and isinstance(st.value, ast.Call)):
        return None
    names_ = [f"{e.value.id}.{e.attr}" if isinstance(e, ast.Attribute) and isinstance(e.value, ast.Name) else getattr(e, "id", None)
              for e in st.targets[0].elts]
    if var not in names_:
        return None
    k = names_.index(var)
    f = st.value.func
    if not (isinstance(f, ast.Attribute) and isinstance(f.value, ast.Name)):
        return None
    h = C.lookup(f.attr)
    if h is None:
        return None
    ha = fa_of(prog, h)
    rets = [t for _, t in ha.returns() if t is not None]
    if len(rets) != 1 or rets[0][0] != "tuple" or len(rets[0][1]) <= k:
        return None
    hps = h.params()
    if not h.is_static:
        hps = hps[1:]
    mapping = {}
    for i, a in enumerate(st.value.args):
        if i < len(hps):
            mapping[("param", hps[i])] = fa.sym.term(a, n)
    for kw in st.value.keywords:
        if kw.arg in hps:
            mapping[("param", kw.arg)] = fa.sym.term(kw.value, n)
    return _renorm(_subst(rets[0][1][k], mapping))


def scheduled(prog: Program, rep: Report):
    rep.rule("G6.schedule-index", "KDScheduledTransform.__call__: the global batch index is (sample_counter // batch_size) * "
             "num_workers + rank over the attributes the worker hook stored; the strength is schedule.get_value(<that index>, "
             "n_batches); the counter grows by exactly 1 per call on that path; the value passed to scale_strength is the "
             "value stored in the context; the wrapped transform is applied after the scaling; the worker hook stores rank, "
             "num_workers and batch_size from its parameters of the same name")
    C = prog.cls("KDScheduledTransform")
    fi = C.methods.get("__call__")
    rep.require(fi is not None, "anchor-missing: KDScheduledTransform.__call__")
    fa = fa_of(prog, fi)
    cfg = fa.cfg
    rep.analysed_add("functions", f"{fi.module.relpath}:{fi.qualname}")
    gv = [(n, c) for n, c in fa.calls_named("get_value")]
    rep.require(gv, "anchor-missing: schedule.get_value call")
    n, c = gv[0]
    idx = term_to_poly(fa.sym.term(c.args[0], n)) if c.args else None
    sc = ("self", "sample_counter")
    # sample_counter is stored in the function: its term at the call is the entry value version
    atoms = list(idx.atoms()) if idx is not None else []
    fl = [a for a in atoms if a[0] == "binop" and a[1] == "//"]
    ok = False
    why = f"batch index {idx!r} is not (sample_counter // batch_size) * num_workers + rank"
    if len(fl) == 1:
        num, den = fl[0][2], fl[0][3]
        num_ok = num == sc or (num[0] == "var" and num[1] == "self.sample_counter")
        want = Poly.atom(fl[0]) * Poly.atom(("self", "num_workers")) + Poly.atom(("self", "rank"))
        ok = num_ok and den == ("self", "batch_size") and idx == want
    rep.decide(ok, "G6.schedule-index", fi, "batch-index", "batch index = (sample_counter // batch_size) * num_workers + rank",
               why, line=c.lineno, clause="C15.5")
    tot = fa.sym.term(c.args[1], n) if len(c.args) > 1 else None
    rep.decide(tot == ("self", "n_batches"), "G6.schedule-index", fi, "total", "schedule evaluated against n_batches",
               f"schedule evaluated against {show(tot) if tot else '?'}", line=c.lineno, clause="C15.5", nontrivial=False)
    incs = [(m, op, e) for m, op, e in fa.updates(f"{fa.self_name}.sample_counter", ops=(ast.Add, ast.Sub))]
    stores = [m for m, var, val in fa.stores() if var.endswith(".sample_counter")]
    ok = len(incs) == 1 and len(stores) == 1 and incs[0][1] is ast.Add and \
        term_to_poly(fa.sym.term(incs[0][2], incs[0][0])).const_value() == 1 and \
        (fa.conds_at(incs[0][0]) == fa.conds_at(n) or all(c_ in fa.conds_at(n) for c_ in fa.conds_at(incs[0][0]))) and (
            cfg.reachable(n, incs[0][0]) or (
            # ... or the index was computed from the counter as it was before the increment (a hoisted temporary)
            len(fl) == 1 and (fl[0][2] == sc or (fl[0][2][0] == "var" and incs[0][0] not in fl[0][2][2]))))
    rep.decide(ok, "G6.schedule-index", fi, "counter", "sample_counter += 1 once per scheduled call, after the index was computed",
               "the sample counter is not incremented by exactly 1 per scheduled call after the batch index was computed",
               line=fa.line(incs[0][0]) if incs else fi.node.lineno, clause="C15.5")
    ss = [(m, c2) for m, c2 in fa.calls_named("scale_strength")]
    ctx_st = [(m, val) for m, var, val in fa.stores() if var == "ctx[]" and val is not None]
    sval = fa.sym.term(ss[0][1].args[0], ss[0][0]) if ss and ss[0][1].args else None
    want_s = fa.sym.term(c, n)
    ok = sval is not None and all(fa.sym.term(val, m) == sval for m, val in ctx_st) and bool(ctx_st) and (
        sval == want_s or (sval[0] == "var" and cfg.reaching().get(ss[0][0], {}).get(sval[1]) == {n}))
    if not ok and sval is not None and all(fa.sym.term(val, m) == sval for m, val in ctx_st) and bool(ctx_st):
        # applied == reported, but the value reaches them through a cache / several definitions one of which is the schedule's
        # value: whether the cached value is the value of the current batch is not decided here
        names_ = {lf[1] for lf in leaves(sval) if lf[0] == "var"} | {f"{fa.self_name}.{lf[1]}" for lf in leaves(sval) if lf[0] == "self"}
        defs_ = [val for m, var, val in fa.stores() if var in names_ and val is not None]
        if any(isinstance(v_, ast.Call) and isinstance(v_.func, ast.Attribute) and v_.func.attr == "get_value" for v_ in defs_):
            ok = None
    rep.decide(ok, "G6.schedule-index", fi, "reported-strength", "scale_strength(v) and ctx[...] = v with v the schedule's value",
               "the strength applied differs from the strength reported in the context (or is not the schedule's value)",
               line=ss[0][1].lineno if ss else fi.node.lineno, clause="C15.5")
    # applied after scaling
    applies = [m for m, c2 in fa.calls() if fa.sym.term(c2.func, m) == ("self", "transform")]
    ok = bool(applies) and bool(ss) and all(not cfg.reachable(a, ss[0][0]) for a in applies)
    rep.decide(ok, "G6.schedule-index", fi, "scale-then-apply", "the wrapped transform is applied after it was scaled",
               "the wrapped transform is applied before the strength of this sample was set", clause="C15.5")
    wi = C.methods.get("_worker_init_fn")
    if wi is not None:
        wa = fa_of(prog, wi)
        rep.analysed_add("functions", f"{wi.module.relpath}:{wi.qualname}")
        # schedule length in epochs mode: epochs * (batches per epoch), the per-epoch count rounded per epoch
        rep.rule("G6.schedule-length", "with an epochs budget the schedule length is epochs * <batches per epoch>, the per-epoch "
                 "count being dataset_len // batch_size (drop_last) or its ceiling - rounded once per epoch, not once over the "
                 "whole run; with an updates budget it is the number of updates")
        ep = ("param", "epochs")
        for m, var, val in wa.stores():
            if var != f"{wa.self_name}.n_batches" or val is None:
                continue
            conds = wa.conds_at(m, asserts=False)
            if not any(c[0] == "not" and c[1][0] == "is" and ep in c[1][1] for c in conds):
                continue
            srcs = [wa.sym.term(val, m)]
            # resolve a versioned 'batches_per_epoch' factor into its definitions
            p = term_to_poly(srcs[0])
            ok = None
            why = f"schedule length {p!r} of unrecognised shape"
            if p.degree_in(ep) == 1 and p.coeff_of(ep) * Poly.atom(ep) == p:
                per = p.coeff_of(ep)
                atoms = list(per.atoms())
                cands = []
                if len(atoms) == 1 and per == Poly.atom(atoms[0]):
                    a = atoms[0]
                    if a[0] == "var":
                        for d in a[2]:
                            v2 = wa.cfg.def_value(d, a[1])
                            if v2 is not None:
                                cands.append(wa.sym.term(v2, d))
                    else:
                        cands.append(a)
                ok = bool(cands) and all(c[0] == "binop" and c[1] == "//" and not any(x == ep for x in leaves(c)) for c in cands)
                why = "epochs * (per-epoch floor / ceiling division)" if ok else why
                if ok and len(cands) >= 2:
                    # sibling arms (drop_last / not): floor and ceiling of one and the same per-rank length
                    bases = set()
                    for c in cands:
                        num, den = term_to_poly(c[2]), term_to_poly(c[3])
                        ceil_form = num - den + Poly.const(1)
                        bases.add(repr(ceil_form) if (num - den).const_value() is None and den in [Poly.atom(a) for a in num.atoms()]
                                  and num.coeff_of(list(den.atoms())[0]).const_value() == 1 and (num - den + Poly.const(1)).degree_in(
                                      list(den.atoms())[0]) == 0 else repr(num))
                    if len(bases) > 1:
                        ok = False
                        why = ("the drop_last and the non-drop_last arm count the batches of different lengths (" + " vs ".join(
                            sorted(bases)) + "): one of them is not the per-rank share of the dataset, so the schedule is too long "
                            "or too short by the world size in that mode")
            else:
                fl = [a for a in p.atoms() if a[0] == "binop" and a[1] == "//" and ep in leaves(a)]
                if fl:
                    ok = False
                    why = (f"the schedule length is {show(fl[0])[:80]}: the division is applied to epochs * dataset_len as a whole, "
                           f"which exceeds epochs * (dataset_len // batch_size) whenever the remainders of several epochs add up to "
                           f"a batch - the schedule never reaches its end value")
            rep.decide(ok, "G6.schedule-length", wi, f"n_batches@{'drop_last' if any(c == ('param', 'drop_last') for c in conds) else 'no_drop_last'}",
                       why, why, line=wa.line(m), clause="C15.5")
        for a in ("rank", "num_workers", "batch_size"):
            st = [(m, val) for m, var, val in wa.stores() if var == f"{wa.self_name}.{a}" and val is not None]
            ok = bool(st) and all(wa.sym.term(val, m) == ("param", a) for m, val in st)
            rep.decide(ok, "G6.schedule-index", wi, f"hook:{a}", f"self.{a} = {a}",
                       f"the worker hook does not store its parameter '{a}' into self.{a}", clause="C15.5", nontrivial=False)


def _truth_atoms(e):
    """names / attributes whose truth value (not a comparison) decides a test"""
    if isinstance(e, ast.BoolOp):
        for v in e.values:
            yield from _truth_atoms(v)
    elif isinstance(e, ast.UnaryOp) and isinstance(e.op, ast.Not):
        yield from _truth_atoms(e.operand)
    elif isinstance(e, (ast.Name, ast.Attribute)):
        yield e
