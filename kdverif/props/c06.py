"""C06 - resuming the interleaved scheduler yields the suffix of the uninterrupted run (DESIGN §4 C06)."""
from __future__ import annotations

import ast
from typing import Dict, List, Optional, Set, Tuple

from ..core import Report
from ..deps import Deps
from ..fa import FA, eval_truth, fa_of
from ..model import Program
from ..rules import names
from ..sym import Poly, Term, leaves, negate, poly_term, show, subterms, term_to_poly
from ..rules.seeded import simplify
from .sampler_common import FILE, Roles

UNITS = ("epoch", "update", "sample")
NONE = ("const", None)
GEOMETRY = ("main_sampler", "batch_size", "drop_last", "drop_last_batch_size")
# values that are truthy whenever they are not None (constructor asserts: 0 < batch_size, batch_size <= drop_last_batch_size)
TRUTHY_WHEN_GIVEN = {"drop_last_batch_size", "batch_size"}


def is_none(x: Term) -> Term:
    return ("is", tuple(sorted((NONE, x), key=repr)))


def _map_params(t, mapping: Dict[str, str]):
    """('param', p) -> ('self', mapping[p])"""
    if isinstance(t, tuple):
        if len(t) == 2 and t[0] == "param" and t[1] in mapping:
            return ("self", mapping[t[1]])
        return tuple(_map_params(x, mapping) for x in t)
    return t


def _renorm(t):
    """Re-normalise a term after substitution (polynomial keys are sorted by repr of their atoms)."""
    if isinstance(t, tuple) and t:
        if t[0] == "poly":
            p = Poly()
            from fractions import Fraction
            for mono, c in t[1]:
                m = Poly.const(Fraction(*c))
                for a, pw in mono:
                    for _ in range(pw):
                        m = m * term_to_poly(_renorm(a))
                p = p + m
            return poly_term(p)
        return tuple(_renorm(x) for x in t)
    return t


def _simplify_or(t, assume):
    """Value-semantics simplification of 'a or b' chains under None-ness assumptions."""
    if isinstance(t, tuple) and t:
        if t[0] == "or" and not all(isinstance(x, tuple) and x and x[0] in ("lt", "le", "eq", "ne", "not", "is") for x in t[1]):
            parts = [_simplify_or(x, assume) for x in t[1]]
            keep = []
            for x in parts:
                nn = eval_truth(is_none(x), assume)
                if nn is True:
                    continue  # None: falsy, skipped
                name = x[1] if x[0] in ("param", "self") else None
                if nn is False and name in TRUTHY_WHEN_GIVEN:
                    keep.append(x)
                    break
                keep.append(x)
            if len(keep) == 1:
                return keep[0]
            return ("or", tuple(keep))
        return tuple(_simplify_or(x, assume) for x in t)
    return t


def run(prog: Program, rep: Report, tier: str):
    R = Roles(prog, "_training_loop")
    fa, cfg, fi = R.fa, R.fa.cfg, R.fi
    init = prog.method("InterleavedSampler", "__init__", own=True)
    ia = fa_of(prog, init)
    icfg = ia.cfg
    rep.analysed_add("functions", f"{FILE}:{fi.qualname}")
    rep.analysed_add("functions", f"{FILE}:{init.qualname}")
    rep.trusted += ["checkpoints lie on epoch boundaries (the property's domain; the constructor rejects others in the "
                    "start_update / start_sample branches)",
                    "frozen: drop_last_batch_size / batch_size are truthy whenever given (constructor asserts 0 < batch_size "
                    "<= drop_last_batch_size)"]
    rep.not_decided += ["equality of the two whole runs for every geometry, budget and config set (only the derivation of the "
                        "checkpoint, the initialisation of every progress-carrying local and the agreement of the epoch length "
                        "between constructor and loop are decided)"]
    if R.main_iter is None and R.chunk_source_node is not None:
        from .c04 import chunked_main_loop
        chunked_main_loop(rep, R, "C06.1")
        return
    rep.require(R.main_iter is not None, "anchor-missing: loop over self.main_sampler in _training_loop")

    # ---- 1. unit-consistent initialisation ---------------------------------------------------------------------
    rep.rule("G8.init-units", "the epoch / update / sample counters start from self.start_epoch / start_update / start_sample "
             "(one definition before the loop, of the matching unit); every other local that ever takes a copy of a global "
             "progress counter is initialised with the checkpoint value of the same unit, not with a constant")
    counters = {}
    for u in UNITS:
        c = R.counter_from(f"start_{u}")
        counters[u] = c
        if c is None:
            # which local is incremented like that unit's counter but initialised otherwise?
            cands = [v for v in R.locals_from(f"start_{u}") if R.increments(v)]
            rep.bad("G8.init-units", fi, f"counter:{u}", (f"no progress counter is initialised from self.start_{u}: a resumed "
                    f"run restarts its {u} count") if not cands else (f"{len(cands)} progress counters ({', '.join(cands)}) "
                    f"start from self.start_{u}: one of them counts another unit"), clause="C06.1")
            continue
        pre = [(n, val) for n, val, st in R.defs_of(c) if n not in R.loop_body_nodes(R.main_next)
               and not any(n == x for x, _ in R.increments(c))]
        ok = len(pre) == 1 and pre[0][1] is not None and fa.sym.term(pre[0][1], pre[0][0]) == ("self", f"start_{u}") \
            and cfg.dominates(pre[0][0], R.main_iter)
        rep.decide(ok, "G8.init-units", fi, f"counter:{u}", f"'{c}' = self.start_{u} before the loop",
                   f"'{c}' has more than one initial definition or is not initialised from self.start_{u}",
                   line=R.line(pre[0][0]) if pre else fi.node.lineno, clause="C06.1")
    for u in UNITS:
        c = counters[u]
        if c is None:
            continue
        for L in R.snapshots_of(c):
            inits = [(n, val) for n, val, st in R.defs_of(L) if n not in R.loop_body_nodes(R.main_next)]
            bad = []
            for n, val in inits:
                t = fa.sym.term(val, n) if val is not None else None
                if t != ("self", f"start_{u}"):
                    bad.append((n, t))
            ok = bool(inits) and not bad and all(cfg.dominates(n, R.main_iter) for n, _ in inits)
            rep.decide(ok, "G8.init-units", fi, f"snapshot:{L}",
                       f"'{L}' (a copy of the {u} counter) starts at self.start_{u}",
                       f"'{L}' holds copies of the {u} counter '{c}' but is initialised with "
                       f"{', '.join(show(t) if t else '?' for _, t in bad) or 'nothing'} instead of self.start_{u}: after a "
                       f"resume its first comparison mixes a checkpoint-relative value with a global count",
                       line=R.line(inits[0][0]) if inits else fi.node.lineno, clause="C06.1")

    # ---- epoch numbers announced to the main sampler (also for the first, resumed epoch) ---------------------------------
    if counters["epoch"] is not None:
        from .c04 import set_epoch_rule
        set_epoch_rule(rep, R, counters["epoch"], clause="C06.1")

    # ---- stores of the checkpoint ---------------------------------------------------------------------------------
    rep.rule("G9.checkpoint-stores", "__init__ stores the completed checkpoint component-wise: self.start_<unit> takes the "
             "local / parameter start_<unit> of the same unit, after the derivation")
    mapping = {}
    for n, var, val in ia.stores("self."):
        if val is not None:
            t = ia.sym.term(val, n)
            if t[0] == "param":
                mapping[t[1]] = var[5:]
    ckpt_var: Dict[str, str] = {}  # unit -> the local (or parameter) that holds the completed component
    for u in UNITS:
        st = [(n, val) for n, var, val in ia.stores() if var == f"self.start_{u}"]
        ok = None
        why = f"self.start_{u} is never stored"
        if st:
            ok = True
            for n, val in st:
                names_ = {lf[1] for lf in leaves(ia.sym.term(val, n)) if lf[0] in ("var", "param")} if val is not None else set()
                if len(names_) == 1 and isinstance(val, ast.Name):
                    v_ = next(iter(names_))
                    # the stored local is the completed component of *this* unit: some definition of it is the given parameter
                    # start_<u> itself (the pass-through branch), none is another unit's parameter
                    srcs = {lf[1] for d_, var_, val_ in ia.stores() if var_ == v_ and val_ is not None
                            for lf in [ia.sym.term(val_, d_)] if lf[0] == "param"} | ({v_} if v_ == f"start_{u}" else set())
                    other = {f"start_{w}" for w in UNITS if w != u}
                    if v_ == f"start_{u}" or (f"start_{u}" in srcs and not (srcs & other) and v_ not in other):
                        ckpt_var[u] = v_
                    elif v_ in other:
                        ok = False
                        why = f"self.start_{u} is stored from {v_}, not from start_{u}"
                    elif srcs & other:
                        ok = False
                        why = f"self.start_{u} is stored from '{v_}', which passes {', '.join(sorted(srcs & other))} through"
                    else:
                        ok = None
                        why = f"self.start_{u} is stored from '{v_}', whose relation to start_{u} is not recognised"
                else:
                    ok = False
                    why = f"self.start_{u} is stored from {', '.join(sorted(names_)) or 'a constant'}, not from start_{u}"
            if ok:
                why = f"self.start_{u} = {ckpt_var.get(u, 'start_' + u)}"
        else:
            ok = False
        rep.decide(ok, "G9.checkpoint-stores", init, f"store:start_{u}", why, why,
                   line=ia.line(st[0][0]) if st else init.node.lineno, clause="C06.2", nontrivial=False)

    # ---- the checkpoint is complete where it is used ------------------------------------------------------------------------
    rep.rule("G9.checkpoint-complete-at-use", "whatever __init__ keeps on the sampler besides the checkpoint itself (a store to "
             "self.<attr> other than self.start_<unit>) is computed from completed checkpoint components: following the "
             "definitions that reach the stored value backwards - with the checkpoint given through one component, or not at "
             "all - never arrives at the None of a start_<unit> parameter that was not given")
    early: Dict[Tuple[int, str], List[str]] = {}
    n_sinks = 0
    ck_attrs = {f"self.start_{u}" for u in UNITS}
    for g in list(UNITS) + [None]:
        case_ = {is_none(("param", f"start_{w}")): (w != g) for w in UNITS}
        pa_ = ia.prune(case_)
        pc_ = pa_.cfg
        reach_ = pc_.reaching()
        raw = {f"start_{u}" for u in UNITS if u != g}
        for n_, var_, val_ in pa_.stores("self."):
            if var_ in ck_attrs or val_ is None or n_ not in pc_.nodes or not pc_.reachable(pc_.entry, n_):
                continue
            n_sinks += 1
            seen_ = set()
            work_ = [(n_, x_.id) for x_ in ast.walk(val_) if isinstance(x_, ast.Name) and isinstance(x_.ctx, ast.Load)]
            hit_ = None
            while work_ and hit_ is None and len(seen_) < 4000:
                at_, nm_ = work_.pop()
                if (at_, nm_) in seen_:
                    continue
                seen_.add((at_, nm_))
                for d_ in reach_.get(at_, {}).get(nm_, set()):
                    if d_ not in pc_.nodes:
                        continue
                    if pc_.nodes[d_].kind == "entry":
                        if nm_ in raw:
                            hit_ = nm_
                        continue
                    dv_ = pc_.def_value(d_, nm_)
                    src_ = dv_ if dv_ is not None else pc_.nodes[d_].ast
                    if src_ is None:
                        continue
                    for y_ in ast.walk(src_):
                        if isinstance(y_, ast.Name) and isinstance(y_.ctx, ast.Load):
                            work_.append((d_, y_.id))
            if hit_ is not None:
                early.setdefault((n_, var_, hit_), []).append(f"start_{g}" if g else "nothing")
    for (n_, var_, v_), cases_ in sorted(early.items()):
        rep.bad("G9.checkpoint-complete-at-use", init, f"{var_}<-{v_}",
                f"{var_} (line {ia.line(n_)}) is computed from {v_} as the caller passed it: when the checkpoint is given as "
                f"{' / '.join(cases_)} that parameter is still None where the value is computed (before the checkpoint is "
                f"completed), so the stored value belongs to a run that starts at 0", line=ia.line(n_), clause="C06.2")
    if not early:
        rep.ok("G9.checkpoint-complete-at-use", init, "stores", f"{n_sinks} (store, case) pairs outside the checkpoint depend on "
               "completed components only", clause="C06.2")

    # ---- 2. derivation of the checkpoint --------------------------------------------------------------------------------
    rep.rule("G4.derivation-deps", "in the branch that completes a checkpoint given as start_<X>, each derived component "
             "depends (backward slice incl. control dependences) on every geometry input that the true value depends on: "
             "from start_epoch, update and sample counts are k * updates-per-epoch and k * samples-per-epoch, functions of "
             "(len(main_sampler), batch_size, drop_last, drop_last_batch_size); from start_update / start_sample the epoch "
             "needs (len(main_sampler), batch_size, drop_last_batch_size) and the other count needs batch_size - drop_last "
             "is exempt where the branch rejects 'not drop_last' by raising")
    dep = Deps(ia)
    branches: Dict[str, List[Tuple[int, str, ast.AST]]] = {u: [] for u in UNITS}
    var_unit = {ckpt_var.get(u, f"start_{u}"): u for u in UNITS}
    for n, var, val in ia.stores():
        if var in var_unit and val is not None:
            conds = _infer(ia.conds_at(n, asserts=False))
            given = [u for u in UNITS if negate(is_none(("param", f"start_{u}"))) in conds]
            if len(given) == 1:
                if ia.sym.term(val, n) == ("param", f"start_{given[0]}"):
                    continue  # the given component passed through
                branches[given[0]].append((n, f"start_{var_unit[var]}", val))
    for g in UNITS:
        if branches[g]:
            continue
        # merged branches ('if start_update is None: start_update = start_sample // b' followed by one derivation for both): the
        # stores that survive on the CFG pruned by 'exactly start_<g> is given' are that checkpoint's completion
        case_ = {is_none(("param", f"start_{w}")): (w != g) for w in UNITS}
        pa_ = ia.prune(case_)
        for n, var, val in pa_.stores():
            if var in var_unit and val is not None and n in pa_.cfg.nodes:
                t_ = pa_.sym.term(val, n)
                if t_ == ("param", f"start_{g}") or var_unit[var] == g and ("param", f"start_{g}") in leaves(t_) and t_[0] == "var":
                    continue
                if var_unit[var] == g:
                    continue  # the given component (possibly re-bound to itself through a local)
                branches[g].append((n, f"start_{var_unit[var]}", val))
    n_derived = 0
    for g in UNITS:
        rejects_no_drop_last = False
        for r in [n for n, nd in icfg.nodes.items() if nd.kind == "stmt" and isinstance(nd.ast, ast.Raise)]:
            conds = _infer(ia.conds_at(r, asserts=False))
            if negate(is_none(("param", f"start_{g}"))) not in conds:
                continue
            for c in conds:
                disj = list(c[1]) if c[0] == "or" else [c]
                if ("not", ("param", "drop_last")) in disj:
                    rejects_no_drop_last = True
        if not rejects_no_drop_last:
            # the same fact on the CFG pruned by 'only start_<g> is given, drop_last is false': no normal end is reachable
            case_ = {is_none(("param", f"start_{w}")): (w != g) for w in UNITS}
            case_[("param", "drop_last")] = False
            pa_ = ia.prune(case_)
            if not pa_.cfg.reachable(pa_.cfg.entry, pa_.cfg.exit):
                rejects_no_drop_last = True
        if not branches[g]:
            rep.bad("G4.derivation-deps", init, f"branch:start_{g}", f"a checkpoint given as start_{g} is not completed (the "
                    f"other two components keep None)", clause="C06.2")
            continue
        for n, var, val in branches[g]:
            n_derived += 1
            derived = var[len("start_"):]
            have = {lf[1] for lf in dep.of(val, n) if lf[0] == "param"}
            if g == "epoch":
                need = set(GEOMETRY)
            elif derived == "epoch":
                need = {"main_sampler", "batch_size", "drop_last_batch_size"}
            else:
                need = {"batch_size"}
            if g != "epoch" and not rejects_no_drop_last:
                need = set(GEOMETRY)
            need.add(f"start_{g}")
            missing = sorted(need - have)
            rep.decide(not missing, "G4.derivation-deps", init, f"start_{g}->{var}",
                       f"{var} depends on {', '.join(sorted(need))}",
                       f"{var}, derived from start_{g}, does not depend on {', '.join(missing)}: two configurations that "
                       f"differ only there get the same checkpoint although their uninterrupted runs differ",
                       line=ia.line(n), clause="C06.2")
    rep.floor("derived checkpoint components", n_derived, 4)  # 6 on the pinned tree; branches may share an assignment
    # ---- units of the derivation ----------------------------------------------------------------------------------------
    rep.rule("G6.derivation-units", "dimensional analysis of the checkpoint completion: start_sample counts samples, start_update "
             "updates, start_epoch epochs; batch sizes are samples per update, len(main_sampler) and every epoch length samples "
             "(or updates) per epoch.  Products add, quotients subtract units, sums need equal units (the rounding addend of "
             "'(a + b - 1) // b' aside); a derived component whose unit is decided and is not its own is a violation, an "
             "expression outside this algebra is not decided")
    for g in UNITS:
        for n, var, val in branches[g]:
            want_u = _UNIT_OF_START[var[len("start_"):]]
            try:
                got_u = _unit(ia, ia.sym.term(val, n), n, 0)
            except _NoUnit as e:
                rep.unk("G6.derivation-units", init, f"start_{g}->{var}", f"unit not decided: {e}", line=ia.line(n), clause="C06.2")
                continue
            okU = got_u is None or got_u == want_u
            rep.decide(okU, "G6.derivation-units", init, f"start_{g}->{var}",
                       f"{var} carries the unit {_unit_name(want_u)}",
                       f"{var} (line {ia.line(n)}) is computed as a quantity in {_unit_name(got_u)}, not in {_unit_name(want_u)}: "
                       f"{' '.join(ast.unparse(val).split())[:70]}", line=ia.line(n), clause="C06.2")

    # ---- epoch length agreement (case table) -----------------------------------------------------------------------------
    rep.rule("G9.epoch-length-agreement", "for each geometry case (no drop_last | drop_last | drop_last with drop_last_batch_size) "
             "the samples-per-epoch factor with which the start_epoch branch completes the checkpoint is the very epoch "
             "length _training_loop uses in that case (both evaluated on the CFG pruned by the case's assumptions and the "
             "constructor's asserts), and the updates-per-epoch factor counts a short last batch as an update")
    SPE_loop = _epoch_length_var(R)
    rep.require(SPE_loop is not None, "anchor-missing: epoch length in _training_loop")
    asserts = _constructor_asserts(ia, mapping)
    cases = {
        "no-drop_last": {("param", "drop_last"): False},
        "drop_last": {("param", "drop_last"): True, is_none(("param", "drop_last_batch_size")): True},
        "drop_last+drop_last_batch_size": {("param", "drop_last"): True, is_none(("param", "drop_last_batch_size")): False},
    }
    ep = [(n, var, val) for n, var, val in branches["epoch"]]
    for cname, assume_p in cases.items():
        assume_p = dict(assume_p)
        assume_p[is_none(("param", "start_epoch"))] = False
        assume_s = {_renorm(_map_params(k, mapping)): v for k, v in assume_p.items()}
        for conds, conj in asserts:
            if all(eval_truth(c, assume_s) is True for c in conds):
                assume_s[conj] = True
        lf = R.fa.prune(assume_s)
        loop_t = _value_of_var(lf, SPE_loop, R.main_iter)
        if loop_t is not None:
            loop_t = _renorm(_simplify_or(simplify(loop_t, assume_s), assume_s))
        pi = ia.prune(assume_p)
        q = {}
        for n, var, val in ep:
            if n not in pi.cfg.nodes:
                continue
            t = _simplify_or(simplify(pi.sym.term(val, n), assume_p), assume_p)
            p = term_to_poly(_renorm(_unattr(_map_params(t, mapping))))
            k = ("param", "start_epoch")
            co = p.coeff_of(k)
            if p.degree_in(k) == 1 and (co * Poly.atom(k)) == p:
                q[var] = co
            else:
                q[var] = None
        qs = q.get("start_sample")
        if loop_t is None or qs is None:
            rep.unk("G9.epoch-length-agreement", init, f"case:{cname}", "epoch length not reducible to one term in this case "
                    f"(loop: {show(loop_t) if loop_t else '?'}; start_sample / start_epoch: {qs!r})", clause="C06.2")
            continue
        loop_p = term_to_poly(_unattr(loop_t))
        rep.decide(loop_p == qs, "G9.epoch-length-agreement", init, f"case:{cname}",
                   f"start_sample = start_epoch * ({qs!r}) = the loop's epoch length",
                   f"the start_epoch branch completes start_sample with {qs!r} samples per epoch, while _training_loop's "
                   f"epoch has {loop_p!r} samples in the case '{cname}': the resumed run's sample counter (and everything "
                   f"triggered by it) differs from the uninterrupted run", line=ia.line(ep[0][0]) if ep else 0,
                   clause="C06.2")
        qu = q.get("start_update")
        if qu is None:
            rep.unk("G9.epoch-length-agreement", init, f"updates:{cname}", "start_update is not start_epoch * <factor>",
                    clause="C06.2")
            continue
        B = ("self", "batch_size")
        ok, why = _ceil_div(qu, loop_p, B, exact=(cname != "no-drop_last"))
        rep.decide(ok, "G9.epoch-length-agreement", init, f"updates:{cname}", why, why,
                   line=ia.line(ep[0][0]) if ep else 0, clause="C06.2")

    # ---- 3. zero budgets assert a zero checkpoint ------------------------------------------------------------------------------
    rep.rule("G8.zero-budget-checkpoint", "on the zero-budget route __iter__ asserts start_epoch == start_update == start_sample "
             "== 0 before the evaluation pass")
    it = prog.raw.method("InterleavedSampler", "__iter__", own=True)  # the routing itself is the subject
    fa_it = fa_of(prog.raw, it)
    ys = [n for n, y in fa_it.yields() if isinstance(y, ast.YieldFrom)
          and fa_it.sym.term(y.value, n)[:2] == ("call", ("self", "_eval_loop"))]
    ok = None
    if ys:
        want = {("eq", ("self", f"start_{u}")) for u in UNITS}
        got = set()
        for t_, lab in fa_it.cfg.control_predicates(ys[0]):
            nd = fa_it.cfg.nodes[t_]
            if nd.kind == "test" and isinstance(nd.owner, ast.Assert) and lab is True:
                c = fa_it.sym.term(nd.ast, t_)
                got |= set(c[1]) if c[0] == "and" else {c}
        ok = want <= got
    rep.decide(ok, "G8.zero-budget-checkpoint", it, "assert-zero-checkpoint", "asserted", "the evaluation route does not "
               "assert a zero checkpoint: a resume checkpoint combined with a zero budget is silently ignored",
               clause="C06.3", nontrivial=False)
    passes_stateless(prog, rep)
    names.check(prog, rep, [FILE], clause="C06.G1", floor=10)


def passes_stateless(prog: Program, rep: Report):
    """The samplers the package offers for the main stream / the interleaved configs: one pass must not depend on the passes
    the same object served before, else a resumed run (fresh objects) cannot reproduce the suffix of the uninterrupted one."""
    from .c12 import draws
    rep.rule("G8.pass-stateless", "in every sampler class of kappadata/samplers, a random draw inside __iter__ uses a generator that "
             "is created - or re-seeded (manual_seed) on every path before the draw - inside that same __iter__ call; a "
             "generator kept on the instance and merely advanced makes the j-th pass of an object differ from the first pass of "
             "a fresh object: an uninterrupted run (one object serving all passes) and a resumed run (fresh objects) then "
             "disagree on the contents of the interleaved passes.  (InterleavedSampler announces epochs only to the main "
             "sampler, so re-seeding in set_epoch does not help a config sampler.)")
    n = 0
    for C in sorted(prog.classes.values(), key=lambda c: c.qualname):
        rel = C.module.relpath
        if not rel.startswith("kappadata/samplers/") or prog.is_dead(C.module):
            continue
        fi = C.methods.get("__iter__")
        if fi is None:
            continue
        fa = fa_of(prog, fi)
        ds = draws(prog, fa)
        if not ds:
            continue
        rep.analysed_add("functions", f"{rel}:{fi.qualname}")
        for dn, call, kind, gen in ds:
            n += 1
            construct = f"draw:{' '.join(ast.unparse(call).split())[:70]}"
            if kind != "gen" or gen is None:
                rep.unk("G8.pass-stateless", fi, construct, "draw from the process-global RNG (judged by the seeding properties, "
                        "not here)", line=call.lineno, clause="C06.4")
                continue
            persistent = gen[0] == "self" or (gen[0] == "var" and gen[1].startswith(f"{fa.self_name}."))
            if not persistent and gen[0] == "var" and len(gen) == 3:
                vals = [fa.cfg.def_value(d, gen[1]) for d in gen[2]]
                if any(v is not None and (fa.sym.term(v, d)[0] == "self" or str(fa.sym.term(v, d)[1:2]).find(f"{fa.self_name}.") >= 0)
                       for v, d in zip(vals, gen[2])):
                    rep.unk("G8.pass-stateless", fi, construct, "on some path the generator is one supplied by the caller and kept "
                            "on the instance (the caller's choice, as with torch's RandomSampler)", line=call.lineno, clause="C06.4")
                    continue
            if not persistent:
                rep.ok("G8.pass-stateless", fi, construct, f"generator {show(gen)[:60]} is built inside this __iter__ call",
                       line=call.lineno, clause="C06.4")
                continue
            reseeds = [m for m, c2 in fa.calls_named("manual_seed") if c2.args and fa.cfg.dominates(m, dn)
                       and isinstance(c2.func, ast.Attribute) and fa.sym.term(c2.func.value, m) == gen]
            rep.decide(bool(reseeds), "G8.pass-stateless", fi, construct,
                       "the instance's generator is re-seeded before the draw in this __iter__ call",
                       f"the draw advances {show(gen)}, a generator kept on the sampler object and not re-seeded inside __iter__: "
                       f"the second pass of one object differs from the first pass of a fresh one, so a resumed run does not "
                       f"reproduce the interleaved passes of the uninterrupted run", line=call.lineno, clause="C06.4")
    rep.floor("random draws in the package's sampler classes", n, 2)


def _infer(conds):
    """Unit propagation over the branch conditions: from 'a or b or c' and 'not a', 'not b' follows c (the last arm of an
    if / elif / else chain over 'which component was given')."""
    conds = list(conds)
    flat = set()
    for c in conds:
        flat |= set(c[1]) if c[0] == "and" else {c}
    changed = True
    while changed:
        changed = False
        for c in list(flat):
            if c[0] == "or":
                rest = [d for d in c[1] if negate(d) not in flat]
                if len(rest) == 1 and rest[0] not in flat:
                    flat.add(rest[0])
                    changed = True
    return list(conds) + [c for c in flat if c not in conds]


def _unattr(t):
    """('var', 'self.a', defs) of an attribute that is only conditionally re-assigned -> ('self', a) when a single
    definition (the entry value) reaches; otherwise unchanged."""
    return t


def _epoch_length_var(R: Roles) -> Optional[str]:
    """The local compared with the in-epoch counter in the update condition of _training_loop."""
    from .sampler_common import eq_atoms, split_eq
    body = R.loop_body_nodes(R.main_next)
    for n in sorted(body):
        nd = R.fa.cfg.nodes[n]
        if nd.kind != "test" or isinstance(nd.owner, ast.Assert):
            continue
        cond = R.term_at(n)
        if cond[0] != "or":
            cond = negate(cond)  # 'if in_update != batch_size and in_epoch != length: continue' is the same decision
        atoms = eq_atoms(cond)
        if cond[0] != "or" or len(atoms) != 2:
            continue
        found = None
        with_bs = False
        for a in atoms:
            pr = split_eq(a)
            if pr is None:
                continue
            for u, v in (pr, pr[::-1]):
                if u[0] == "var" and "." not in u[1] and R.increments(u[1]):
                    if v[0] == "var" and "." not in v[1] and not R.increments(v[1]):
                        found = v[1]
                    elif _unv(v) == ("self", "batch_size"):
                        with_bs = True
        if found and with_bs:
            return found
    return None


def _value_of_var(fa: FA, var: str, at: int) -> Optional[Term]:
    """Term of the variable at node ``at`` if exactly one definition reaches it in this (pruned) CFG."""
    if at not in fa.cfg.nodes:
        return None
    t = fa.sym.term(ast.Name(var, ast.Load()), at)
    if t[0] == "var" and t[1] == var:
        return None
    return t


def _constructor_asserts(ia: FA, mapping: Dict[str, str]):
    """[(conditions, conjunct)] of the constructor's assert statements, over self attributes."""
    out = []
    for n, nd in ia.cfg.nodes.items():
        if nd.kind == "test" and isinstance(nd.owner, ast.Assert):
            t = ia.sym.term(nd.ast, n)
            conds = [_renorm(_map_params(c, mapping)) for c in ia.conds_at(n, asserts=False)]
            for conj in (t[1] if t[0] == "and" else [t]):
                out.append((conds, _renorm(_map_params(conj, mapping))))
    return out


def _ceil_div(qu: Poly, spe: Poly, B: Term, exact: bool):
    """Is qu == ceil(spe / B)?  (floor is accepted only where spe is a multiple of B by construction.)"""
    atoms = list(qu.atoms())
    if len(qu.terms) == 1 and len(atoms) == 1 and qu.coeff_of(atoms[0]).const_value() == 1 and atoms[0][0] == "binop" \
            and atoms[0][1] == "//":
        num, den = term_to_poly(atoms[0][2]), atoms[0][3]
        if den != B and _unv(den) != B:
            return False, f"updates per epoch = {qu!r}: the divisor is not the batch size"
        Bp = Poly.atom(den)
        if num == spe + Bp - Poly.const(1):
            return True, "updates per epoch = ceil(samples per epoch / batch_size)"
        if num == spe:
            if exact:
                return True, "updates per epoch = samples per epoch // batch_size (exact: the epoch length is a multiple of " \
                             "the batch size in this case)"
            return False, ("updates per epoch = samples per epoch // batch_size: without drop_last the short last batch of an "
                           "epoch is an update too, so the resumed update counter is too small whenever len(main_sampler) is "
                           "not a multiple of batch_size")
        if (num - spe).is_const() or ((num - spe) - Bp).is_const():
            return False, f"updates per epoch = {qu!r} is neither floor nor ceil of samples per epoch / batch_size"
        return None, f"updates per epoch {qu!r}: numerator of unrecognised shape"
    return None, f"updates per epoch {qu!r} of unrecognised shape"


def _unv(t):
    if t[0] == "var" and t[1].startswith("self."):
        return ("self", t[1][5:])
    return t


# ---- unit algebra for the checkpoint derivation: exponents of (samples, updates, epochs) ------------------------------------
_UNIT_OF_START = {"sample": (1, 0, 0), "update": (0, 1, 0), "epoch": (0, 0, 1)}
_PER_UPDATE = (1, -1, 0)   # batch sizes: samples per update
_PER_EPOCH_S = (1, 0, -1)  # samples per epoch


class _NoUnit(Exception):
    pass


def _unit_name(u) -> str:
    if u is None:
        return "a pure number"
    names_ = ("samples", "updates", "epochs")
    num = [f"{nm}{'^' + str(e) if e != 1 else ''}" for nm, e in zip(names_, u) if e > 0]
    den = [f"{nm}{'^' + str(-e) if e != -1 else ''}" for nm, e in zip(names_, u) if e < 0]
    return (" * ".join(num) or "1") + ((" per " + " * ".join(den)) if den else "")


def _uadd(a, b, sign=1):
    if a is None:
        return tuple(sign * x for x in b) if b is not None else None
    if b is None:
        return a
    r = tuple(x + sign * y for x, y in zip(a, b))
    return None if r == (0, 0, 0) else r


def _unit(ia: FA, t, at: int, depth: int):
    """unit of a term: a triple of exponents, or None for a pure number"""
    if depth > 12:
        raise _NoUnit("expression too deep")
    k = t[0]
    if k == "const":
        if isinstance(t[1], (int, float)) and not isinstance(t[1], bool):
            return None
        raise _NoUnit(f"constant {t[1]!r}")
    if k == "param":
        nm = t[1]
        if nm.startswith("start_") and nm[6:] in _UNIT_OF_START:
            return _UNIT_OF_START[nm[6:]]
        if nm in ("batch_size", "drop_last_batch_size"):
            return _PER_UPDATE
        raise _NoUnit(f"parameter {nm}")
    if k == "call" and t[1] == ("global", "len") and len(t[2]) == 1 and t[2][0] in (("param", "main_sampler"), ("self", "main_sampler")):
        return _PER_EPOCH_S
    if k == "call" and t[1][0] == "global" and t[1][1].rsplit(".", 1)[-1] in ("int", "ceil", "floor", "round", "abs") and len(t[2]) == 1:
        return _unit(ia, t[2][0], at, depth + 1)
    if k == "or":
        us = {_unit(ia, x, at, depth + 1) for x in t[1]}
        if len(us) == 1:
            return next(iter(us))
        raise _NoUnit("alternatives of different units")
    if k == "var":
        us = set()
        for d in t[2]:
            if ia.cfg.nodes[d].kind == "entry":
                us.add(_unit(ia, ("param", t[1]), at, depth + 1))
                continue
            v = ia.cfg.def_value(d, t[1])
            if v is None:
                raise _NoUnit(f"local {t[1]} without a plain definition")
            us.add(_unit(ia, ia.sym.term(v, d), d, depth + 1))
        if len(us) == 1:
            return next(iter(us))
        raise _NoUnit(f"local {t[1]} holds quantities of different units")
    if k == "binop" and t[1] in ("//", "/"):
        num, den = t[2], t[3]
        ud = _unit(ia, den, at, depth + 1)
        # the rounding addend of a ceiling division: (a + b - 1) // b
        pn = term_to_poly(num)
        rest = pn - term_to_poly(den) + Poly.const(1)
        try:
            un = _unit_poly(ia, pn, at, depth + 1)
        except _NoUnit:
            un = _unit_poly(ia, rest, at, depth + 1)
        return _uadd(un, ud, -1)
    if k == "binop" and t[1] == "%":
        return _unit(ia, t[2], at, depth + 1)
    if k == "poly":
        return _unit_poly(ia, term_to_poly(t), at, depth + 1)
    raise _NoUnit(f"{show(t)[:40]}")


def _unit_poly(ia: FA, p: Poly, at: int, depth: int):
    us = set()
    for mono, coeff in p.terms.items():
        if mono == ():
            continue   # a pure constant takes the unit of its neighbours only in the rounding idiom, handled by the caller
        u = None
        for atom, power in mono:
            ua = _unit(ia, atom, at, depth + 1)
            for _ in range(power):
                u = _uadd(u, ua, 1) if ua is not None else u
        us.add(u)
    if () in p.terms and us and us != {None}:
        raise _NoUnit("a pure number is added to a quantity with a unit")
    if len(us) == 1:
        return next(iter(us))
    if not us:
        return None
    raise _NoUnit("sum of quantities with different units")
