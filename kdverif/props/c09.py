"""C09 - every dataloader worker gets its own reproducible augmentation stream (DESIGN §4 C09)."""
from __future__ import annotations

import ast
from typing import List, Optional

from ..core import Report
from ..fa import fa_of
from ..model import ClassInfo, FuncInfo, Program
from ..rules import names
from ..rules.hooks import Forwarding, Member, Ownership
from ..rules.rng import RngDiscipline, classify_ext
from ..rules.seeded import generator_constructions
from ..sym import leaves, show, subterms
from ..types_ import _is_super

ANCHOR_FILES = [
    "kappadata/datasets/kd_dataset.py", "kappadata/datasets/kd_wrapper.py", "kappadata/datasets/kd_subset.py",
    "kappadata/datasets/kd_concat_dataset.py", "kappadata/wrappers/mode_wrapper.py",
    "kappadata/transforms/base/kd_transform.py", "kappadata/transforms/base/kd_compose_transform.py",
    "kappadata/wrappers/sample_wrappers/base/transform_wrapper_base.py",
    "kappadata/wrappers/sample_wrappers/kd_multi_view_wrapper.py", "kappadata/collators/base/kd_collator_base.py",
    "kappadata/samplers/interleaved_sampler.py", "kappadata/utils/random.py",
]


def passes_rank_kwargs(fa, n, call, fi) -> bool:
    """hook(rank, **kwargs) hands on the received rank and the received **kwargs (extra keywords allowed)."""
    a = fi.node.args
    ps = fi.params()
    if fi.cls is not None and not fi.is_static:
        ps = ps[1:]
    if not ps or not call.args:
        return False
    if fa.sym.term(call.args[0], n) != ("param", ps[0]):
        return False
    if a.kwarg is not None:
        if not any(k.arg is None and fa.sym.term(k.value, n) == ("param", a.kwarg.arg) for k in call.keywords):
            return False
    return True


def is_layer(own: Ownership, C: ClassInfo) -> bool:
    """The class wraps another dataset layer: torch Subset / ConcatDataset base, or a ``dataset``
    attribute that stores a constructor parameter."""
    ext = " ".join(C.ext_bases())
    if "Subset" in ext or "ConcatDataset" in ext:
        return True
    ts = own.types.of(C).get("dataset", set())
    return any(t[0] == "param" for t in ts)


def layer_members(C: ClassInfo) -> List[Member]:
    """dataset / datasets attribute of a layer class (set by its own or torch's constructor)."""
    ext = " ".join(C.ext_bases())
    if "ConcatDataset" in ext:
        return [Member("datasets", "elem")]
    return [Member("dataset", "attr")]


def run(prog: Program, rep: Report, tier: str):
    own = Ownership(prog, "KDTransform")
    fwd = Forwarding(prog, own)
    any_needs = own.needs("any")
    rng_needs = own.needs("rng")
    kdtransform = own.root
    rep.trusted += ["torch's DataLoader seeds the process-global NumPy RNG of each worker differently and calls "
                    "worker_init_fn(worker_id) once per worker (torch + the documented usage "
                    "worker_init_fn=dataset.worker_init_fn)",
                    "np.random.default_rng(seed) is a pure function of seed",
                    "effect table of kdverif/rules/rng.py"]
    rep.not_decided += ["that streams of different workers never overlap, not even in part (a statement about PRNG "
                        "output)", "behaviour of a real multi-process DataLoader"]

    # ---- clause 1: dataset chain -------------------------------------------------------------------------
    rep.rule("G3.chain", "every dataset layer class that defines worker_init_fn forwards worker_init_fn(rank, **kwargs) "
             "to every wrapped dataset on every normal-return path; KDWrapper additionally calls its own "
             "_worker_init_fn(rank, **kwargs)")
    layers = []
    for c in prog.classes.values():
        if prog.is_dead(c.module) or "worker_init_fn" not in c.methods:
            continue
        if kdtransform in c.mro() or prog.cls("KDCollatorBase") in c.mro():
            continue
        layers.append(c)
    layers.sort(key=lambda c: c.qualname)
    rep.floor("classes defining a dataset-side worker_init_fn", len(layers), 6)
    root = prog.cls("KDDataset")
    n_layers = 0
    for L in layers:
        rep.analysed_add("classes", L.qualname)
        fi = L.methods["worker_init_fn"]
        if L is root:
            continue
        if not is_layer(own, L):
            # a root dataset that customises the hook must keep KDDataset's part (collator re-seeding)
            fa = fa_of(prog, fi)
            through = {n for n, call in fa.calls() if isinstance(call.func, ast.Attribute)
                       and call.func.attr == "worker_init_fn" and _is_super(call.func.value)
                       and passes_rank_kwargs(fa, n, call, fi)}
            rep.decide(bool(through) and fa.cfg.must_pass(through), "G3.chain", fi, "super-chain",
                       "root dataset keeps super().worker_init_fn(rank, **kwargs) on every path",
                       "a root dataset overrides worker_init_fn without calling super().worker_init_fn(rank, **kwargs) "
                       "on every path: its registered collators are no longer re-seeded", clause="C09.1")
            continue
        n_layers += 1
        for m in layer_members(L):
            # needed: anything wrapped needs the hook; no isinstance guard is acceptable here
            ok, why = fwd.check(L, fi, m, {"worker_init_fn"}, [], arg_ok=passes_rank_kwargs)
            rep.decide(ok, "G3.chain", fi, f"forward:{m}", why, why, clause="C09.1")
    rep.floor("layer classes (wrap another dataset) defining worker_init_fn", n_layers, 5)
    # KDWrapper: calls self._worker_init_fn(rank, **kwargs)
    kw = prog.cls("KDWrapper")
    fi = kw.methods.get("worker_init_fn")
    rep.require(fi is not None, "anchor-missing: KDWrapper.worker_init_fn")
    fa = fa_of(prog, fi)
    through = set()
    for n, call in fa.calls():
        f = call.func
        if isinstance(f, ast.Attribute) and f.attr == "_worker_init_fn" and isinstance(f.value, ast.Name) \
                and f.value.id == fa.self_name and passes_rank_kwargs(fa, n, call, fi):
            through.add(n)
    rep.decide(bool(through) and fa.cfg.must_pass(through), "G3.chain", fi, "call:self._worker_init_fn",
               "self._worker_init_fn(rank, **kwargs) is called on every path",
               "KDWrapper.worker_init_fn does not call self._worker_init_fn(rank, **kwargs) on every path: subclasses' "
               "transforms are never re-seeded", clause="C09.1")
    # subclasses must not replace the chain method (the constructor asserts it at run time)
    for fam in ("KDWrapper", "KDSubset", "KDConcatDataset", "ModeWrapper"):
        base = prog.cls(fam)
        for C in prog.subclasses(base, include_self=False):
            if "worker_init_fn" in C.methods:
                f2 = C.methods["worker_init_fn"]
                oks = []
                for m in layer_members(C):
                    ok, why = fwd.check(C, f2, m, {"worker_init_fn"}, [], arg_ok=passes_rank_kwargs)
                    oks.append((ok, why))
                ok = all(o for o, _ in oks)
                rep.decide(ok, "G3.chain", f2, "override-continues-chain", "override still forwards to the wrapped "
                           "dataset", "; ".join(w for _, w in oks), clause="C09.1")
    # root: re-seeds every registered collator from a fresh global-derived generator
    rep.rule("G3.collators", "KDDataset.worker_init_fn calls set_rng(<generator from get_rng_from_global()>) on every "
             "registered collator (whenever the collator list is not None)")
    fi = root.methods.get("worker_init_fn")
    rep.require(fi is not None, "anchor-missing: KDDataset.worker_init_fn")
    fa = fa_of(prog, fi)
    none_pair = tuple(sorted((("const", None), ("self", "collators")), key=repr))

    def arg_fresh(fa_, n, call, fi_):
        if not call.args:
            return False
        t = fa_.sym.term(call.args[0], n)
        return t[0] == "call" and t[1][0] == "global" and t[1][1].endswith("get_rng_from_global")

    def _is_fresh_ast(e_):
        return isinstance(e_, ast.Call) and getattr(e_.func, "id", getattr(e_.func, "attr", "")) == "get_rng_from_global"

    def given_or_fresh(fi_, e_):
        """e_ is '<fresh> if p is None else p' (or the mirrored spelling) for a parameter p of fi_ whose default is None: the name
        of p, else None."""
        if not isinstance(e_, ast.IfExp) or not isinstance(e_.test, ast.Compare) or len(e_.test.ops) != 1:
            return None
        t_ = e_.test
        if not (isinstance(t_.left, ast.Name) and isinstance(t_.comparators[0], ast.Constant) and t_.comparators[0].value is None):
            return None
        fresh_arm, given_arm = (e_.body, e_.orelse) if isinstance(t_.ops[0], ast.Is) else (
            (e_.orelse, e_.body) if isinstance(t_.ops[0], ast.IsNot) else (None, None))
        if fresh_arm is None or not _is_fresh_ast(fresh_arm) or not (isinstance(given_arm, ast.Name) and given_arm.id == t_.left.id):
            return None
        a_ = fi_.node.args
        dflt = dict(zip([x.arg for x in a_.kwonlyargs], a_.kw_defaults))
        pos = a_.posonlyargs + a_.args
        dflt.update(zip([x.arg for x in pos[len(pos) - len(a_.defaults):]], a_.defaults))
        d_ = dflt.get(t_.left.id)
        return t_.left.id if isinstance(d_, ast.Constant) and d_.value is None else None

    # the collator hook may take the generator from its caller: 'def worker_init_fn(self, *_, rng=None, **__):
    # self.set_rng(<fresh> if rng is None else rng)' - then calling the hook with rng=<fresh> is a forwarding call as well
    hook_param = None
    base_hook = prog.cls("KDCollatorBase").methods.get("worker_init_fn")
    if base_hook is not None:
        hfa = fa_of(prog, base_hook)
        hp = {given_or_fresh(base_hook, c_.args[0]) for n_, c_ in hfa.calls() if isinstance(c_.func, ast.Attribute) and
              c_.func.attr == "set_rng" and isinstance(c_.func.value, ast.Name) and c_.func.value.id == hfa.self_name and c_.args}
        sets = {n_ for n_, c_ in hfa.calls() if isinstance(c_.func, ast.Attribute) and c_.func.attr == "set_rng" and c_.args
                and given_or_fresh(base_hook, c_.args[0])}
        overridden = [C_ for C_ in prog.subclasses(prog.cls("KDCollatorBase"), include_self=False) if "worker_init_fn" in C_.methods]
        if len(hp) == 1 and None not in hp and sets and hfa.cfg.must_pass(sets) and not overridden:
            hook_param = next(iter(hp))

    def hook_arg_fresh(fa_, n, call, fi_):
        kws = [k for k in call.keywords if k.arg == hook_param]
        if len(kws) != 1:
            return False
        t = fa_.sym.term(kws[0].value, n)
        return t[0] == "call" and t[1][0] == "global" and t[1][1].endswith("get_rng_from_global")

    ok, why = fwd.check(root, fi, Member("collators", "elem"), {"set_rng"}, [], arg_ok=arg_fresh,
                        assume={("is", none_pair): False})
    if not ok and hook_param is not None:
        ok2, why2 = fwd.check(root, fi, Member("collators", "elem"), {"worker_init_fn"}, [], arg_ok=hook_arg_fresh,
                              assume={("is", none_pair): False})
        if ok2:
            ok, why = ok2, why2
    rep.decide(ok, "G3.collators", fi, "forward:self.collators[*]", why, why, clause="C09.1")

    # ---- clause 2: owners forward to their transforms -----------------------------------------------------------
    rep.rule("G3.owners", "every dataset-family class that owns transforms forwards worker_init_fn(rank, **kwargs) to "
             "each owned KDTransform on every path of the hook it resolves (worker_init_fn -> _worker_init_fn)")
    ds_family = []
    for c in prog.classes.values():
        if prog.is_dead(c.module):
            continue
        if root in c.mro() or any(b in c.mro() for b in (prog.cls("KDSubset"), prog.cls("KDConcatDataset"))):
            ds_family.append(c)
    ds_family.sort(key=lambda c: c.qualname)
    rep.floor("dataset-family classes", len(ds_family), 40)
    n_owner = 0
    declaring = set()
    for C in ds_family:
        members = fwd.members(C)
        if not members:
            continue
        entry = C.lookup("worker_init_fn")
        if entry is None:
            continue
        n_owner += 1
        for m, ts in sorted(members.items(), key=lambda kv: str(kv[0])):
            needed = own.needed_classes(ts, any_needs)
            if not needed:
                continue
            ok, why = fwd.check(C, entry, m, {"worker_init_fn", "_worker_init_fn"}, needed,
                                arg_ok=passes_rank_kwargs)
            # attribute to the class that declares the member (first in MRO whose __init__ assigns it)
            decl = _declaring_class(own, C, m.attr)
            declaring.add(decl.qualname)
            o = rep.decide(ok, "G3.owners", decl.module, f"member:{m}", why, why, line=decl.node.lineno,
                           clause="C09.2")
            o.func = f"{decl.name}.worker_init_fn"
            if decl is not C:
                o.detail += f" [analysed for {C.name}]"
    rep.floor("dataset-family classes owning transforms (concrete)", n_owner, 13)
    rep.floor("dataset-family classes declaring owned transforms", len(declaring), 5)

    # ---- clause 3: transforms / collators re-seed from the global NumPy RNG ------------------------------------------------
    rep.rule("G4.reseed", "KDTransform.worker_init_fn and KDCollatorBase.worker_init_fn call self.set_rng(<fresh generator>) "
             "on every path, the generator coming from get_rng_from_global(), whose seed expression depends on a draw "
             "from the process-global NumPy RNG (which the DataLoader seeds per worker) and on nothing else that varies")
    for cname in ("KDTransform", "KDCollatorBase"):
        c = prog.cls(cname)
        fi = c.methods.get("worker_init_fn")
        rep.require(fi is not None, f"anchor-missing: {cname}.worker_init_fn")
        fa = fa_of(prog, fi)
        through = set()
        for n, call in fa.calls():
            f = call.func
            if isinstance(f, ast.Attribute) and f.attr == "set_rng" and isinstance(f.value, ast.Name) \
                    and f.value.id == fa.self_name and (arg_fresh(fa, n, call, fi) or (call.args and given_or_fresh(fi, call.args[0]))):
                through.add(n)
        rep.decide(bool(through) and fa.cfg.must_pass(through), "G4.reseed", fi, "call:self.set_rng(fresh)",
                   "self.set_rng(get_rng_from_global()) on every path",
                   f"{cname}.worker_init_fn does not re-seed through set_rng(get_rng_from_global()) on every path",
                   clause="C09.3")
    c = prog.cls("KDTransform")
    fi = c.methods["worker_init_fn"]
    fa = fa_of(prog, fi)
    through = {n for n, call in fa.calls() if isinstance(call.func, ast.Attribute)
               and call.func.attr == "_worker_init_fn" and isinstance(call.func.value, ast.Name)
               and call.func.value.id == fa.self_name and call.args
               and fa.sym.term(call.args[0], n) == ("param", "rank")
               and any(k.arg is None for k in call.keywords)}
    rep.decide(bool(through) and fa.cfg.must_pass(through), "G4.reseed", fi, "call:self._worker_init_fn",
               "self._worker_init_fn(rank, num_workers, **kwargs) on every path",
               "KDTransform.worker_init_fn does not call self._worker_init_fn(rank, ..., **kwargs) on every path",
               clause="C09.3")
    g = prog.func("kappadata/utils/random.py", "get_rng_from_global")
    fa = fa_of(prog, g)
    gens = generator_constructions(fa)
    returned = [fa.sym.term(nd.ast.value, n) for n, nd in fa.cfg.nodes.items()
                if nd.kind == "stmt" and isinstance(nd.ast, ast.Return) and nd.ast.value is not None]
    ok = None
    why = "shape of get_rng_from_global not recognised"
    if gens and returned:
        seeds = [s for _, _, s in gens]
        ok = True
        for r in returned:
            if not (r[0] == "call" and r[1][0] == "global" and r[1][1].endswith("default_rng")):
                ok = False
                why = f"returns {show(r)}, not a freshly constructed generator"
        for s in seeds:
            if s is None:
                ok, why = False, "generator constructed without a seed (OS entropy, not the worker's seed)"
                continue
            draws = [t for t in subterms(s) if t and t[0] == "call" and t[1][0] == "global"
                     and t[1][1].startswith("numpy.random.") and t[1][1].split(".")[2] in (
                         "randint", "random", "integers", "random_sample", "rand", "bytes", "choice", "permutation")]
            varying = [x for x in leaves(s) if x[0] in ("param", "self", "var")]
            if not draws:
                ok, why = False, f"seed {show(s)} does not depend on a draw from the process-global NumPy RNG"
            elif varying:
                ok, why = False, f"seed {show(s)} also depends on {', '.join(show(v) for v in varying)}"
        if ok:
            why = "returns default_rng(seed=<draw from np.random.*>)"
    rep.decide(ok, "G4.reseed", g, "seed-source", why, why, clause="C09.3")
    # no transform-family class replaces worker_init_fn
    for C in own.family:
        if C is not own.root and "worker_init_fn" in C.methods:
            rep.bad("G4.reseed", C.methods["worker_init_fn"], "override:worker_init_fn",
                    "a KDTransform subclass replaces worker_init_fn (re-seeding is implemented there; subclasses "
                    "customise _worker_init_fn)", clause="C09.3")

    from .c07 import member_stability, set_rng_propagation
    set_rng_propagation(prog, rep, own, fwd, clause="C09.3")  # ... and from there every member generator
    member_stability(prog, rep, own, clause="C09.3")

    # ---- clause 4: collator composites -----------------------------------------------------------------------
    rep.rule("G3.collator-set_rng", "collator composites forward set_rng(<received generator>) to every member collator; "
             "single collators store it")
    from .c07 import passes_received_arg, reinjects
    cown = Ownership(prog, "KDCollatorBase")
    cfwd = Forwarding(prog, cown)
    cneeds = cown.needs("rng")
    n_c = 0
    for C in cown.family:
        rep.analysed_add("classes", C.qualname)
        for m, ts in sorted(cfwd.members(C).items(), key=lambda kv: str(kv[0])):
            needed = cown.needed_classes(ts, cneeds)
            if not needed:
                continue
            n_c += 1
            fi = C.lookup("set_rng")
            ok, why = cfwd.check(C, fi, m, {"set_rng"}, needed, arg_ok=passes_received_arg)
            decl = _declaring_class(cown, C, m.attr)
            o = rep.decide(ok, "G3.collator-set_rng", decl.module, f"member:{m}", why, why, line=decl.node.lineno,
                           clause="C09.4")
            o.func = f"{decl.name}.set_rng"
        rdc = RngDiscipline(prog, cown.types, family_root=cown.root)
        for attr in sorted(rdc.generator_attrs(C)):
            fi = C.lookup("set_rng")
            ok = fi is not None and reinjects(prog, C, fi, attr)
            decl = _declaring_class(cown, C, attr)
            o = rep.decide(ok, "G3.collator-set_rng", decl.module, f"generator:self.{attr}",
                           "set_rng stores the received generator", f"set_rng does not overwrite self.{attr}",
                           line=decl.node.lineno, clause="C09.4")
            o.func = f"{decl.name}.set_rng"
    rep.floor("collator members needing set_rng", n_c, 2)

    # ---- clause 5: no OS-entropy streams in getitem paths ----------------------------------------------------------
    rep.rule("G2.no-entropy", "in getitem_* paths of dataset-family classes a generator is never constructed without a "
             "seed (np.random.default_rng() / seed=None, also as one arm of a conditional): such a stream comes from OS "
             "entropy, not from the worker's global seed")
    n_g = 0
    for C in ds_family:
        for name, fi in C.methods.items():
            if not (name.startswith("getitem") or name.startswith("_getitem") or name == "__getitem__"):
                continue
            fa = fa_of(prog, fi)
            for n, call, seed in generator_constructions(fa):
                n_g += 1
                bad = seed is None or any(t == ("const", None) for t in _value_arms(seed))
                rep.decide(not bad, "G2.no-entropy", fi, f"generator:{' '.join(ast.unparse(call).split())[:80]}",
                           "generator always constructed with a seed",
                           "the generator may be constructed with seed None: its state then comes from OS entropy and "
                           "is neither reproducible nor derived from the worker seed (the package's idiom for 'no "
                           "seed' is get_rng_from_global())", line=call.lineno, clause="C09.5")
    rep.floor("generator constructions in getitem paths", n_g, 5)

    # ---- clause 6: no generator survives in a dataset layer that the worker hook does not replace -----------------------------
    rep.rule("G8.no-unhooked-generator", "a dataset-family class that keeps a generator in an attribute (assigned from "
             "get_rng_from_global() / np.random.default_rng(..) / a Generator, in the constructor or lazily in a getitem path) and "
             "draws from it in a getitem path re-assigns that attribute in its _worker_init_fn / worker_init_fn: otherwise the "
             "generator created in the parent process is copied into every worker and all workers replay one stream")
    n_k = 0
    for C in ds_family:
        me = "self"
        kept = {}
        for name, fi in C.methods.items():
            ps = fi.params()
            me = ps[0] if ps else "self"
            for st in ast.walk(fi.node):
                if isinstance(st, ast.Assign):
                    for t in st.targets:
                        if isinstance(t, ast.Attribute) and isinstance(t.value, ast.Name) and t.value.id == me:
                            for y in ast.walk(st.value):
                                if isinstance(y, ast.Call):
                                    f = y.func
                                    nm = f.attr if isinstance(f, ast.Attribute) else getattr(f, "id", "")
                                    if nm in ("get_rng_from_global", "default_rng", "Generator", "RandomState"):
                                        kept[t.attr] = (name, st.lineno)
        if not kept:
            continue
        used = set()
        for name, fi in C.methods.items():
            if name.startswith("getitem") or name.startswith("_getitem") or name == "__getitem__":
                used |= {y.attr for y in ast.walk(fi.node) if isinstance(y, ast.Attribute) and isinstance(y.value, ast.Name)
                         and y.attr in kept and isinstance(y.ctx, ast.Load)}
        hooked = set()
        for hname in ("_worker_init_fn", "worker_init_fn", "set_rng"):
            h = C.lookup(hname)
            if h is not None:
                hooked |= {y.attr for y in ast.walk(h.node) if isinstance(y, ast.Attribute) and isinstance(y.ctx, ast.Store)}
        for a in sorted(used):
            n_k += 1
            rep.decide(a in hooked, "G8.no-unhooked-generator", C, f"attribute:{a}", f"self.{a} is re-seeded by the worker hook",
                       f"{C.name} keeps a generator in self.{a} (assigned in {kept[a][0]}, line {kept[a][1]}) and draws from it per "
                       f"sample, but no worker hook of the class re-assigns it: the generator created before the workers start is "
                       f"copied into all of them - their streams coincide and repeat every epoch", line=kept[a][1], clause="C09.6")
    rep.floor("generator attributes of dataset layers (informational)", n_k, 0)
    names.check(prog, rep, ANCHOR_FILES, clause="C09.G1", floor=60)


def _value_arms(t):
    """Possible values of a term through conditional expressions / or-chains."""
    if isinstance(t, tuple) and t and t[0] == "ifexp":
        yield from _value_arms(t[2])
        yield from _value_arms(t[3])
    elif isinstance(t, tuple) and t and t[0] == "or":
        for x in t[1]:
            yield from _value_arms(x)
    else:
        yield t


def _declaring_class(own: Ownership, C: ClassInfo, attr: str) -> ClassInfo:
    for owner, fi in own.types.init_chain(C):
        for n in ast.walk(fi.node):
            if isinstance(n, ast.Attribute) and isinstance(n.ctx, ast.Store) and n.attr == attr:
                return owner
    return C
