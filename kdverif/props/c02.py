"""C02 - stacked subsets, concats and wrappers address the right underlying sample (DESIGN §4 C02)."""
from __future__ import annotations

import ast
from typing import Dict, List, Optional, Set, Tuple

from ..core import Report
from ..fa import FA, fa_of
from ..model import ClassInfo, FuncInfo, Program
from ..rules import names
from ..sym import Poly, Term, contains, leaves, show, subterms, term_to_poly
from . import c02_concat


def _n(e):
    return e.id if isinstance(e, ast.Name) else None

FILES = ["kappadata/datasets/kd_subset.py", "kappadata/datasets/kd_concat_dataset.py", "kappadata/datasets/kd_wrapper.py",
         "kappadata/datasets/kd_dataset.py", "kappadata/utils/getall_as_tensor.py"]
# members of KDDataset with terminal ("I am the root") semantics that every layer has to continue down the chain
CHAIN_MEMBERS = ["root_dataset", "all_wrappers", "all_wrapper_types", "has_wrapper", "has_wrapper_type",
                 "get_wrappers_of_type", "fused_operations", "requires_propagate_ctx", "collators", "dispose", "worker_init_fn"]
CHAIN_EXEMPT = {
    ("KDConcatDataset", "collators"): "a concat registers no collators of its own; its parts re-seed theirs through the "
                                      "worker_init_fn chain (C09), and batch-level collators belong to the root of a linear chain",
}
SELF_INCLUDING = {"all_wrappers", "all_wrapper_types", "has_wrapper", "has_wrapper_type", "get_wrappers_of_type"}


def run(prog: Program, rep: Report, tier: str):
    rep.trusted += ["torch.utils.data.Subset / ConcatDataset constructors (indices, datasets, cumulative_sizes = prefix sums)",
                    "functools.partial binds leading positional arguments", "bisect.bisect_right semantics"]
    rep.not_decided += ["correctness of the composed map for arbitrary nestings as values", "len() of arbitrary stacks",
                        "attribute delegation through arbitrary __getattr__ chains at run time",
                        "the installed torch version rejecting KDSubset construction (outside the repository's source)"]
    subset(prog, rep)
    concat(prog, rep)
    chain(prog, rep)
    bulk_helpers(prog, rep)
    lookups_pure(prog, rep)
    names.check(prog, rep, FILES, clause="C02.G1", floor=50)


# ----------------------------------------------------------------------------------------------------------------------
def _getattr_routes(prog: Program, rep: Report, C: ClassInfo, clause: str):
    """__getattr__: 'getitem_' -> partial(self._call_getitem, ...), 'getall_' -> partial(self._call_getall, ...)."""
    rep.rule("G9.getattr-routing", "__getattr__ of a subset / concat layer answers names starting with 'getitem_' with "
             "partial(self.<per-sample handler>, ...) and names starting with 'getall_' with partial(self.<bulk handler>, ...) - two "
             "different methods of the class, which the index rules then analyse; everything else is delegated to the wrapped "
             "dataset")
    fi = C.methods.get("__getattr__")
    if fi is None:
        rep.bad("G9.getattr-routing", C, "__getattr__", f"{C.name} has no __getattr__: item accessors are not intercepted",
                clause=clause)
        return
    fa = fa_of(prog, fi)
    rep.analysed_add("functions", f"{fi.module.relpath}:{fi.qualname}")
    P = ("param", fi.params()[1])
    seen = {}
    # every partial(self.<handler>, ...) built in __getattr__, with the prefix test that dominates it (returned directly or
    # through a result variable)
    for n, c in fa.calls():
        t = fa.sym.term(c, n)
        if t[0] != "call" or not (t[1][0] == "global" and t[1][1].endswith("partial")):
            continue
        target = t[2][0] if t[2] else None
        prefix = None
        for cd in fa.conds_at(n):
            for x in (cd[1] if cd[0] == "and" else (cd,)):
                if x[0] == "call" and x[1] == ("attr", P, "startswith") and x[2] and x[2][0][0] == "const":
                    prefix = x[2][0][1]
        if target is not None and target[0] == "self" and prefix:
            seen[prefix] = target[1]
    table_bad = {}
    dynamic = False
    if not all(p_ in seen for p_ in ("getitem_", "getall_")):
        t_seen, table_bad, dynamic = _table_routes(fa, fi, C)
        for k_, v_ in t_seen.items():
            seen.setdefault(k_, v_)
    routes = {}
    for prefix, role in (("getitem_", "per-sample"), ("getall_", "bulk")):
        h = seen.get(prefix)
        ok = h is not None and h in C.methods and h not in routes.values()
        if ok:
            routes[prefix] = h
        why_bad = f"'{prefix}*' is routed to {h or 'nothing'}: the {role} accessors are not intercepted by a handler of their own"
        if not ok and prefix in table_bad:
            why_bad = table_bad[prefix]
        elif not ok and h is None and dynamic:
            ok = None
            why_bad = f"'{prefix}*': the answer is computed by a dispatch of unrecognised shape (not decided)"
        rep.decide(ok, "G9.getattr-routing", fi, f"route:{prefix}", f"'{prefix}*' -> self.{h} (the {role} handler)", why_bad,
                   clause=clause)
    return routes


def _table_routes(fa, fi, C):
    """Table-driven dispatch: 'kind = <first segment of item>; if kind in TABLE: return partial(getattr(self, TABLE[kind]), item)'.
    -> (prefix -> handler, prefix -> why it is wrong, whether some dynamic dispatch is present at all).
    The key must be the part of the name *before the first* separator: item names contain the separator themselves
    ('getitem_class_before_grouping'), so a key cut at the last separator misses them."""
    item = fi.params()[1]
    me = fi.params()[0]
    FIRST, LAST = "first", "all-but-last"

    def seg_kind(v, pos):
        # v: the call/subscript a key variable is bound from; pos: index of the variable in a tuple target (None: whole value)
        idx = None
        if isinstance(v, ast.Subscript) and isinstance(v.slice, ast.Constant) and isinstance(v.slice.value, int):
            idx, v = v.slice.value, v.value
        if isinstance(v, ast.Subscript) and isinstance(v.slice, ast.Slice) and _n(v.value) == item and v.slice.lower is None and \
                isinstance(v.slice.upper, ast.Call) and isinstance(v.slice.upper.func, ast.Attribute) and \
                _n(v.slice.upper.func.value) == item and v.slice.upper.args and isinstance(v.slice.upper.args[0], ast.Constant):
            m_ = v.slice.upper.func.attr
            return ({"index": FIRST, "find": FIRST, "rindex": LAST, "rfind": LAST}.get(m_), v.slice.upper.args[0].value)
        if not (isinstance(v, ast.Call) and isinstance(v.func, ast.Attribute) and _n(v.func.value) == item and v.args
                and isinstance(v.args[0], ast.Constant) and isinstance(v.args[0].value, str)):
            return None, None
        sep = v.args[0].value
        which = pos if pos is not None else idx
        m_ = v.func.attr
        maxsplit = v.args[1].value if len(v.args) > 1 and isinstance(v.args[1], ast.Constant) else None
        if which != 0:
            return None, sep
        if m_ == "partition" or (m_ == "split" and maxsplit in (None, 1)):
            return FIRST, sep
        if m_ == "rpartition" or (m_ == "rsplit" and maxsplit == 1):
            return LAST, sep
        return None, sep
    keyvars = {}
    for st in ast.walk(fi.node):
        if isinstance(st, ast.Assign) and len(st.targets) == 1:
            t = st.targets[0]
            if isinstance(t, ast.Name):
                k, sep = seg_kind(st.value, None)
                if sep is not None:
                    keyvars[t.id] = (k, sep)
            elif isinstance(t, ast.Tuple) and t.elts and isinstance(t.elts[0], ast.Name):
                k, sep = seg_kind(st.value, 0)
                if sep is not None:
                    keyvars[t.elts[0].id] = (k, sep)

    def table_of(e):
        d = None
        if isinstance(e, ast.Attribute) and (_n(e.value) in (me, C.name) or (
                isinstance(e.value, ast.Call) and _n(e.value.func) == "type")):
            for K in C.mro_classes():
                if e.attr in K.class_attrs:
                    d = K.class_attrs[e.attr]
                    break
        elif isinstance(e, ast.Name):
            vals = [v for _, var, v in fa.stores() if var == e.id]
            if len(vals) == 1:
                d = vals[0]
        if isinstance(d, ast.Dict) and d.keys and all(isinstance(k, ast.Constant) and isinstance(k.value, str) for k in d.keys):
            out = {}
            for k, v in zip(d.keys, d.values):
                out[k.value] = v.value if isinstance(v, ast.Constant) and isinstance(v.value, str) else (
                    v.id if isinstance(v, ast.Name) else (v.attr if isinstance(v, ast.Attribute) else None))
            return out
        return None
    seen, bad = {}, {}
    dynamic = False
    for n, c in fa.calls():
        # getattr(self, <not a constant>) / TABLE[...] inside the answer
        if _n(c.func) == "getattr" and len(c.args) >= 2 and _n(c.args[0]) == me and not isinstance(c.args[1], ast.Constant) \
                and _n(c.args[1]) != item:
            dynamic = True
            sel = c.args[1]
            tab, key = None, None
            if isinstance(sel, ast.Subscript):
                tab, key = table_of(sel.value), sel.slice
            elif isinstance(sel, ast.Call) and isinstance(sel.func, ast.Attribute) and sel.func.attr == "get" and sel.args:
                tab, key = table_of(sel.func.value), sel.args[0]
            if tab is None or not isinstance(key, ast.Name) or key.id not in keyvars:
                continue
            kind, sep = keyvars[key.id]
            # the membership test that guards the lookup
            guarded = any(isinstance(x, ast.Compare) and len(x.ops) == 1 and isinstance(x.ops[0], ast.In) and
                          _n(x.left) == key.id and table_of(x.comparators[0]) == tab
                          for x, pol, _t, _n2 in fa.cond_parts_at(n) if pol)
            for k, h in tab.items():
                prefix = k + sep
                if kind == FIRST and guarded and h is not None:
                    seen[prefix] = h
                elif kind == LAST:
                    bad[prefix] = (f"'{prefix}*' is dispatched on the part of the name before the *last* '{sep}': item names "
                                   f"that contain '{sep}' themselves ('{prefix}class_before_grouping') are not intercepted and "
                                   f"fall through to the first wrapped dataset with an untranslated index")
    return seen, bad, dynamic


def lookups_pure(prog: Program, rep: Report):
    """A delegating __getattr__ must not leave anything behind on the layer it is asked through."""
    rep.rule("G8.lookup-pure", "__getattr__ of every dataset layer only computes its answer: it stores nothing on self (no self.x = "
             "..., no self.__dict__[...] / vars(self)[...] store or update, no setattr / object.__setattr__ on self) - an answer "
             "cached on the layer would keep shadowing the wrapped dataset's attribute after that attribute changes (dispose, "
             "relabelling), so delegation would depend on the history of earlier lookups")
    n = 0
    for C in sorted(prog.classes.values(), key=lambda c: c.qualname):
        fi = C.methods.get("__getattr__")
        if fi is None or prog.is_dead(C.module) or not C.module.relpath.startswith(("kappadata/datasets/", "kappadata/wrappers/")):
            continue
        n += 1
        rep.analysed_add("functions", f"{fi.module.relpath}:{fi.qualname}")
        ps = fi.params()
        me = ps[0] if ps else "self"

        def is_self(e):
            return isinstance(e, ast.Name) and e.id == me

        def self_dict(e):
            return (isinstance(e, ast.Attribute) and e.attr == "__dict__" and is_self(e.value)) or (
                isinstance(e, ast.Call) and isinstance(e.func, ast.Name) and e.func.id == "vars" and e.args and is_self(e.args[0]))
        bad = []
        for x in ast.walk(fi.node):
            if isinstance(x, (ast.Assign, ast.AugAssign, ast.AnnAssign)):
                tgs = x.targets if isinstance(x, ast.Assign) else [x.target]
                for t in tgs:
                    for y in ast.walk(t):
                        if isinstance(y, ast.Attribute) and isinstance(y.ctx, ast.Store) and is_self(y.value):
                            bad.append((x.lineno, f"self.{y.attr} = ..."))
                        if isinstance(y, ast.Subscript) and isinstance(y.ctx, ast.Store) and self_dict(y.value):
                            bad.append((x.lineno, "store into self.__dict__"))
            if isinstance(x, ast.Call):
                f = x.func
                if isinstance(f, ast.Name) and f.id == "setattr" and x.args and is_self(x.args[0]):
                    bad.append((x.lineno, "setattr(self, ...)"))
                if isinstance(f, ast.Attribute) and f.attr in ("__setattr__",) and (is_self(f.value) or (x.args and is_self(x.args[0]))):
                    bad.append((x.lineno, "__setattr__ on self"))
                if isinstance(f, ast.Attribute) and f.attr in ("update", "setdefault", "__setitem__") and self_dict(f.value):
                    bad.append((x.lineno, f"self.__dict__.{f.attr}(...)"))
        rep.decide(not bad, "G8.lookup-pure", fi, "no-store-on-self", "computes its answer without storing on self",
                   "; ".join(f"{w} (line {ln})" for ln, w in bad) + ": the looked-up value is cached on this layer and shadows "
                   "the wrapped dataset's attribute from then on", line=bad[0][0] if bad else fi.node.lineno, clause="C02.3")
    rep.floor("__getattr__ implementations of dataset layers", n, 3)


def subset(prog: Program, rep: Report):
    rep.rule("G5.subset-index", "KDSubset: the per-sample path calls the wrapped accessor with self.indices[idx] (idx its own "
             "parameter, further arguments passed through); the bulk path calls the wrapped bulk accessor once and returns "
             "[result[i] for i in self.indices] (subset order); get_sampler_weights indexes the wrapped weights with "
             "self.indices")
    C = prog.cls("KDSubset")
    rep.analysed_add("classes", C.qualname)
    routes = _getattr_routes(prog, rep, C, "C02.1") or {}
    fi = C.methods.get(routes.get("getitem_", "_call_getitem"))
    rep.require(fi is not None, "anchor-missing: KDSubset._call_getitem")
    fa = fa_of(prog, fi)
    ps = fi.params()
    rets = [t for _, t in fa.returns() if t is not None]
    ok = None
    why = "shape of _call_getitem not recognised"
    if len(rets) == 1 and rets[0][0] == "call" and len(ps) >= 3:
        t = rets[0]
        want0 = ("sub", ("self", "indices"), ("param", ps[2]))
        ok = t[1] == ("param", ps[1]) and t[2][:1] == (want0,)
        extra = all(a[0] == "star" for a in t[2][1:]) and all(k == "**" for k, _ in t[3])
        ok = ok and extra
        why = "func(self.indices[idx], *args, **kwargs)" if ok else \
            f"_call_getitem returns {show(t)}: the wrapped accessor is not called with self.indices[idx] of its own index"
    rep.decide(ok, "G5.subset-index", fi, "per-sample", why, why, clause="C02.1")
    fi = C.methods.get(routes.get("getall_", "_call_getall"))
    rep.require(fi is not None, "anchor-missing: KDSubset._call_getall")
    fa = fa_of(prog, fi)
    ps = fi.params()
    rets = [t for _, t in fa.returns() if t is not None]
    ok = None
    why = "shape of _call_getall not recognised"
    if len(rets) == 1 and rets[0][0] == "comp" and len(rets[0][3]) == 1:
        t = rets[0]
        tgt, it, ifs = t[3][0]
        src = ("call", ("call", ("global", "getattr"), (("self", "dataset"), ("param", ps[1])), ()), (), ())
        elt_ok = t[2][0] == "sub" and t[2][2] == tgt and t[2][1] == src
        ok = it == ("self", "indices") and not ifs and elt_ok and t[1] == "ListComp"
        why = "[getattr(self.dataset, item)()[i] for i in self.indices]" if ok else \
            f"_call_getall returns {show(t)[:120]}: not the wrapped bulk result re-indexed by self.indices in subset order"
    rep.decide(ok, "G5.subset-index", fi, "bulk", why, why, clause="C02.1")
    fi = C.methods.get("get_sampler_weights")
    if fi is not None:
        fa = fa_of(prog, fi)
        rets = [t for _, t in fa.returns() if t is not None]
        ok = len(rets) == 1 and rets[0][0] == "sub" and rets[0][2] == ("self", "indices") and any(
            x[0] == "call" and x[1] == ("attr", ("self", "dataset"), "get_sampler_weights") for x in subterms(rets[0][1])) or (
            len(rets) == 1 and rets[0][0] == "sub" and rets[0][2] == ("self", "indices") and rets[0][1][0] == "var")
        rep.decide(ok, "G5.subset-index", fi, "sampler-weights", "wrapped weights indexed by self.indices",
                   "get_sampler_weights does not select the wrapped dataset's weights with self.indices", clause="C02.1")


def concat(prog: Program, rep: Report):
    rep.rule("G5.concat-index", "KDConcatDataset._call_getitem: (part, local) comes from _to_concat_idx(idx) or, with balanced "
             "sampling, part = idx % len(self.datasets) and local = int(idx / len(self.datasets)) % len(self.datasets[part]) "
             "with the modulus taken over the *same* part; the accessor is looked up on self.datasets[part] and called with "
             "local; _call_getall concatenates the parts' bulk results in self.datasets order")
    rep.rule("G9.concat-translation", "_to_concat_idx, _InterleavedConcatDataset.__getitem__ and the installed torch "
             "ConcatDataset.__getitem__ have the same translation summary: negative -> len(self) + idx, part = "
             "bisect_right(cumulative_sizes, idx), local = idx (first part) / idx - cumulative_sizes[part - 1]")
    prog = prog.keeping("_to_concat_idx")  # summarised as a unit (and compared with its siblings); other helpers are inlined
    C = prog.cls("KDConcatDataset")
    rep.analysed_add("classes", C.qualname)
    routes = _getattr_routes(prog, rep, C, "C02.1") or {}
    fi = C.methods.get(routes.get("getitem_", "_call_getitem"))
    rep.require(fi is not None, "anchor-missing: KDConcatDataset._call_getitem")
    fa = fa_of(prog, fi)
    cfg = fa.cfg
    ps = fi.params()
    IDX = ("param", ps[2]) if len(ps) > 2 else None
    rets = [(n, t) for n, t in fa.returns() if t is not None]
    ok = None
    why = "shape of _call_getitem not recognised"
    if len(rets) == 1 and rets[0][1][0] == "call":
        rn, t = rets[0]
        f = t[1]
        a0 = t[2][0] if t[2] else None
        # func = getattr(self.datasets[D], item)
        part = None
        if f[0] == "call" and f[1] == ("global", "getattr") and len(f[2]) == 2 and f[2][0][0] == "sub" \
                and f[2][0][1] == ("self", "datasets") and f[2][1] == ("param", ps[1]):
            part = f[2][0][2]
        if part is None or a0 is None:
            ok, why = None, f"_call_getitem returns {show(t)[:100]}: accessor lookup of unrecognised shape"
            # the part list may be chosen per mode: with balanced sampling it must be the declared parts (the round-robin and
            # __len__ count self.datasets), whatever faster list the sequential path uses
            fb = fa.prune({("self", "balanced_sampling"): True})
            rb = [(n_, t_) for n_, t_ in fb.returns() if t_ is not None]
            if len(rb) == 1 and rb[0][1][0] == "call":
                fbt = rb[0][1][1]
                if fbt[0] == "call" and fbt[1] == ("global", "getattr") and len(fbt[2]) == 2 and fbt[2][0][0] == "sub":
                    lst = fbt[2][0][1]
                    if lst[0] == "self" and lst[1] != "datasets":
                        ok, why = False, (f"with balanced sampling the part is taken from self.{lst[1]}, not from self.datasets: the "
                                          f"round-robin runs over another list of parts than the one the concat declares (nested "
                                          f"concats are flattened away, their share of the samples changes)")
        else:
            problems = []
            unknown = []
            # all definitions of (part, local) pairs
            pv = part[1] if part[0] == "var" else None
            lv = a0[1] if a0[0] == "var" else None
            if lv is not None and pv is None:
                ok, why = False, (f"the accessor is looked up on self.datasets[{show(part)}] while the local index '{lv}' belongs "
                                  f"to the part computed for idx: samples of other parts are read from the wrong dataset")
            elif pv is None or lv is None:
                ok, why = None, "part / local index are not locals"
            else:
                pdefs = [(n, val) for n, var, val in fa.stores() if var == pv]
                ldefs = [(n, val) for n, var, val in fa.stores() if var == lv]
                n_bal = 0
                for n, val in pdefs:
                    if val is None:
                        # tuple unpacking from _to_concat_idx(idx)
                        st = cfg.nodes[n].ast
                        good = isinstance(st, ast.Assign) and isinstance(st.targets[0], ast.Tuple) and \
                            [getattr(e, "id", None) for e in st.targets[0].elts] == [pv, lv] and \
                            fa.sym.term(st.value, n) == ("call", ("self", "_to_concat_idx"), (IDX,), ()) or (
                                isinstance(st, ast.Assign) and fa.sym.term(st.value, n)[:2] == ("call", ("attr", ("param", ps[0]), "_to_concat_idx")))
                        vt_ = fa.sym.term(st.value, n) if isinstance(st, ast.Assign) else None
                        if not good and vt_ is not None and vt_[0] == "call" and vt_[1][0] == "var":
                            unknown.append(f"(part, local) comes from a call through the local '{vt_[1][1]}' (callee chosen at run "
                                           f"time)")
                        elif not good:
                            problems.append(f"(part, local) at line {fa.line(n)} is not unpacked from self._to_concat_idx(idx) in "
                                            f"that order")
                        continue
                    n_bal += 1
                    pt = fa.sym.term(val, n)
                    nparts = ("call", ("global", "len"), (("self", "datasets"),), ())
                    if pt != ("binop", "%", IDX, nparts):
                        problems.append(f"balanced part index is {show(pt)}, not idx % len(self.datasets)")
                for n, val in ldefs:
                    if val is None:
                        continue
                    lt = fa.sym.term(val, n)
                    nparts = ("call", ("global", "len"), (("self", "datasets"),), ())
                    if lt[0] == "binop" and lt[1] == "%":
                        num, den = lt[2], lt[3]
                        den_ok = den[0] == "call" and den[1] == ("global", "len") and len(den[2]) == 1 and den[2][0][0] == "sub" \
                            and den[2][0][1] == ("self", "datasets")
                        same_part = den_ok and (den[2][0][2] == ("binop", "%", IDX, nparts) or (
                            den[2][0][2][0] == "var" and den[2][0][2][1] == pv))
                        num_ok = any(x == ("binop", "/", IDX, nparts) or x == ("binop", "//", IDX, nparts) for x in subterms(num)) \
                            or num in (("binop", "/", IDX, nparts), ("binop", "//", IDX, nparts))
                        cached_tab = None
                        if not den_ok and den[0] == "sub" and den[1][0] == "self" and den[1][1] != "datasets" and (
                                den[2] == ("binop", "%", IDX, nparts) or (den[2][0] == "var" and den[2][1] == pv)):
                            # modulus read from a per-part table kept on the instance: judged by the statement that builds the
                            # table.  [len(d) for d in self.datasets] or adjacent differences of the cumulative sizes: the part
                            # lengths.  A difference to a fixed element (sizes[0]): wrong from the third part on.  Else: open
                            cached_tab = "open"
                            for M_ in prog.by_relpath.values():
                                for y_ in ast.walk(M_.tree if hasattr(M_, "tree") else ast.Module([], [])):
                                    if isinstance(y_, ast.Assign) and len(y_.targets) == 1 and isinstance(y_.targets[0], ast.Attribute) \
                                            and y_.targets[0].attr == den[1][1]:
                                        comps_ = [c_ for c_ in ast.walk(y_.value) if isinstance(c_, ast.ListComp)]
                                        for c_ in comps_:
                                            e_ = c_.elt
                                            if isinstance(e_, ast.BinOp) and isinstance(e_.op, ast.Sub) and isinstance(e_.right, ast.Subscript) \
                                                    and isinstance(e_.right.slice, ast.Constant):
                                                cached_tab = "fixed-element"
                        if cached_tab == "open":
                            unknown.append(f"the modulus is read from the table self.{den[1][1]}: whether it holds the part lengths "
                                           f"is not decided")
                        elif not den_ok or not same_part:
                            problems.append(f"balanced local index {show(lt)[:90]} is not reduced modulo the length of the part "
                                            f"that was selected (self.datasets[part])")
                        if not num_ok:
                            problems.append(f"balanced local index {show(lt)[:90]} is not derived from idx / len(self.datasets)")
                    else:
                        problems.append(f"local index {show(lt)[:80]} of unrecognised shape")
                ok = (not problems) if not (unknown and not problems) else None
                why = "(part, local) from _to_concat_idx / balanced round-robin over the same part; accessor of that part called " \
                      "with local" if ok else "; ".join(problems or unknown)
                if ok and not (t[2][1:] and all(a[0] == "star" for a in t[2][1:])) and len(ps) > 3:
                    pass
    rep.decide(ok, "G5.concat-index", fi, "per-sample", why, why, clause="C02.1")
    # bulk
    fi = C.methods.get(routes.get("getall_", "_call_getall"))
    rep.require(fi is not None, "anchor-missing: KDConcatDataset._call_getall")
    fa = fa_of(prog, fi)
    cfg = fa.cfg
    loops = [(n, nd) for n, nd in cfg.nodes.items() if nd.kind == "next"
             and fa.sym.term(nd.owner.iter, cfg.stmt_node[nd.owner]) == ("self", "datasets")]
    ok = None
    why = "shape of _call_getall not recognised"
    partial_loops = [(n, nd) for n, nd in cfg.nodes.items() if nd.kind == "next" and not loops
                     and contains(fa.sym.term(nd.owner.iter, cfg.stmt_node[nd.owner]), ("self", "datasets"))]
    if partial_loops:
        it = fa.sym.term(partial_loops[0][1].owner.iter, cfg.stmt_node[partial_loops[0][1].owner])
        ok, why = False, f"the bulk result is collected over {show(it)}, not over all of self.datasets in order"
    if len(loops) == 1 and isinstance(loops[0][1].owner.target, ast.Name):
        LN, nd = loops[0]
        D = ("var", nd.owner.target.id, frozenset({LN}))
        body = cfg.nodes_inside(nd.owner.body)
        rets = [(n, fa.ret_ast(n)[0]) for n, t in fa.returns()]
        acc = rets[0][1].id if len(rets) == 1 and isinstance(rets[0][1], ast.Name) else None
        adds = [n for n, op, e in fa.updates(acc or "", ops=(ast.Add,)) if n in body] + [
            n for n in body if cfg.nodes[n].kind == "stmt" and any(
                isinstance(c.func, ast.Attribute) and c.func.attr == "extend" and isinstance(c.func.value, ast.Name)
                and c.func.value.id == acc for c in cfg.calls_at(n))]
        upd = {n: e for n, op, e in fa.updates(acc or "", ops=(ast.Add,))}
        src_ok = False
        for n in adds:
            v = upd[n] if n in upd else cfg.calls_at(n)[0].args[0]
            names_ = {x[1] for x in leaves(fa.sym.term(v, n)) if x[0] == "var"}
            vt = fa.sym.term(v, n)
            want = ("call", ("call", ("global", "getattr"), (D, ("param", fi.params()[1])), ()), (), ())
            if vt == want:
                src_ok = True
            elif vt[0] == "call" and vt[1][0] == "global" and vt[1][1].rsplit(".", 1)[-1] in ("getall_as_list", "getall") and \
                    vt[2] and vt[2][0] == D:
                # the package's bulk helper, asked for the item whose name is the accessor name minus its 'getall_' prefix
                call_ = v if isinstance(v, ast.Call) else None
                key_e = None
                if call_ is not None:
                    key_e = next((k.value for k in call_.keywords if k.arg == "item"), call_.args[1] if len(call_.args) > 1 else None)
                key_e = fa.expand(key_e, n) if key_e is not None else None
                if isinstance(key_e, ast.Name):
                    ds_ = [d_ for d_ in cfg.reaching().get(n, {}).get(key_e.id, ()) if cfg.nodes[d_].kind != "entry"]
                    if len(ds_) == 1 and cfg.def_value(ds_[0], key_e.id) is not None:
                        key_e = cfg.def_value(ds_[0], key_e.id)
                pname = fi.params()[1]
                verdict_ = None
                if isinstance(key_e, ast.Subscript) and isinstance(key_e.value, ast.Name) and key_e.value.id == pname and \
                        isinstance(key_e.slice, ast.Slice) and key_e.slice.upper is None and key_e.slice.lower is not None:
                    lo_ = fa.sym.term(key_e.slice.lower, n)
                    verdict_ = lo_ in (("const", len("getall_")), ("call", ("global", "len"), (("const", "getall_"),), ()))
                elif isinstance(key_e, ast.Call) and isinstance(key_e.func, ast.Attribute) and isinstance(key_e.func.value, ast.Name) \
                        and key_e.func.value.id == pname:
                    if key_e.func.attr == "removeprefix":
                        verdict_ = bool(key_e.args) and isinstance(key_e.args[0], ast.Constant) and key_e.args[0].value == "getall_"
                    elif key_e.func.attr in ("lstrip", "strip", "rstrip", "replace"):
                        verdict_ = False
                        strip_why = (f"the item name is computed as {ast.unparse(key_e)}: {key_e.func.attr} removes characters, not the "
                                     f"prefix - item names that begin with one of g/e/t/a/l/_ are mangled and their bulk accessor fails "
                                     f"or answers for another item")
                if verdict_ is True:
                    src_ok = True
                elif verdict_ is False:
                    src_ok = "bad"
                else:
                    src_ok = None
            elif vt[0] == "var":
                for d in vt[2]:
                    val = cfg.def_value(d, vt[1])
                    if val is not None and fa.sym.term(val, d) == want:
                        src_ok = True
        entry = cfg.out_edge(LN, True)
        every = bool(adds) and (entry in adds or not cfg.reachable(entry, LN, avoid=set(adds), within=body))
        if src_ok is None and acc is not None and every:
            ok, why = None, "every part contributes through a bulk helper whose item argument is not recognised: not decided"
        elif src_ok == "bad":
            ok, why = False, locals().get("strip_why", "the item name handed to the bulk helper is not the accessor name minus its prefix")
        else:
            ok = acc is not None and bool(src_ok) and every
            why = "result += <bulk result of every part> in self.datasets order" if ok else \
                "the bulk result is not the concatenation of every part's bulk result in self.datasets order"
    rep.decide(ok, "G5.concat-index", fi, "bulk", why, why, clause="C02.1")
    # translation summaries
    t1 = C.methods.get("_to_concat_idx")
    rep.require(t1 is not None, "anchor-missing: KDConcatDataset._to_concat_idx")
    s1 = c02_concat.summary(prog, t1)
    v1 = c02_concat.verdict(s1, ("pair",))
    rep.decide(v1["ok"], "G9.concat-translation", t1, "summary", v1["why"], v1["why"], clause="C02.2")
    t2 = prog.method("_InterleavedConcatDataset", "__getitem__", own=True)
    s2 = c02_concat.summary(prog, t2)
    v2 = c02_concat.verdict(s2, ("pair-indexed",))
    rep.decide(v2["ok"], "G9.concat-translation", t2, "summary", v2["why"], v2["why"], clause="C02.2")
    s3 = c02_concat.torch_reference(prog)
    if s3 is None:
        rep.observations.append("torch ConcatDataset source not found: reference summary skipped")
    else:
        same = all(s1[k] == s3[k] == s2[k] for k in ("negative", "part", "local"))
        rep.decide(True if same else None, "G9.concat-translation", t1, "agrees-with-torch",
                   f"same summary as {s3.get('path', 'torch')}", "the installed torch reference has a different (or unrecognised) "
                   "shape: comparison not decided", clause="C02.2")


# ----------------------------------------------------------------------------------------------------------------------
def _wrapped_refs(fa: FA, C: ClassInfo) -> Set[str]:
    ext = " ".join(C.ext_bases())
    return {"datasets"} if "ConcatDataset" in ext else {"dataset"}


def chain(prog: Program, rep: Report):
    rep.rule("G3.introspection-chain", "every layer class (KDWrapper, KDSubset, KDConcatDataset) defines each KDDataset member with "
             "root semantics - " + ", ".join(CHAIN_MEMBERS) + " - itself, and every normal return (for dispose / worker_init_fn: "
             "every path) consults the same member of the wrapped dataset(s); the self-including members (all_wrappers, "
             "has_wrapper, ...) of KDWrapper / KDSubset additionally contribute self; subclasses that override such a member "
             "keep the chain through super() or self.dataset")
    layers = [prog.cls("KDWrapper"), prog.cls("KDSubset"), prog.cls("KDConcatDataset")]
    root = prog.cls("KDDataset")
    n_ob = 0
    for L in layers:
        rep.analysed_add("classes", L.qualname)
        attr = "datasets" if L.name == "KDConcatDataset" else "dataset"
        for m in CHAIN_MEMBERS:
            fi = L.methods.get(m)
            n_ob += 1
            if (L.name, m) in CHAIN_EXEMPT:
                rep.ok("G3.introspection-chain", L, f"member:{m}", f"exempt: {CHAIN_EXEMPT[(L.name, m)]}", clause="C02.3",
                       nontrivial=False)
                continue
            if fi is None and root not in L.mro() and _getattr_delegates(prog, L, attr):
                rep.ok("G3.introspection-chain", L, f"member:{m}", f"not defined: resolved by {L.name}.__getattr__, which "
                       f"delegates unknown names to self.{attr}", clause="C02.3")
                continue
            if fi is None:
                rep.bad("G3.introspection-chain", L, f"member:{m}", f"{L.name} does not define '{m}': " + (
                    "the root version inherited from KDDataset answers for the layer itself and the wrapped stack is never "
                    "consulted" if root in L.mro() else "the lookup falls through __getattr__ / the torch base class, which "
                    "skips this layer"), clause="C02.3")
                continue
            ok, why = _continues(prog, L, fi, m, attr)
            rep.decide(ok, "G3.introspection-chain", fi, f"member:{m}", why, why, clause="C02.3")
    rep.floor("layer x member obligations", n_ob, 33)
    # overriding subclasses
    for L in layers:
        attr = "datasets" if L.name == "KDConcatDataset" else "dataset"
        for C in prog.subclasses(L, include_self=False):
            for m in CHAIN_MEMBERS:
                fi = C.methods.get(m)
                if fi is None or m == "worker_init_fn":
                    continue
                ok, why = _continues(prog, C, fi, m, attr, allow_super=True)
                rep.decide(ok, "G3.introspection-chain", fi, f"override:{m}", why, why, clause="C02.3")


def _getattr_delegates(prog: Program, L: ClassInfo, attr: str) -> bool:
    """__getattr__ of the layer ends in 'return getattr(self.<attr>, item)' for names it does not intercept."""
    fi = L.methods.get("__getattr__")
    if fi is None:
        return False
    fa = fa_of(prog, fi)
    P = ("param", fi.params()[1])
    for n, t in fa.returns():
        if t is not None and t == ("call", ("global", "getattr"), (("self", attr), P), ()):
            # the fall-through return: not under a positive startswith / equality test on the name
            conds = fa.conds_at(n)
            if not any(c[0] in ("call", "eqv") for c in conds):
                return True
    return False


def _continues(prog: Program, C: ClassInfo, fi: FuncInfo, member: str, attr: str, allow_super=False):
    """Every normal return of fi (or, for procedures, every path) consults <member> of the wrapped dataset(s)."""
    fa = fa_of(prog, fi)
    cfg = fa.cfg

    def is_wrapped_member(t: Term) -> bool:
        # self.dataset.<member> / self.datasets[k].<member> / <loop element of self.datasets>.<member>
        if t[0] == "attr" and t[2] == member:
            b = t[1]
            if b == ("self", attr):
                return True
            if b[0] == "sub" and b[1] == ("self", attr):
                return True
            if b[0] in ("var", "bound"):
                return True
        if allow_super and t[0] == "attr" and t[2] == member and t[1][0] == "call" and t[1][1] == ("global", "super"):
            return True
        return False

    def mentions(t) -> bool:
        return any(is_wrapped_member(x) for x in subterms(t)) or (t is not None and is_wrapped_member(t))

    if member in ("dispose", "worker_init_fn"):
        nodes = set()
        for n, c in fa.calls():
            t = fa.sym.term(c.func, n)
            if is_wrapped_member(t):
                nodes.add(n)
        # a loop over self.datasets that calls it in every iteration counts through its 'iter' node
        through = set()
        for n in nodes:
            lp = [t_ for t_, lab in cfg.control_predicates(n) if cfg.nodes[t_].kind == "next"]
            if lp:
                nx = lp[-1]
                entry = cfg.out_edge(nx, True)
                if entry in nodes or not cfg.reachable(entry, nx, avoid=nodes):
                    through.add(cfg.stmt_node[cfg.nodes[nx].owner])
            else:
                through.add(n)
        ok = bool(through) and cfg.must_pass(through)
        return ok, (f"{fi.qualname} calls {member} of the wrapped dataset(s) on every path" if ok else
                    f"{fi.qualname} does not call {member} of the wrapped dataset(s) on every path: the chain stops at this layer")
    rets = fa.returns()
    if not rets:
        return False, f"{fi.qualname} returns nothing"
    bad = []
    for n, t in rets:
        if t is None:
            bad.append(n)
            continue
        srcs = [t]
        if t[0] == "var":
            srcs = []
            for d in t[2]:
                val = cfg.def_value(d, t[1])
                srcs.append(fa.sym.term(val, d) if val is not None else ("const", None))
        if t == ("const", True) and member in ("has_wrapper", "has_wrapper_type"):
            continue  # the layer itself matched
        if not all(mentions(s) for s in srcs):
            # a return of [self] + <var> where var is defined from the wrapped member
            flat = [x for s in srcs for x in subterms(s)]
            via_var = False
            for x in flat:
                if x[0] == "var":
                    for d in x[2]:
                        val = cfg.def_value(d, x[1])
                        if val is not None and mentions(fa.sym.term(val, d)):
                            via_var = True
            if not via_var:
                bad.append(n)
    ok = not bad
    return ok, (f"every return of {fi.qualname} consults {member} of the wrapped dataset(s)" if ok else
                f"{fi.qualname} has a return (line {fa.line(bad[0])}) that does not consult {member} of the wrapped dataset(s): "
                f"introspection stops at this layer")


# ----------------------------------------------------------------------------------------------------------------------
def bulk_helpers(prog: Program, rep: Report):
    rep.rule("G9.bulk-fallback", "utils.getall: the fast path returns getattr(dataset, 'getall_<item>')() when that attribute "
             "exists, the slow path [getitem_<item>(i) for i in range(len(dataset))] in index order; getall_as_list / "
             "getall_as_numpy / getall_as_tensor obtain their items from getall(dataset, item) and every return is that value "
             "or a conversion of it")
    rel = "kappadata/utils/getall_as_tensor.py"
    prog = prog.keeping("getall")  # getall is the unit the three converters are compared against
    g = prog.func(rel, "getall")
    fa = fa_of(prog, g)
    rep.analysed_add("functions", f"{rel}:getall")
    D, I = ("param", "dataset"), ("param", "item")
    rets = [(n, t) for n, t in fa.returns() if t is not None]
    fast = slow = None
    for n, t in rets:
        conds = fa.conds_at(n)
        if t[0] == "call" and t[1][0] == "call" and t[1][1] == ("global", "getattr") and t[1][2][0] == D:
            nm = t[1][2][1]
            fast = nm == ("fstr", (("const", "getall_"), ("fmt", I))) and any(
                c == ("call", ("global", "hasattr"), (D, nm), ()) for c in conds)
        elif t[0] == "comp" and len(t[3]) == 1:
            tgt, it, ifs = t[3][0]
            rng_ok = it == ("call", ("global", "range"), (("call", ("global", "len"), (D,), ()),), ()) and not ifs
            elt = t[2]
            acc_ok = elt[0] == "call" and elt[2] == (tgt,) and (
                elt[1] == ("call", ("global", "getattr"), (D, ("fstr", (("const", "getitem_"), ("fmt", I)))), ()) or
                (elt[1][0] == "var"))
            slow = rng_ok and acc_ok
    rep.decide(fast, "G9.bulk-fallback", g, "fast-path", "getattr(dataset, f'getall_{item}')() under hasattr",
               "the fast path does not call exactly getall_<item> of the dataset", clause="C02.4")
    rep.decide(slow, "G9.bulk-fallback", g, "slow-path", "[getitem_<item>(i) for i in range(len(dataset))]",
               "the slow path is not getitem_<item>(i) for i in range(len(dataset)) in order", clause="C02.4")
    for name in ("getall_as_list", "getall_as_numpy", "getall_as_tensor"):
        f = prog.func(rel, name, required=False)
        if f is None:
            continue
        a = fa_of(prog, f)
        rep.analysed_add("functions", f"{rel}:{name}")
        src = [(n, var) for n, var, val in a.stores() if val is not None and a.sym.term(val, n)[:2] == (
            "call", ("global", f"{f.module.name}.getall"))]
        items = src[0][1] if src else None
        item_vars = {v_ for _, v_ in src}  # (copies of the loaded value count as the loaded value)
        # the helper asks getall for its own (dataset, item): an argument left out falls back to getall's default item
        ps_ = f.params()
        for n_, var_, val_ in a.stores():
            if val_ is None or a.sym.term(val_, n_)[:2] != ("call", ("global", f"{f.module.name}.getall")):
                continue
            t_ = a.sym.term(val_, n_)
            given = list(t_[2]) + [v__ for _k, v__ in t_[3]]
            missing = [p_ for p_ in ps_ if p_ in ("dataset", "item") and ("param", p_) not in given]
            rep.decide(not missing, "G9.bulk-fallback", f, "passes-arguments", "getall receives the helper's dataset and item",
                       f"{name} calls getall without its own argument(s) {', '.join(missing)}: the bulk values of another item "
                       f"(getall's default) are returned whatever item was asked for", line=a.line(n_), clause="C02.4")
        ok = items is not None
        bad_ret = None
        for n, t in a.returns():
            rv = a.ret_ast(n)[0]
            if rv is None:
                ok, bad_ret = False, "bare return"
                continue
            used = {y.id for y in ast.walk(rv) if isinstance(y, ast.Name)}
            # through conversion temporaries (helpers inlined): names the returned value is computed from
            work_, depth_ = [(y_, n) for y_ in used], 0
            seen_ = set(used)
            while work_ and depth_ < 200:
                depth_ += 1
                nm_, at_ = work_.pop()
                for d_ in a.cfg.reaching().get(at_, {}).get(nm_, ()):
                    v_ = a.cfg.def_value(d_, nm_) if a.cfg.nodes[d_].kind != "entry" else None
                    if v_ is not None:
                        for y_ in ast.walk(v_):
                            if isinstance(y_, ast.Name) and y_.id not in seen_:
                                seen_.add(y_.id)
                                work_.append((y_.id, d_))
            used = seen_
            raw_ = a.cfg.nodes[n].ast.value if isinstance(a.cfg.nodes[n].ast, ast.Return) else None
            if isinstance(raw_, ast.Name) and raw_.id in item_vars:
                continue  # the loaded items themselves
            if not (item_vars & used):
                ok, bad_ret = False, f"returns {ast.unparse(rv)[:60]}, which is not derived from the loaded items"
        rep.decide(ok, "G9.bulk-fallback", f, "returns-items", "every return is (a conversion of) getall(dataset, item)",
                   f"{name}: {bad_ret or 'items are not obtained from getall(dataset, item)'}", clause="C02.4")
