"""Translation summary of a concat-style index map (shared by C02 and C05).

``summary(prog, fi)`` reduces a function of the shape of ``torch.utils.data.ConcatDataset.__getitem__`` to the
facts that make it *the* concat translation:

  negative   under ``idx < 0`` the index is replaced by ``len(self) + idx``
  part       ``bisect.bisect_right(self.cumulative_sizes, idx)``
  local      ``idx`` where ``part == 0`` and ``idx - self.cumulative_sizes[part - 1]`` elsewhere
  result     'pair' (part, local) | 'indexed' datasets[part][local] | 'pair-indexed' (part, datasets[part][local])

Each fact is True / False / None (shape not recognised).
"""
from __future__ import annotations

import ast
import glob
import os
from typing import Dict, Optional

from ..cfg import CFG
from ..fa import FA, fa_of
from ..model import FuncInfo, Module, Program
from ..sym import Poly, Term, negate, show, term_to_poly


def _strip(t):
    if isinstance(t, tuple):
        if t and t[0] == "var" and len(t) == 3:
            return ("var", t[1])
        return tuple(_strip(x) for x in t)
    if isinstance(t, frozenset):
        return tuple(sorted((_strip(x) for x in t), key=repr))
    return t


def _self_attr(t, name):
    return t == ("self", name)


def summary(prog: Program, fi: FuncInfo, fa: Optional[FA] = None) -> Dict[str, object]:
    fa = fa or fa_of(prog, fi)
    cfg = fa.cfg
    ps = fi.params()
    out: Dict[str, object] = {"negative": None, "part": None, "local": None, "result": None, "why": []}
    if len(ps) < 2:
        out["why"].append("no index parameter")
        return out
    idxp = ps[1]
    rets = [(n, t) for n, t in fa.returns() if t is not None]
    if len(rets) != 1:
        out["why"].append(f"{len(rets)} value returns")
        return out
    rn, rt = rets[0]
    D = S = None
    ds = ("self", "datasets")
    if rt[0] == "tuple" and len(rt[1]) == 2:
        D, second = rt[1]
        if second[0] == "sub" and second[1] == ("sub", ds, D):
            S = second[2]
            out["result"] = "pair-indexed"
        else:
            S = second
            out["result"] = "pair"
    elif rt[0] == "sub" and rt[1][0] == "sub" and rt[1][1] == ds:
        D, S = rt[1][2], rt[2]
        out["result"] = "indexed"
    else:
        out["why"].append(f"return value {show(rt)} of unrecognised shape")
        return out

    def is_idx(t):
        """the (possibly normalised) index: the parameter or a version of it"""
        return t == ("param", idxp) or (t[0] == "var" and t[1] == idxp)

    # part
    cs = ("self", "cumulative_sizes")
    # (bisect.bisect is the same function object as bisect.bisect_right)
    if D[0] == "call" and D[1][0] == "global" and (D[1][1].endswith("bisect_right") or D[1][1] in ("bisect.bisect", "bisect")
                                                   or D[1][1].endswith(".bisect.bisect")) and len(D[2]) == 2 and not D[3]:
        out["part"] = D[2][0] == cs and is_idx(D[2][1])
        if not out["part"]:
            out["why"].append(f"part index is {show(D)}, not bisect_right(self.cumulative_sizes, idx)")
    elif D[0] == "call" and D[1][0] == "global" and "bisect" in D[1][1]:
        out["part"] = False
        out["why"].append(f"part index uses {D[1][1]} (an index equal to a boundary belongs to the next part: "
                          f"bisect_right is required)")
    else:
        out["why"].append(f"part index {show(D)} of unrecognised shape")
    # negative normalisation: defs of idx
    neg_defs = [(n, val) for n, var, val in fa.stores() if var == idxp]
    if not neg_defs:
        out["negative"] = False
        out["why"].append("negative indices are not normalised (no 'idx = len(self) + idx')")
    elif len(neg_defs) == 1 and neg_defs[0][1] is not None:
        n, val = neg_defs[0]
        p = term_to_poly(fa.sym.term(val, n))
        ln = ("call", ("global", "len"), (("param", ps[0]),), ())
        # torch's ConcatDataset.__len__ is cumulative_sizes[-1] (sibling summary of the installed torch, see below)
        last = ("sub", ("self", "cumulative_sizes"), ("const", -1))
        if last in p.atoms():
            p = p.subst(last, Poly.atom(ln))
        want = Poly.atom(ln) + Poly.atom(("param", idxp))
        conds = fa.conds_at(n)
        under_neg = ("lt", ("param", idxp)) in conds
        # every path to the part computation with idx < 0 passes the normalisation: the def lies in the True
        # branch of the idx<0 test and that branch falls through (or raises)
        out["negative"] = (p == want) and under_neg
        if not out["negative"]:
            out["why"].append(f"negative index normalised as {show(fa.sym.term(val, n))} under "
                              f"{' and '.join(show(c) for c in conds) or 'no condition'}, expected len(self) + idx under idx < 0")
    else:
        out["why"].append("index parameter re-assigned more than once")
    # local
    if S[0] == "var":
        sdefs = [(n, val) for n, var, val in fa.stores() if var == S[1] and n in S[2]]
        ok = None
        if len(sdefs) == 2 and all(v is not None for _, v in sdefs):
            seen0 = seenk = False
            ok = True
            for n, val in sdefs:
                t = fa.sym.term(val, n)
                conds = fa.conds_at(n)
                zero = ("eq", D) in conds
                nonzero = ("ne", D) in conds or ("lt", tuple()) in conds
                pos = any(c[0] in ("ne",) and c[1] == D for c in conds) or any(
                    c[0] == "lt" and term_to_poly(c[1]) == -term_to_poly(D) for c in conds)
                if zero:
                    seen0 = True
                    if not is_idx(t):
                        ok = False
                        out["why"].append(f"local index in the first part is {show(t)}, not idx")
                elif pos:
                    seenk = True
                    p = term_to_poly(t)
                    prev = ("sub", cs, ("poly", (term_to_poly(D) - Poly.const(1)).key()))
                    idx_atoms = [a for a in p.atoms() if is_idx(a)]
                    good = len(idx_atoms) == 1 and p == Poly.atom(idx_atoms[0]) - Poly.atom(prev)
                    if not good:
                        ok = False
                        out["why"].append(f"local index in later parts is {show(t)}, not idx - cumulative_sizes[part - 1]")
                else:
                    ok = None
                    out["why"].append("definition of the local index under an unrecognised condition")
                    break
            if ok and not (seen0 and seenk):
                ok = None
        out["local"] = ok
    elif S[0] == "ifexp" or S[0] == "poly":
        out["why"].append(f"local index {show(S)} of unrecognised shape")
    else:
        out["why"].append(f"local index {show(S)} of unrecognised shape")
    return out


def verdict(s: Dict[str, object], want_result) -> Dict[str, object]:
    facts = [s["negative"], s["part"], s["local"]]
    if any(f is False for f in facts) or (s["result"] is not None and s["result"] not in want_result):
        ok = False
    elif all(f is True for f in facts) and s["result"] in want_result:
        ok = True
    else:
        ok = None
    why = "; ".join(s["why"]) if s["why"] else (
        f"negative: len+idx; part: bisect_right(cumulative_sizes, idx); local: idx / idx - cumulative_sizes[part-1]; "
        f"result: {s['result']}")
    if s["result"] is not None and s["result"] not in want_result:
        why += f"; result shape {s['result']} where {'/'.join(want_result)} is required"
    return {"ok": ok, "why": why}


def concat_getitem_summary(prog: Program, fi: FuncInfo) -> Dict[str, object]:
    return verdict(summary(prog, fi), ("pair-indexed",))


def torch_reference(prog: Program) -> Optional[Dict[str, object]]:
    """Summary of the installed torch ConcatDataset.__getitem__ (source file is parsed, never imported)."""
    cands = sorted(glob.glob("/venv/lib/python3*/site-packages/torch/utils/data/dataset.py"))
    for path in cands:
        try:
            src = open(path, encoding="utf-8").read()
            tree = ast.parse(src)
        except (OSError, SyntaxError):
            continue
        for node in tree.body:
            if isinstance(node, ast.ClassDef) and node.name == "ConcatDataset":
                for st in node.body:
                    if isinstance(st, ast.FunctionDef) and st.name == "__getitem__":
                        m = Module("torch.utils.data.dataset", path, src, tree, False)
                        m.bindings["bisect"] = ("modref", "bisect")
                        from ..model import ClassInfo
                        ci = ClassInfo("ConcatDataset", m, node)
                        fi = FuncInfo("__getitem__", "ConcatDataset.__getitem__", m, st, ci)
                        s = summary(prog, fi, FA(prog, fi))
                        s["path"] = path
                        return s
    return None
