"""C11 - the sample-level mix returns a convex combination with matching label weights (DESIGN §4 C11)."""
from __future__ import annotations

import ast
from typing import Dict, List, Optional, Set

from ..core import Report
from ..deps import Deps
from ..fa import FA, fa_of
from ..model import ClassInfo, Program
from ..rules import names
from ..rules.rng import GENERATOR_METHODS
from ..rules.seeded import generator_constructions, seed_form, seed_not_none_assumption
from ..sym import Poly, Term, leaves, show, subterms, term_to_poly
from .c10 import _base_name, _name, _resolve_names

FILES = ["kappadata/wrappers/sample_wrappers/kd_mix_wrapper.py", "kappadata/utils/one_hot.py"]


def projections(prog: Program, rep: Report, C: ClassInfo, a: str, b: str, clause: str):
    """getitem_<a> / getitem_<b> are components 0 / 1 of getitem_<a><b> called with the same (idx, ctx) (also C01.5)."""
    rep.rule("G9.fused-projection", "for a declared fused group [a, b]: getitem_<a><b> exists and returns pairs on every normal "
             "return; getitem_<a> returns component 0 and getitem_<b> component 1 of self.getitem_<a><b>(idx, ctx=ctx) called "
             "with their own idx and ctx - separately requested items describe the same draw as the joint request")
    fused = C.lookup(f"getitem_{a}{b}")
    if fused is None:
        rep.bad("G9.fused-projection", C, f"fused:{a}{b}", f"fused group [{a}, {b}] is declared but getitem_{a}{b} does not "
                f"exist", clause=clause)
        return
    fa = fa_of(prog, fused)
    rets = fa.returns()
    ok = bool(rets) and all(t is not None and t[0] == "tuple" and len(t[1]) == 2 for _, t in rets)
    rep.decide(ok, "G9.fused-projection", fused, "returns-pairs", "every return is a pair", "a return of the fused loader is "
               "not a 2-tuple", clause=clause, nontrivial=False)
    for k, item in enumerate((a, b)):
        fi = C.lookup(f"getitem_{item}")
        if fi is None:
            rep.bad("G9.fused-projection", C, f"projection:{item}", f"getitem_{item} missing", clause=clause)
            continue
        pa = fa_of(prog, fi)
        ps = fi.params()
        rets = pa.returns()
        want_call = ("call", ("attr", ("param", ps[0]), f"getitem_{a}{b}"), (("param", ps[1]),), (("ctx", ("param", "ctx")),)) \
            if len(ps) >= 3 else None
        ok = len(rets) == 1 and rets[0][1] is not None and rets[0][1][0] == "sub" and rets[0][1][2] == ("const", k)
        call_ok = False
        ct = rets[0][1][1] if ok else None
        if not ok and len(rets) == 1:
            # 'a, b = self.getitem_ab(idx, ctx=ctx); return a'  - component k by tuple unpacking
            rv = pa.ret_ast(rets[0][0])[0]
            if isinstance(rv, ast.Name):
                defs = pa.cfg.reaching().get(rets[0][0], {}).get(rv.id, set())
                if len(defs) == 1:
                    (d,) = defs
                    st = pa.cfg.nodes[d].ast if pa.cfg.nodes[d].kind == "stmt" else None
                    if isinstance(st, ast.Assign) and len(st.targets) == 1 and isinstance(st.targets[0], ast.Tuple) and \
                            isinstance(st.value, ast.Call) and len(st.targets[0].elts) == 2 and \
                            [_name(e) for e in st.targets[0].elts].index(rv.id) == k if rv.id in [
                                _name(e) for e in st.targets[0].elts] else False:
                        ok = True
                        ct = pa.sym.term(st.value, d)
        if ok:
            call_ok = ct[0] == "call" and (ct[1] == ("attr", ("param", ps[0]), f"getitem_{a}{b}") or
                                           ct[1] == ("self", f"getitem_{a}{b}")) and \
                (ct[2][:1] == (("param", ps[1]),) or ("idx", ("param", ps[1])) in ct[3]) and \
                (("ctx", ("param", "ctx")) in ct[3] or ct[2][1:2] == (("param", "ctx"),) or "ctx" not in ps)
        rep.decide(ok and call_ok, "G9.fused-projection", fi, f"projection:{item}",
                   f"getitem_{item} = getitem_{a}{b}(idx, ctx=ctx)[{k}]",
                   f"getitem_{item} does not return component {k} of getitem_{a}{b}(idx, ctx=ctx) (returns "
                   f"{show(rets[0][1]) if rets and rets[0][1] else '?'})", clause=clause)


def declared_fused(prog: Program, C: ClassInfo) -> List[List[str]]:
    fo = C.methods.get("fused_operations")
    out = []
    if fo is None:
        return out
    for y in ast.walk(fo.node):
        if isinstance(y, ast.List) and y.elts and all(isinstance(e, ast.Constant) and isinstance(e.value, str) for e in y.elts):
            out.append([e.value for e in y.elts])
    return out


def run(prog: Program, rep: Report, tier: str):
    rep.trusted += ["torch in-place ops behave as documented; torch.nn.functional.one_hot returns a 0/1 vector",
                    "np.random.Generator.beta returns a value in [0, 1]"]
    rep.not_decided += ["non-negativity / sum-to-one of the label vector as tensor values",
                        "the pad / cut arithmetic of the shape unification for arbitrary shape pairs"]
    C = prog.cls("KDMixWrapper")
    fi = C.methods.get("getitem_xclass")
    rep.require(fi is not None, "anchor-missing: KDMixWrapper.getitem_xclass")
    fa = fa_of(prog, fi)
    cfg = fa.cfg
    rep.analysed_add("functions", f"{fi.module.relpath}:{fi.qualname}")
    ps = fi.params()
    IDX = ("param", ps[1])

    # ---- one generator, seeded with (seed, idx) ----------------------------------------------------------------------
    rep.rule("G4.one-draw", "every random draw of getitem_xclass is a method call on one local generator variable whose "
             "definitions are: a generator constructed in the call from exactly {self.seed, idx} under 'seed is not None', "
             "and get_rng_from_global() otherwise")
    draws = [(n, c) for n, c in fa.calls() if isinstance(c.func, ast.Attribute) and c.func.attr in GENERATOR_METHODS
             and isinstance(c.func.value, ast.Name) and c.func.value.id != fa.self_name
             and not isinstance(cfg.nodes[n].ast, ast.Import)]
    draws = [(n, c) for n, c in draws if c.func.value.id not in ("torch", "np", "numpy")]
    rep.floor("draws in KDMixWrapper.getitem_xclass", len(draws), 2)
    from ..rules.rng import RngDiscipline
    from ..types_ import AttrTypes
    rd = RngDiscipline(prog, AttrTypes(prog))
    events, _ = rd.explore(C, [fi])
    bad_ev = [e for e in events if e.kind in ("global", "entropy")]
    rep.decide(not bad_ev, "G4.one-draw", fi, "no-global-draw", "no draw from a process-global / unseeded RNG",
               "; ".join(f"{e.text}: {e.detail}" for e in bad_ev[:3]), line=bad_ev[0].line if bad_ev else fi.node.lineno,
               clause="C11.1")
    gvars = {c.func.value.id for _, c in draws}
    rep.decide(len(gvars) == 1, "G4.one-draw", fi, "one-generator-variable", f"all draws on '{sorted(gvars)[0] if gvars else '?'}'",
               f"draws are made on several generators ({', '.join(sorted(gvars))}): data and label decisions can come from "
               f"different streams", clause="C11.1")
    assume = seed_not_none_assumption(fa)
    if gvars and draws:
        g = sorted(gvars)[0]
        # which definitions of the generator variable reach the first draw - with a seed, and without one (each on the CFG
        # pruned by that assumption, so 'rng = make(seed, idx); if rng is None: rng = <fallback>' is followed correctly)
        for tag, assumption in (("seeded", assume), ("unseeded", {k: (not v) for k, v in assume.items()})):
            pa = fa.prune(assumption)
            first = [n for n, c in draws if n in pa.cfg.nodes]
            if not first:
                rep.unk("G4.one-draw", fi, f"{tag}-generator", "no draw on this configuration's paths", clause="C11.1")
                continue
            d0 = min(first)
            reach = pa.cfg.reaching().get(d0, {}).get(g, set())
            verdicts = []
            for d in sorted(reach):
                val = pa.cfg.def_value(d, g)
                if val is None:
                    verdicts.append((None, "generator bound by an unrecognised statement", d))
                    continue
                t = pa.sym.term(val, d)
                if tag == "seeded":
                    gens = [(m, c, s_) for m, c, s_ in generator_constructions(pa) if m == d]
                    ok, why = seed_form(gens[0][2], ps[1], assume=assume) if gens else (False, f"with a seed the generator is {show(t)[:80]}, "
                                                                                        "not one constructed from (seed, idx)")
                else:
                    ok = t[0] == "call" and t[1][0] == "global" and t[1][1].endswith("get_rng_from_global")
                    why = "get_rng_from_global() when no seed is configured" if ok else f"without a seed the generator is {show(t)[:80]}"
                verdicts.append((ok, why, d))
            ok_all = bool(verdicts) and all(v[0] is True for v in verdicts)
            bad = [v for v in verdicts if v[0] is False]
            rep.decide(False if bad else (True if ok_all else None), "G4.one-draw", fi, f"{tag}-generator",
                       verdicts[0][1] if verdicts else "no generator reaches the first draw",
                       "; ".join(v[1] for v in (bad or verdicts)) or "no generator reaches the first draw",
                       line=fa.line(verdicts[0][2]) if verdicts else fi.node.lineno, clause="C11.1", nontrivial=(tag == "seeded"))

    # ---- partner -------------------------------------------------------------------------------------------------------
    rep.rule("G9.one-partner", "the second sample's data and label are loaded from self.dataset with one and the same partner "
             "index, drawn once as rng.integers(len(self)); the first sample's data and label are loaded with idx")
    loads: Dict[str, List] = {}
    for n, c in fa.calls():
        f = c.func
        if isinstance(f, ast.Attribute) and f.attr in ("getitem_x", "getitem_class") and fa.sym.term(f.value, n) == ("self", "dataset"):
            st = cfg.nodes[n].ast
            tgt = _name(st.targets[0]) if isinstance(st, ast.Assign) else None
            arg = fa.sym.term(c.args[0], n) if c.args else None
            loads.setdefault(f.attr, []).append((n, tgt, arg, c))
    own_x = [l for l in loads.get("getitem_x", []) if l[2] == IDX]
    own_c = [l for l in loads.get("getitem_class", []) if l[2] == IDX]
    par_x = [l for l in loads.get("getitem_x", []) if l[2] != IDX]
    par_c = [l for l in loads.get("getitem_class", []) if l[2] != IDX]
    rep.decide(len(own_x) == 1 and len(own_c) == 1 and len(par_x) == 1 and len(par_c) == 1, "G9.one-partner", fi, "loads",
               "one (x, class) load with idx and one with the partner index",
               f"expected exactly one own and one partner load of x and class (own x/class: {len(own_x)}/{len(own_c)}, partner "
               f"x/class: {len(par_x)}/{len(par_c)})", clause="C11.2")
    if par_x and par_c:
        same = par_x[0][2] == par_c[0][2]
        pt = par_x[0][2]
        want = ("call", ("attr", None, "integers"), (("call", ("global", "len"), (("param", ps[0]),), ()),), ())
        hi_ = None
        if pt[0] == "call" and pt[1][0] == "attr" and pt[1][2] == "integers":
            kw_ = {k_: v_ for k_, v_ in pt[3] if not str(k_).startswith("#")}
            if len(pt[2]) == 1 and not kw_:
                hi_ = pt[2][0]
            elif len(pt[2]) == 2 and pt[2][0] == ("const", 0):
                hi_ = pt[2][1]
            elif "high" in kw_ and (kw_.get("low", pt[2][0] if pt[2] else ("const", 0)) == ("const", 0)):
                hi_ = kw_["high"]
            elif "low" in kw_ and not pt[2] and "high" not in kw_:
                hi_ = kw_["low"]
        drawn = hi_ is not None and hi_ == want[2][0]
        rep.decide(same and drawn, "G9.one-partner", fi, "partner-index",
                   "x2 and cls2 are loaded with the same index, drawn as rng.integers(len(self))",
                   ("the partner's data and label are loaded with different indices: the label weights describe another "
                    "sample than the one mixed in" if not same else f"the partner index is {show(pt)}, not a draw over "
                    f"len(self)"), line=par_x[0][3].lineno, clause="C11.2")

    # ---- convex form --------------------------------------------------------------------------------------------------
    rep.rule("G6.convex-mix", "data and label are mixed as own.mul_(L).add_(partner.mul_(1 - L)) with L the drawn lambda (or a "
             "view of it) - the same lambda variable for both -, own = the value loaded with idx, partner = the value loaded "
             "with the partner index (possibly shape-unified)")
    from ..rules.mixes import inplace_mixes, split_scaled
    mixes = []
    for n, c, own_, L_, P_ in inplace_mixes(fa):
        sp = split_scaled(fa, P_, n)
        if sp is not None:
            mixes.append((n, c, own_, L_, sp[0], sp[1]))
    rep.floor("mix statements in getitem_xclass", len(mixes), 1)
    lam_vars = set()
    roles = {}
    if own_x and own_c and par_x and par_c:
        roles = {own_x[0][1]: ("x", "own"), own_c[0][1]: ("class", "own"), par_x[0][1]: ("x", "partner"),
                 par_c[0][1]: ("class", "partner")}
    for n, c, own_e, L1, partner_e, L2 in mixes:
        own = _base_name(fa.expand(own_e, n))
        partner = _base_name(fa.expand(partner_e, n))
        L = term_to_poly(fa.sym.term(L1, n))
        problems = []
        if not (len(L.terms) == 1 and len(L.atoms()) == 1 and L.coeff_of(next(iter(L.atoms()))).const_value() == 1):
            problems.append(f"the weight of the sample itself ({ast.unparse(L1)}) is not the lambda itself")
        if term_to_poly(fa.sym.term(L2, n)) != Poly.const(1) - L:
            problems.append(f"the partner weight {ast.unparse(L2)} is not 1 - {ast.unparse(L1)}")
        ro, rp = roles.get(own), roles.get(partner)
        if roles and not (ro and rp):
            # through temporaries, converters and shape unification: which load does the operand come from?
            load_role = {own_x[0][0]: ("x", "own"), own_c[0][0]: ("class", "own"), par_x[0][0]: ("x", "partner"),
                         par_c[0][0]: ("class", "partner")}
            ro = ro or _load_origin(fa, own_e, n, load_role)
            rp = rp or _load_origin(fa, partner_e, n, load_role)
            ro = None if ro == "no-new-information" else ro
            rp = None if rp == "no-new-information" else rp
        if roles and not (ro and rp and ro[1] == "own" and rp[1] == "partner" and ro[0] == rp[0]):
            problems.append(f"'{own}' ({ro}) is mixed with '{partner}' ({rp}): not own and partner of the same item")
        base = _resolve_names(fa, L1, n)
        lam_vars.add(frozenset(v for v in base if any(
            isinstance(val, ast.Call) and "beta" in ast.unparse(val) for m, var, val in fa.stores() if var == v and val is not None)))
        rep.decide(not problems, "G6.convex-mix", fi, f"mix:{own}", f"{own} = L*{own} + (1-L)*{partner}", "; ".join(problems),
                   line=c.lineno, clause="C11.3")
    if mixes:
        rep.decide(len(lam_vars) == 1 and all(lam_vars), "G6.convex-mix", fi, "one-lambda",
                   "data and label weights derive from the same drawn lambda",
                   "data and label are mixed with different lambda draws", clause="C11.3")
        # shape unification before the mix
        unify = [n for n, nd in cfg.nodes.items() if nd.kind == "test" and any(
            x == ("self", "mixup_unify_shapes_mode") for x in subterms(fa.sym.term(nd.ast, n)))]
        ok = bool(unify) and all(cfg.must_pass(set(unify), src=cfg.entry, dst=m_[0]) for m_ in mixes)
        rep.decide(ok, "G6.convex-mix", fi, "unify-before-mix", "every mixing path passes the shape unification first",
                   "a mixing path bypasses the shape check / unification", clause="C11.3")

    # ---- padding goes to the end ----------------------------------------------------------------------------------------
    rep.rule("G6.pad-at-end", "in the 'pad_or_cut_end' unification every padding list handed to pad(..) carries its amounts in the "
             "'after' slots only (odd positions of torch's (before, after) pairs, last dimension first); the 'before' slots are the "
             "constant 0.  Decided for lists written as [0] * K + [amount] (K provably odd) and for lists grown from [] by pairs "
             "[before, after]; other constructions are not decided")
    for n, c in fa.calls():
        fn_ = c.func
        nm = fn_.id if isinstance(fn_, ast.Name) else (fn_.attr if isinstance(fn_, ast.Attribute) else None)
        if nm != "pad":
            continue
        arg = next((k.value for k in c.keywords if k.arg == "pad"), c.args[1] if len(c.args) > 1 else None)
        if arg is None:
            continue
        verdict, why = _pad_slots(fa, arg, n)
        rep.decide(verdict, "G6.pad-at-end", fi, f"pad:{' '.join(ast.unparse(arg).split())[:40]}",
                   why, why, line=c.lineno, clause="C11.3")

    # ---- label encoding -------------------------------------------------------------------------------------------------
    rep.rule("G8.label-one-hot", "on every normal return the label component was produced by to_one_hot_vector(<label loaded with "
             "idx>, n_classes=self.getdim_class()) (then possibly mixed in place): the untouched-sample path returns a one-hot "
             "label too")
    rets = [(n, fa.ret_ast(n)[0]) for n, _ in fa.returns()]
    for n, rv in rets:
        ok = None
        if isinstance(rv, ast.Tuple) and len(rv.elts) == 2:
            if isinstance(rv.elts[1], ast.Name):
                lv = rv.elts[1].id
                # in-place operator updates (cls *= L; cls += P) keep the object: look through them to where it was created
                reach, work, seen_d = set(), list(cfg.reaching().get(n, {}).get(lv, set())), set()
                while work:
                    d_ = work.pop()
                    if d_ in seen_d:
                        continue
                    seen_d.add(d_)
                    st_ = cfg.nodes[d_].ast if cfg.nodes[d_].kind == "stmt" else None
                    if isinstance(st_, ast.AugAssign):
                        work += list(cfg.reaching().get(d_, {}).get(lv, set()))
                    else:
                        reach.add(d_)
                cands = [(cfg.def_value(d, lv), d) for d in reach]
            else:
                cands = [(rv.elts[1], n)]  # the encoded label is built in the return expression itself
            ok = bool(cands)
            for val, d in cands:
                t = fa.sym.term(val, d) if val is not None else None
                good = t is not None and t[0] == "call" and t[1][0] == "global" and t[1][1].endswith("to_one_hot_vector")
                if good:
                    nc = dict(t[3]).get("n_classes", t[2][1] if len(t[2]) > 1 else None)
                    good = nc is not None and any(x[0] == "call" and (x[1] == ("self", "getdim_class") or (
                        x[1][0] == "attr" and x[1][2] == "getdim_class")) for x in subterms(nc))
                elif t is not None and t[0] == "call" and not (t[1][0] == "attr" and t[1][2] == "getitem_class"):
                    # built by some other construction (a row of a look-up table, another encoder): not decided - only the raw
                    # loaded label is a definite violation
                    good = None
                ok = None if (good is None and ok is not False) else (ok and bool(good) if good is not None else ok)
        rep.decide(ok, "G8.label-one-hot", fi, f"return@{fa.line(n) - fi.node.lineno}", "label is one-hot encoded on this return",
                   "a return hands back a label that did not pass to_one_hot_vector(..., n_classes=self.getdim_class()): "
                   "unmixed samples would carry an integer label", line=fa.line(n), clause="C11.4")
    # ---- projections / fused declaration -----------------------------------------------------------------------------------
    groups = declared_fused(prog, C)
    rep.decide(["x", "class"] in groups, "G9.fused-projection", C, "declared", "fused group ['x', 'class'] declared",
               "KDMixWrapper no longer declares ['x', 'class'] as fused: x and class requested together are drawn twice "
               "(without a seed: two different mixes)", clause="C11.5", nontrivial=False)
    projections(prog, rep, C, "x", "class", clause="C11.5")
    # the jointly drawn pair must also win when the label is requested before the data ('class x'): ModeWrapper writes loader
    # results back in list order, last writer wins
    # jointly loaded items: the constructor's bookkeeping decides which loader result lands at which position of the sample -
    # the same rules as for the mode contract (declared order, paired appends, membership scope, append-only lists)
    from .c01 import constructor as _mode_constructor
    _mode_constructor(prog, rep, prog.cls("ModeWrapper"), clause="C11.5", fuse_only=True)
    # one_hot helper
    oh = prog.func("kappadata/utils/one_hot.py", "to_one_hot_vector")
    oa = fa_of(prog, oh)
    rep.analysed_add("functions", f"{oh.module.relpath}:{oh.qualname}")
    calls = [c for n, c in oa.calls() if oa.sym.term(c, n)[1][0] == "global" and oa.sym.term(c, n)[1][1].endswith("one_hot")]
    ok = bool(calls) and all(any(k.arg == "num_classes" and oa.sym.term(k.value, oa.cfg.node_of(c)) == ("param", "n_classes")
                                 for k in c.keywords) or (len(c.args) > 1) for c in calls)
    rep.decide(ok, "G8.label-one-hot", oh, "num_classes", "one_hot(y, num_classes=n_classes)",
               "to_one_hot_vector does not pass n_classes on: the vector length depends on the label value", clause="C11.4",
               nontrivial=False)
    # the encoded label is mixed in place: it must be the caller's own tensor
    rep.rule("G8.label-fresh", "to_one_hot_vector / to_one_hot_matrix return a tensor built in the call: no return value is (an element "
             "or row of) a module-level object or of the result of a memoised function (lru_cache / cache) - KDMixWrapper mixes the "
             "label in place (mul_ / add_), which would rewrite the shared table for every later sample of that class")
    om = oh.module
    memo = {st.name for st in om.tree.body if isinstance(st, ast.FunctionDef) and any(
        any(k in ast.unparse(d) for k in ("lru_cache", "cache", "memo")) for d in st.decorator_list)}
    mod_vars = {t.id for st in om.tree.body if isinstance(st, (ast.Assign, ast.AnnAssign))
                for t in (st.targets if isinstance(st, ast.Assign) else [st.target]) if isinstance(t, ast.Name)}
    for fname in ("to_one_hot_vector", "to_one_hot_matrix"):
        f = prog.func("kappadata/utils/one_hot.py", fname, required=False)
        if f is None:
            continue
        fa_ = fa_of(prog, f)
        bad = []
        for n_, _t in fa_.returns():
            rv_ = fa_.ret_ast(n_)[0]
            if rv_ is None:
                continue
            ex = fa_.expand(rv_, n_)
            # follow single definitions one step further for names defined by calls (x = _rows(n)[y])
            srcs = [ex] + [fa_.cfg.def_value(d, y.id) for y in ast.walk(ex) if isinstance(y, ast.Name)
                           for d in fa_.cfg.reaching().get(n_, {}).get(y.id, set()) if fa_.cfg.nodes[d].kind != "entry"]
            for e in srcs:
                if e is None:
                    continue
                for y in ast.walk(e):
                    if isinstance(y, ast.Call) and isinstance(y.func, ast.Name) and y.func.id in memo:
                        bad.append((fa_.line(n_), f"the result of the memoised {y.func.id}()"))
                    if isinstance(y, ast.Name) and y.id in mod_vars:
                        bad.append((fa_.line(n_), f"the module-level object {y.id}"))
        rep.decide(not bad, "G8.label-fresh", f, "returns-own-tensor", "every return builds its tensor in the call",
                   "; ".join(f"a return (line {ln}) hands out part of {w}" for ln, w in sorted(set(bad))) + ": the in-place label "
                   "mix of KDMixWrapper writes into that shared object", line=bad[0][0] if bad else f.node.lineno, clause="C11.4")
    _slot_accumulate(prog, rep)
    names.check(prog, rep, FILES, clause="C11.G1", floor=6)


def _slot_accumulate(prog: Program, rep: Report):
    """Label vectors written slot by slot."""
    rep.rule("G6.slot-accumulate", "a label vector that is built by writing weights into slots of a fresh zero tensor (t[i] = a; "
             "t[j] = b) keeps the sum of its weights only if a later write to a slot that may be the same one adds to it (+=, "
             "index_add_, scatter_add_): own class and partner class coincide whenever the partner has the same class (or is the "
             "sample itself), and a plain second assignment then overwrites the first weight - the label no longer sums to one")
    n_sites = 0
    for rel in FILES:
        mod = prog.module(rel, required=False)
        if mod is None:
            continue
        for f in prog.all_functions([mod]):
            fa = fa_of(prog, f)
            cfg = fa.cfg
            writes = []  # (node, tensor name, index term, aug?, value term)
            for n, nd in cfg.nodes.items():
                if nd.kind != "stmt" or not isinstance(nd.ast, (ast.Assign, ast.AugAssign)):
                    continue
                tgs = nd.ast.targets if isinstance(nd.ast, ast.Assign) else [nd.ast.target]
                for t in tgs:
                    if isinstance(t, ast.Subscript) and isinstance(t.value, ast.Name) and not isinstance(t.slice, (ast.Slice, ast.Tuple)):
                        writes.append((n, t.value.id, fa.sym.term(t.slice, n), isinstance(nd.ast, ast.AugAssign),
                                       fa.sym.term(nd.ast.value, n), ast.unparse(t.slice)[:30]))
            by_t: Dict[str, list] = {}
            for w in writes:
                by_t.setdefault(w[1], []).append(w)
            for tname, ws in by_t.items():
                # a fresh zero tensor
                defs = [(d, val) for d, val, st in [(d_, cfg.def_value(d_, tname), None) for d_ in cfg.nodes
                                                    if any(v_ == tname for v_, _t, _v in cfg.defs_at(d_))] if val is not None]
                zero = [d for d, val in defs if isinstance(val, ast.Call) and ast.unparse(val.func).rsplit(".", 1)[-1] in (
                    "zeros", "zeros_like", "new_zeros")]
                if not zero or len(ws) < 2:
                    continue
                for i, a in enumerate(ws):
                    for b in ws:
                        if a is b or a[0] == b[0] or not cfg.reachable(a[0], b[0]) or cfg.reachable(b[0], a[0]):
                            continue
                        if a[2] == b[2] or (a[2][0] == "const" and b[2][0] == "const"):
                            continue  # the same slot on purpose / two fixed slots
                        if b[4] == ("const", 0) or b[4] == ("const", 0.0):
                            continue
                        n_sites += 1
                        # known to be different slots on the path to the second write?
                        distinct = False
                        for e_, pol_, c_, tn_ in fa.cond_parts_at(b[0]):
                            if c_[0] == "not" and c_[1][0] == "eq" or c_[0] == "ne":
                                at_ = set(term_to_poly(c_[1][1] if c_[0] == "not" else c_[1]).atoms())
                                if set(leaves(a[2])) & {x_ for y_ in at_ for x_ in leaves(y_)} and \
                                        set(leaves(b[2])) & {x_ for y_ in at_ for x_ in leaves(y_)}:
                                    distinct = True
                        ok = True if b[3] else (None if distinct else False)
                        rep.decide(ok, "G6.slot-accumulate", f, f"{tname}[{b[5]}] after {tname}[{a[5]}]",
                                   "the later write adds to the slot", f"{tname}[{b[5]}] = ... (line {fa.line(b[0])}) "
                                   f"overwrites the weight written to {tname}[{a[5]}] (line {fa.line(a[0])}) whenever the "
                                   f"two indices coincide (partner of the same class): the mixed label loses that weight and no "
                                   f"longer sums to one" if not distinct else "the two slots are compared on this path: not decided",
                                   line=fa.line(b[0]), clause="C11.3")
    if n_sites == 0:
        rep.ok("G6.slot-accumulate", FILES[1], "no-slot-writes", "no label vector is built slot by slot", clause="C11.3",
               nontrivial=False)


def _load_origin(fa: FA, e: ast.AST, at: int, load_role, depth: int = 12, _seen=None):
    """The load (x / class, own / partner) a mix operand stems from - through plain copies of locals, converter / unification
    calls that take the value as their first argument or receiver (to_one_hot_vector(v, ..), pad(v, ..), v.index_select(..),
    v.clone(), v[..]) - when all reaching definitions agree; None otherwise."""
    _seen = set() if _seen is None else _seen
    if depth <= 0 or e is None:
        return None
    if isinstance(e, ast.Call):
        for n_, c_ in fa.calls():
            if c_ is e and n_ in load_role:
                return load_role[n_]
        if isinstance(e.func, ast.Attribute) and not (isinstance(e.func.value, ast.Name) and e.func.value.id in (
                "torch", "np", "F", "self")):
            return _load_origin(fa, e.func.value, at, load_role, depth - 1, _seen)
        if e.args:
            return _load_origin(fa, e.args[0], at, load_role, depth - 1, _seen)
        return None
    if isinstance(e, ast.Subscript):
        return _load_origin(fa, e.value, at, load_role, depth - 1, _seen)
    if isinstance(e, ast.Name):
        defs = fa.cfg.reaching().get(at, {}).get(e.id, ())
        got = set()
        for d in defs:
            if fa.cfg.nodes[d].kind == "entry":
                return None
            if (e.id, d) in _seen:
                continue  # a self-referential update (x2 = pad(x2, ..) in a loop): contributes nothing new
            _seen.add((e.id, d))
            v = fa.cfg.def_value(d, e.id)
            got.add(_load_origin(fa, v, d, load_role, depth - 1, _seen) if v is not None else None)
        got.discard("no-new-information")
        if not got:
            return "no-new-information"
        return next(iter(got)) if len(got) == 1 else None
    return None


def _pad_slots(fa: FA, arg: ast.AST, at: int):
    """-> (verdict, text) for one padding list.  Positions are counted from 0: even = 'before', odd = 'after'."""
    def is_zero(e):
        return isinstance(e, ast.Constant) and e.value == 0 and not isinstance(e.value, bool)

    def odd(e, n) -> Optional[bool]:
        p = term_to_poly(fa.sym.term(e, n))
        c0 = p.const_value() if not p.atoms() else None
        if c0 is not None:
            return c0.denominator == 1 and int(c0) % 2 == 1
        const = Poly.const(0)
        # all non-constant coefficients even, constant part odd
        ok_even = True
        k0 = 0
        for mono, coef in p.terms.items():
            if coef.denominator != 1:
                return None
            if mono == ():
                k0 = int(coef)
            elif int(coef) % 2 != 0:
                ok_even = False
        if not ok_even:
            return None
        return k0 % 2 == 1
    e = arg
    node = at
    if isinstance(e, ast.Name):
        defs = [d for d in fa.cfg.reaching().get(at, {}).get(e.id, ()) if fa.cfg.nodes[d].kind != "entry"]
        vals = [(d, fa.cfg.def_value(d, e.id), fa.cfg.nodes[d].ast) for d in defs]
        grown = [(d, v, st) for d, v, st in vals if isinstance(st, ast.AugAssign) or (
            isinstance(st, ast.Expr) and isinstance(st.value, ast.Call))]
        inits = [(d, v, st) for d, v, st in vals if (d, v, st) not in grown]
        name = e.id
        if len(inits) == 1 and isinstance(inits[0][1], (ast.List,)) and not inits[0][1].elts:
            # grown from []: every growth must add whole (before, after) pairs
            steps = []
            for n_, nd_ in fa.cfg.nodes.items():
                st = nd_.ast if nd_.kind == "stmt" else None
                if isinstance(st, ast.AugAssign) and isinstance(st.target, ast.Name) and st.target.id == name and \
                        isinstance(st.op, ast.Add):
                    steps.append((n_, st.value))
                elif isinstance(st, ast.Expr) and isinstance(st.value, ast.Call) and isinstance(st.value.func, ast.Attribute) and \
                        isinstance(st.value.func.value, ast.Name) and st.value.func.value.id == name:
                    if st.value.func.attr == "extend" and st.value.args:
                        steps.append((n_, st.value.args[0]))
                    elif st.value.func.attr in ("append", "insert"):
                        return None, "padding list grown element by element: slot positions not decided"
            if not steps:
                return None, "padding list of unrecognised construction"
            for n_, v in steps:
                if not (isinstance(v, (ast.List, ast.Tuple)) and len(v.elts) % 2 == 0 and v.elts):
                    return None, "padding list grown by something other than (before, after) pairs: not decided"
                for i, x in enumerate(v.elts):
                    if i % 2 == 0 and not is_zero(x):
                        return False, (f"the padding list is grown by {ast.unparse(v)} (line {fa.line(n_)}): the amount sits in a 'before' "
                                       f"slot - the partner is padded at the start of the dimension, not at its end")
            return True, "padding pairs are (0, amount): the partner is padded at the end"
        if len(vals) == 1 and vals[0][1] is not None:
            e, node = vals[0][1], vals[0][0]
        else:
            return None, "padding list of unrecognised construction"
    # [0] * K + [amount] (+ ...)
    parts = []

    def flat(x):
        if isinstance(x, ast.BinOp) and isinstance(x.op, ast.Add):
            flat(x.left)
            flat(x.right)
        elif isinstance(x, (ast.List, ast.Tuple)) and any(isinstance(y, ast.Starred) for y in x.elts):
            # [*A, b, *C]  ==  A + [b] + C
            for y in x.elts:
                if isinstance(y, ast.Starred):
                    flat(y.value)
                else:
                    parts.append(ast.List(elts=[y], ctx=ast.Load()))
        else:
            parts.append(x)
    flat(e)
    pos_odd: Optional[bool] = False  # parity of the number of slots so far (False = even count: next slot is 'before')
    for x in parts:
        if isinstance(x, ast.BinOp) and isinstance(x.op, ast.Mult) and isinstance(x.left, ast.List) and len(x.left.elts) == 1 \
                and is_zero(x.left.elts[0]):
            k_odd = odd(x.right, node)
            if k_odd is None or pos_odd is None:
                pos_odd = None
            else:
                pos_odd = pos_odd != k_odd
        elif isinstance(x, ast.List):
            for y in x.elts:
                if not is_zero(y):
                    if pos_odd is None:
                        return None, "slot position of the padding amount not decided"
                    if pos_odd is False:
                        return False, (f"the amount {ast.unparse(y)} sits in a 'before' slot of {ast.unparse(e)[:60]}: the partner is "
                                       f"padded at the start of the dimension, not at its end")
                if pos_odd is not None:
                    pos_odd = not pos_odd
        else:
            return None, "padding list of unrecognised construction"
    return True, "the padding amount sits in an 'after' slot: the partner is padded at the end"
