"""C07 - an injected seed fully determines an augmentation, and nothing else does (DESIGN §4 C07)."""
from __future__ import annotations

import ast
from typing import List

from ..core import Report
from ..fa import fa_of
from ..model import ClassInfo, FuncInfo, Program
from ..rules import names
from ..rules.hooks import Forwarding, Member, Ownership
from ..rules.rng import RngDiscipline
from ..types_ import _is_super

ALLOWED_FROM_GLOBAL = {"__init__", "worker_init_fn", "_worker_init_fn"}


def passes_received_arg(fa, n, call, fi) -> bool:
    """The hook call hands on the generator the enclosing hook received (its first parameter)."""
    ps = fi.params()
    if fi.cls is not None and not fi.is_static:
        ps = ps[1:]
    if not ps:
        return False
    want = ("param", ps[0])
    args = list(call.args)
    for k in call.keywords:
        if k.arg in ("rng",):
            args.append(k.value)
    if not args:
        return False
    t = fa.sym.term(args[0], n)
    if t == want:
        return True
    # self.<attr> right after 'super().set_rng(<received>)' whose resolved definition stores its argument into that attribute:
    # the attribute IS the received generator at this point
    me = fa.self_name
    attr = t[1] if t[0] == "self" else (t[1].split(".", 1)[1] if t[0] == "var" and me and t[1].startswith(me + ".") else None)
    if attr is None or fi.cls is None:
        return False
    from ..types_ import _is_super
    for m, c in fa.calls():
        if not (isinstance(c.func, ast.Attribute) and c.func.attr == fi.name and _is_super(c.func.value) and c.args
                and fa.sym.term(c.args[0], m) == want and m != n and fa.cfg.dominates(m, n)):
            continue
        base = fi.cls.lookup_after(fi.cls, fi.name)
        if base is None:
            continue
        bps = base.params()
        stores_it = any(isinstance(st, ast.Assign) and len(st.targets) == 1 and isinstance(st.targets[0], ast.Attribute)
                        and isinstance(st.targets[0].value, ast.Name) and st.targets[0].value.id == bps[0]
                        and st.targets[0].attr == attr and isinstance(st.value, ast.Name) and len(bps) > 1 and st.value.id == bps[1]
                        for st in base.node.body)
        rebound = [x for x, var, val in fa.stores() if var == f"{me}.{attr}" and fa.cfg.reachable(m, x) and fa.cfg.reachable(x, n)]
        if stores_it and not rebound:
            return True
    return False


def transform_modules(prog: Program) -> List[str]:
    out = []
    for rel, m in sorted(prog.by_relpath.items()):
        if prog.is_dead(m):
            continue
        if rel.startswith("kappadata/transforms/") or rel.startswith("kappadata/common/transforms/") or rel in (
                "kappadata/utils/random.py", "kappadata/utils/magnitude_sampler.py"):
            out.append(rel)
    return out


def reinjects(prog: Program, C: ClassInfo, fi: FuncInfo, attr: str, depth=0) -> bool:
    """fi assigns its received generator to self.<attr> on every path to a normal return."""
    fa = fa_of(prog, fi)
    ps = fi.params()
    if len(ps) < 2:
        return False
    through = set()
    for n in fa.cfg.nodes:
        for var, tgt, val in fa.cfg.defs_at(n):
            if var == f"{ps[0]}.{attr}" and val is not None and fa.sym.term(val, n) == ("param", ps[1]):
                through.add(n)
        for call in fa.cfg.calls_at(n):
            f = call.func
            if isinstance(f, ast.Attribute) and f.attr == fi.name and _is_super(f.value) and depth < 4 and call.args:
                if fa.sym.term(call.args[0], n) == ("param", ps[1]):
                    tgt = C.lookup_after(fi.cls, fi.name)
                    if tgt is not None and reinjects(prog, C, tgt, attr, depth + 1):
                        through.add(n)
    return bool(through) and fa.cfg.must_pass(through)


def set_rng_propagation(prog: Program, rep: Report, own: Ownership, fwd: Forwarding, clause: str):
    """G3 over the whole KDTransform family (shared by C07, C08 and C09: a seed injected at the top of a composition -
    by the user, by a seeded wrapper or by the worker-init hook - must reach every member generator)."""
    needs = own.needs("rng")
    family = own.family
    rep.rule("G3.set_rng", "every class of the KDTransform family forwards set_rng(<received generator>) on every "
             "normal-return path to each owned member that (transitively) holds a generator; isinstance guards must "
             "admit every class that needs the hook; any further condition on the forwarding call counts as 'may not forward'")
    n_owner = 0
    stochastic = [c for c in family if needs[c.qualname]]
    for C in family:
        rep.analysed_add("classes", C.qualname)
        members = own.members(C)
        todo = {m: ts for m, ts in members.items() if any(own.type_needs(t, needs) for t in ts)}
        if not todo:
            continue
        n_owner += 1
        fi = C.lookup("set_rng")
        for m, ts in sorted(todo.items(), key=lambda kv: str(kv[0])):
            needed = own.needed_classes(ts, needs)
            ok, why = fwd.check(C, fi, m, {"set_rng"}, needed, arg_ok=passes_received_arg)
            o = rep.decide(ok, "G3.set_rng", C.module, f"member:{m}", why, why, line=C.node.lineno, clause=clause)
            o.func = f"{C.name}.set_rng"
            if fi is not None and fi.cls is not C:
                o.detail += f" [resolved to {fi.cls.name}.set_rng]"
    rep.floor("classes of the KDTransform family", len(family), 75)
    rep.floor("classes holding a generator (transitively)", len(stochastic), 35)
    rep.floor("classes owning members that need set_rng", n_owner, 15)


def member_stability(prog: Program, rep: Report, own: Ownership, clause: str):
    """Owned stochastic members are created in the constructor only."""
    rep.rule("G3.member-stable", "an attribute that holds an owned transform or a generator is bound to a freshly constructed "
             "object only in __init__ (set_rng stores the received generator): replacing a member later - e.g. when the "
             "strength is rescaled - silently drops the generator that was injected into the old object")
    needs = own.needs("rng")
    n = 0
    for C in own.family:
        at = own.types.of(C)
        member_attrs = {m.attr for m in own.members(C)} | {a for a, ts in at.items() if ("gen",) in ts}
        if not member_attrs:
            continue
        for fi in C.methods.values():
            if fi.name == "__init__" or fi.is_static:
                continue
            fa = fa_of(prog, fi)
            for node, var, val in fa.stores(f"{fa.self_name}."):
                attr = var.split(".", 1)[1]
                if attr not in member_attrs or val is None:
                    continue
                n += 1
                t = fa.sym.term(val, node)
                fresh = None
                if t[0] == "call" and t[1][0] == "global":
                    r = prog.resolve_expr(fi.module, val.func) if isinstance(val, ast.Call) else None
                    if r and r[0] == "class" and own.in_family(r[1]):
                        fresh = f"a new {r[1].name}"
                    elif t[1][1].endswith(("default_rng", "get_rng_from_global", "RandomState")):
                        fresh = "a new generator"
                    elif r and r[0] == "func" and r[1].name == "object_to_transform":
                        fresh = "a newly built transform"
                ok = fresh is None
                if fi.name in ("worker_init_fn", "_worker_init_fn") and fresh == "a new generator":
                    ok = True
                o = rep.decide(ok, "G3.member-stable", fi, f"store:self.{attr}",
                               f"self.{attr} is re-bound to an existing value", f"{fi.qualname} binds self.{attr} to "
                               f"{fresh}: a generator injected earlier (set_rng / seeded wrapper / worker hook) is lost and "
                               f"the new object draws from a stream seeded by the global NumPy RNG", line=fa.line(node),
                               clause=clause)
    rep.extra["member_stores_outside_init"] = n


def run(prog: Program, rep: Report, tier: str):
    own = Ownership(prog, "KDTransform")
    fwd = Forwarding(prog, own)
    needs = own.needs("rng")
    family = own.family
    rep.trusted += [
        "effect table of kdverif/rules/rng.py (which numpy / random / torch calls draw from a process-global RNG)",
        "names resolve as the source says (no monkey patching); third-party functional ops are deterministic "
        "functions of their arguments",
        "object_to_transform / constructor parameters used like transforms may hold any class of the KDTransform "
        "family",
    ]
    rep.not_decided += [
        "numerical equality of outputs for equal seeds (third-party ops trusted deterministic)",
        "PIL vs tensor code paths inside torchvision",
    ]
    for d in prog.dead_modules():
        rep.observations.append(f"module {d} is unimportable (unresolvable intra-package import, referenced by no "
                                f"other module) and excluded from class-universal rules")

    # ---- clause 1: propagation of set_rng ------------------------------------------------------------
    set_rng_propagation(prog, rep, own, fwd, clause="C07.1")
    member_stability(prog, rep, own, clause="C07.1")

    # ---- clause 2: leaves re-inject ------------------------------------------------------------------
    rep.rule("G3.reinject", "the set_rng a class resolves to stores the received generator into every generator "
             "attribute the class constructs, on every path")
    rd = RngDiscipline(prog, own.types, bound=4 if tier == "quick" else 12, family_root=own.root)
    n_gen = 0
    for C in family:
        for attr in sorted(rd.generator_attrs(C)):
            n_gen += 1
            fi = C.lookup("set_rng")
            ok = fi is not None and reinjects(prog, C, fi, attr)
            o = rep.decide(ok, "G3.reinject", C.module, f"generator:self.{attr}",
                           f"{fi.qualname if fi else '?'} stores its argument into self.{attr} on every path",
                           f"self.{attr} is a generator constructed in __init__ but set_rng "
                           f"({fi.qualname if fi else 'missing'}) does not overwrite it on every path",
                           line=C.node.lineno, clause="C07.2")
            o.func = f"{C.name}.set_rng"
    rep.floor("generator attributes in the family", n_gen, 35)

    # ---- clause 3: draw source -------------------------------------------------------------------------
    rep.rule("G2.draws", "from __call__ of every transform class, every reachable random draw is a method call on "
             "the generator set_rng controls (or a parameter bound to it); draws from process-global RNGs, "
             "unseeded generators, generators set_rng does not overwrite, and rebinding of the controlled "
             "generator inside the call path are violations")
    n_explicit = 0
    n_funcs = set()
    for C in family:
        entry = C.lookup("__call__")
        if entry is None:
            continue
        events, analysed = rd.explore(C, [entry])
        n_funcs.update(analysed)
        bad = [e for e in events if e.kind in ("global", "entropy", "uncontrolled", "rebind", "from-global")]
        n_explicit += sum(e.kind == "explicit" for e in events)
        seen = set()
        for e in bad:
            key = (e.fi.qualname, e.text)
            if key in seen:
                continue
            seen.add(key)
            o = rep.bad("G2.draws", e.fi.module, f"{e.kind}:{e.text}", f"reachable from {C.name}.__call__: "
                        f"{e.detail or e.kind}", line=e.line, clause="C07.3")
            o.func = e.fi.qualname
        lazy = [e for e in events if e.kind == "from-global-lazy"]
        for e in lazy[:1]:
            o = rep.unk("G2.draws", e.fi.module, f"lazy-construction:{e.text[:50]}", f"reachable from {C.name}.__call__ behind a "
                        f"memo-miss test: {e.detail}; whether the constructor fills the memo for every configuration (so that the "
                        f"call never constructs) is not decided", line=e.line, clause="C07.3")
            o.func = e.fi.qualname
        if not bad and not lazy:
            n_draws = sum(e.kind == "explicit" for e in events)
            o = rep.ok("G2.draws", C.module, "call-path", f"{len(analysed)} functions reachable from __call__, "
                       f"{n_draws} draws, all on the controlled generator", line=C.node.lineno, clause="C07.3",
                       nontrivial=n_draws > 0)
            o.func = f"{C.name}.__call__"
    rep.floor("explicit draws found on transform call paths", n_explicit, 60)
    rep.analysed["functions_on_call_paths"] = sorted(n_funcs)

    # ---- pipelines are built from members set_rng can reach -----------------------------------------------------------
    rep.rule("G2.pipeline-members", "the ready-made pipelines (kappadata/common/transforms) construct no torchvision transform that "
             "draws by itself (RandomHorizontalFlip, RandomResizedCrop, ColorJitter, ...): such a member draws from the "
             "process-global Torch RNG on every call and has no set_rng, so the injected seed neither reaches nor determines it")
    from ..rules.rng import TV_RANDOM_CLASSES
    n_pipe = 0
    for rel, m in sorted(prog.by_relpath.items()):
        if not rel.startswith("kappadata/common/transforms/") or prog.is_dead(m):
            continue
        n_pipe += 1
        bad_ = []
        for y in ast.walk(m.tree):
            if isinstance(y, ast.Call):
                r = prog.resolve_expr(m, y.func)
                if r and r[0] == "ext" and r[1].startswith("torchvision") and r[1].rsplit(".", 1)[-1] in TV_RANDOM_CLASSES:
                    bad_.append((y.lineno, r[1].rsplit(".", 1)[-1]))
        rep.decide(not bad_, "G2.pipeline-members", m, "torchvision-random-members",
                   "no self-drawing torchvision transform is constructed",
                   "; ".join(f"torchvision {nm}(...) is constructed at line {ln}" for ln, nm in bad_[:4]) + ": it draws from the "
                   "global Torch RNG whatever generator is injected", line=bad_[0][0] if bad_ else 1, clause="C07.3",
                   nontrivial=False)
    rep.floor("pipeline modules", n_pipe, 3)

    # ---- clause 4: who may call get_rng_from_global -------------------------------------------------------
    rep.rule("G2.from-global", "inside the transform family get_rng_from_global (which consumes global NumPy state) "
             "is called only from constructors and worker-init hooks")
    n_sites = 0
    for C in family:
        for fi in C.methods.values():
            for n in ast.walk(fi.node):
                if isinstance(n, ast.Call):
                    r = prog.resolve_expr(fi.module, n.func)
                    if r and r[0] == "func" and r[1].name == "get_rng_from_global":
                        n_sites += 1
                        o = rep.decide(fi.name in ALLOWED_FROM_GLOBAL, "G2.from-global", fi.module,
                                       "call:get_rng_from_global",
                                       "called from a constructor / worker hook",
                                       "consumes the process-global NumPy RNG outside construction / worker init",
                                       line=n.lineno, clause="C07.4", nontrivial=False)
                        o.func = fi.qualname
    rep.floor("get_rng_from_global call sites in the family", n_sites, 2)
    # utils/random.py itself: the seed must come from the global numpy RNG (checked in C09); here: it is the only
    # place where a generator is created from global state
    # ---- clause 5: names ---------------------------------------------------------------------------------
    names.check(prog, rep, transform_modules(prog), clause="C07.5", floor=150)
