"""C14 - geometric transforms stay in bounds and their recorded parameters tell the truth (DESIGN §4 C14)."""
from __future__ import annotations

import ast
import itertools
from fractions import Fraction
from typing import Dict, List, Optional, Set, Tuple

from ..core import Report
from ..fa import FA, fa_of
from ..model import ClassInfo, FuncInfo, Program
from ..rules import names
from ..sym import Poly, Term, contains, leaves, poly_term, show, subterms, term_to_poly

T = "kappadata/transforms/"
FILES = [T + n for n in ("kd_random_crop.py", "kd_two_random_crop.py", "kd_random_resized_crop.py", "kd_simple_random_crop.py",
                         "kd_random_erasing.py", "audio/kd_spec_augment.py", "patchify_image.py", "unpatchify_image.py",
                         "patchify.py", "unpatchify.py", "patchwise_shuffle.py", "norm/kd_image_norm.py",
                         "norm/kd_image_range_norm.py", "semseg/kd_semseg_random_crop.py",
                         "semseg/kd_semseg_random_horizontal_flip.py", "semseg/kd_semseg_random_resize.py",
                         "semseg/kd_semseg_pad.py", "semseg/kd_semseg_resize.py", "semseg/kd_semseg_overlapped_multi_crop.py")] + [
    "kappadata/wrappers/sample_wrappers/semseg_transform_wrapper.py", "kappadata/utils/bounding_box_utils.py"]
# torchvision.transforms.functional signatures (positional geometry arguments after the image)
OP_GEOMETRY = {"crop": ["top", "left", "height", "width"], "resized_crop": ["top", "left", "height", "width", "size"],
               "hflip": [], "vflip": [], "resize": ["size"], "pad": ["padding"], "center_crop": ["output_size"],
               "rotate": ["angle"]}
NON_GEOMETRIC_KW = {"fill", "interpolation", "padding_mode", "antialias", "max_size"}
NAMED_MUST_BE_APPLIED = {"permutation"}  # recorded so that the operation can be undone: must be what was applied
CTX_KEY_ROLE = {"i": "top", "j": "left", "h": "height", "w": "width"}  # recorded key -> crop argument (suffix digits kept)


def _n(e):
    return e.id if isinstance(e, ast.Name) else None


def _strip(t):
    if isinstance(t, tuple):
        if t and t[0] == "var" and len(t) == 3:
            return ("var", t[1])
        return tuple(_strip(x) for x in t)
    return t


# ----------------------------------------------------------------------------------------------------------------------
# clamps: case split on max / min
# ----------------------------------------------------------------------------------------------------------------------
def clamp_cases(p: Poly) -> List[Tuple[Dict[tuple, int], Poly]]:
    """Expand max(a, b) / min(a, b) atoms: -> [(sign assumptions {key of (a-b): +1 | -1}, polynomial without clamps)]."""
    for a in p.atoms():
        if a[0] == "call" and a[1] in (("global", "max"), ("global", "min")) and len(a[2]) == 2 and not a[3]:
            x, y = term_to_poly(a[2][0]), term_to_poly(a[2][1])
            d = x - y
            key = d.key()
            out = []
            for sign in (+1, -1):  # +1: x >= y, -1: x < y
                pick = (x if sign > 0 else y) if a[1][1] == "max" else (y if sign > 0 else x)
                for asm, q in clamp_cases(p.subst(a, pick)):
                    nkey = (-d).key()
                    if asm.get(key, sign) != sign or asm.get(nkey, -sign) != -sign:
                        continue
                    asm2 = dict(asm)
                    asm2[key] = sign
                    out.append((asm2, q))
            return out
    return [({}, p)]


def nonpositive(p: Poly, given_le0: List[Poly]) -> Optional[bool]:
    """p <= 0 in every clamp case, using the facts q <= 0 (path conditions) by direct matching only."""
    res = True
    for asm, q in clamp_cases(p):
        c = q.const_value()
        if c is not None:
            if c > 0:
                return False
            continue
        # q equals some given fact (possibly plus a non-positive constant)
        hit = False
        for g in given_le0:
            for asm_g, gq in clamp_cases(g):
                d = (q - gq).const_value()
                if d is not None and d <= 0:
                    hit = True
        # a clamp assumption itself: d >= 0 (sign +1) means -d <= 0
        for key, sign in asm.items():
            dpoly = Poly({m: Fraction(*c_) for m, c_ in key})
            for cand in ((-dpoly) if sign > 0 else dpoly, ):
                d = (q - cand).const_value()
                if d is not None and d <= 0:
                    hit = True
        if not hit:
            if _unbounded_above(q, given_le0, asm):
                return False
            res = None
    return res


def _unbounded_above(q: Poly, facts: List[Poly], asm: Dict[tuple, int]) -> bool:
    """q is linear with an atom of positive coefficient that no fact bounds from above (a fact g <= 0 bounds the atoms that
    occur in g with a positive coefficient): the atom - an independent image extent or configured size - can grow until q > 0."""
    all_facts = []
    for g in facts:
        all_facts += [gq for _, gq in clamp_cases(g)]
    for key, sign in asm.items():
        dpoly = Poly({m: Fraction(*c_) for m, c_ in key})
        all_facts.append((-dpoly) if sign > 0 else dpoly + Poly.const(1))
    for mono, coef in q.terms.items():
        if len(mono) != 1 or mono[0][1] != 1 or coef <= 0:
            continue
        a = mono[0][0]
        if a[0] == "call":
            continue  # not an independent quantity
        bounded = any(g.coeff_of(a).const_value() not in (None, 0) and g.coeff_of(a).const_value() > 0 for g in all_facts)
        if not bounded and q.degree_in(a) == 1:
            return True
    return False


# ----------------------------------------------------------------------------------------------------------------------
def run(prog: Program, rep: Report, tier: str):
    rep.trusted += ["torchvision.transforms.functional signatures (OP_GEOMETRY table): crop(img, top, left, height, width), "
                    "get_image_size(img) -> (width, height)", "numpy Generator.integers(lo, hi) draws from [lo, hi)",
                    "einops.rearrange semantics; torchvision normalize(x, mean, std) = (x - mean) / std per channel"]
    rep.not_decided += ["output sizes of third-party resize / crop, interpolation, floating point equality",
                        "the rounding inside KDRandomResizedCrop's central-crop fallback (only its aspect-ratio convention is "
                        "decided)", "KDSpecAugment masks by comparison against arange: in bounds by construction"]
    bounds(prog, rep)
    units(prog, rep)
    call_units(prog, rep)
    size_fresh(prog, rep)
    ctx_truth(prog, rep)
    paired(prog, rep)
    inverse_patterns(prog, rep)
    norm_identity(prog, rep)
    names.check(prog, rep, FILES, clause="C14.G1", floor=50)


def size_fresh(prog: Program, rep: Report):
    """A measured extent must describe the image as it is where the extent is used."""
    rep.rule("G6.size-fresh", "in the geometry transforms an extent measured with get_image_size / get_dimensions is only used while it "
             "still describes the image: between the measurement and the use the measured variable is not re-bound by an operation "
             "that changes that axis (pad with a non-zero amount on the axis, resize, crop).  A size read before an explicit "
             "padding makes pad_if_needed pad a second time and the recorded crop box index a larger image")
    SIZE_CHANGING = {"pad", "resize", "crop", "center_crop", "resized_crop", "interpolate"}
    n_meas = 0
    for mod in FILES:
        m = prog.by_relpath.get(mod)
        if m is None or not mod.startswith("kappadata/transforms/"):
            continue
        for fi in prog.functions_in(m) if hasattr(prog, "functions_in") else [f for f in prog.all_functions() if f.module is m]:
            src = ast.unparse(fi.node)
            if "get_image_size" not in src and "get_dimensions" not in src:
                continue
            fa = fa_of(prog, fi)
            cfg = fa.cfg
            for M, nd in cfg.nodes.items():
                st = nd.ast if nd.kind == "stmt" else None
                if not (isinstance(st, ast.Assign) and isinstance(st.value, ast.Call) and isinstance(st.targets[0], ast.Tuple)):
                    continue
                fn_ = st.value.func
                nm = fn_.id if isinstance(fn_, ast.Name) else (fn_.attr if isinstance(fn_, ast.Attribute) else None)
                if nm not in ("get_image_size", "get_dimensions") or not st.value.args or not isinstance(st.value.args[0], ast.Name):
                    continue
                img = st.value.args[0].id
                elts = [(_n(e)) for e in st.targets[0].elts]
                axes = dict(zip(elts, ("W", "H"))) if nm == "get_image_size" and len(elts) == 2 else (
                    dict(zip(elts[-2:], ("H", "W"))) if nm == "get_dimensions" and len(elts) >= 2 else {})
                axes.pop(None, None)
                if not axes:
                    continue
                n_meas += 1
                img_defs_at_M = cfg.reaching().get(M, {}).get(img, set())
                stale = []
                for U in sorted(cfg.nodes):
                    if U == M or not cfg.reachable(M, U):
                        continue
                    used = {y.id for e in cfg.all_exprs(U) for y in ast.walk(e) if isinstance(y, ast.Name) and isinstance(y.ctx, ast.Load)
                            and y.id in axes and cfg.reaching().get(U, {}).get(y.id, set()) == {M}}
                    # arithmetic bookkeeping of the size ('height = height + top + bottom' right after the pad) re-binds the
                    # measured name from its old value: that is how the extent is kept in step with the image, not a stale use
                    st_u = cfg.nodes[U].ast if cfg.nodes[U].kind == "stmt" else None
                    if isinstance(st_u, ast.Assign):
                        used -= {_n(t_) for t_ in st_u.targets}
                    elif isinstance(st_u, ast.AugAssign):
                        used -= {_n(st_u.target)}
                    if not used:
                        continue
                    for R in cfg.reaching().get(U, {}).get(img, set()) - img_defs_at_M:
                        rs = cfg.nodes[R].ast if cfg.nodes[R].kind == "stmt" else None
                        v = rs.value if isinstance(rs, ast.Assign) else None
                        if not (isinstance(v, ast.Call) and cfg.reachable(M, R)):
                            continue
                        f2 = v.func
                        op = f2.id if isinstance(f2, ast.Name) else (f2.attr if isinstance(f2, ast.Attribute) else None)
                        if op not in SIZE_CHANGING:
                            continue
                        affected = {"W", "H"}
                        pad_e = v.args[1] if len(v.args) >= 2 else next((k.value for k in v.keywords if k.arg == "padding"), None)
                        pad_arg = fa.expand(pad_e, R) if op == "pad" and pad_e is not None else None
                        if op == "pad" and isinstance(pad_arg, (ast.List, ast.Tuple)):
                            amt = pad_arg.elts
                            zero = lambda e: isinstance(e, ast.Constant) and e.value == 0
                            if len(amt) == 2:
                                affected = ({"W"} if not zero(amt[0]) else set()) | ({"H"} if not zero(amt[1]) else set())
                            elif len(amt) == 4:
                                affected = ({"W"} if not (zero(amt[0]) and zero(amt[2])) else set()) | (
                                    {"H"} if not (zero(amt[1]) and zero(amt[3])) else set())
                        for u in sorted(used):
                            if axes[u] in affected:
                                stale.append((u, fa.line(U), fa.line(R), op))
                # bookkeeping of an explicit padding: torchvision's 4-element padding is (left, top, right, bottom), its
                # 2-element padding (left/right, top/bottom): what is added to the width / height must come from those positions
                pad_units = {}
                for n3, nd3 in cfg.nodes.items():
                    st3 = nd3.ast if nd3.kind == "stmt" else None
                    if isinstance(st3, ast.Assign) and isinstance(st3.targets[0], ast.Tuple) and len(st3.targets[0].elts) == 4 and \
                            all(isinstance(e_, ast.Name) for e_ in st3.targets[0].elts) and isinstance(st3.value, (ast.Name, ast.Attribute)):
                        src_t = fa.sym.term(st3.value, n3)
                        is_padding = any(isinstance(c3.func, (ast.Name, ast.Attribute)) and (
                            getattr(c3.func, "id", None) == "pad" or getattr(c3.func, "attr", None) == "pad") and len(c3.args) >= 2
                            and fa.sym.term(c3.args[1], n4) == src_t for n4, c3 in fa.calls())
                        if is_padding:
                            for e_, u_ in zip(st3.targets[0].elts, ("W", "H", "W", "H")):
                                pad_units[(e_.id, n3)] = u_
                wrong = []
                if pad_units:
                    for n3, nd3 in cfg.nodes.items():
                        st3 = nd3.ast if nd3.kind == "stmt" else None
                        tgt3 = None
                        if isinstance(st3, ast.Assign) and len(st3.targets) == 1 and isinstance(st3.targets[0], ast.Name):
                            tgt3, val3 = st3.targets[0].id, st3.value
                        elif isinstance(st3, ast.AugAssign) and isinstance(st3.target, ast.Name):
                            tgt3, val3 = st3.target.id, st3.value
                        if tgt3 not in axes:
                            continue
                        for y3 in ast.walk(val3):
                            if isinstance(y3, ast.Name) and isinstance(y3.ctx, ast.Load):
                                for (nm3, d3), u3 in pad_units.items():
                                    if nm3 == y3.id and d3 in cfg.reaching().get(n3, {}).get(nm3, set()) and u3 != axes[tgt3]:
                                        wrong.append((tgt3, y3.id, fa.line(n3), u3))
                if wrong:
                    t3, y3, l3, u3 = wrong[0]
                    rep.bad("G6.size-fresh", fi, f"padding-axes:{t3}", f"'{y3}' is a {'horizontal' if u3 == 'W' else 'vertical'} entry of the "
                            f"4-element padding (torchvision order: left, top, right, bottom) but is added to the tracked "
                            f"{'height' if axes[t3] == 'H' else 'width'} '{t3}' (line {l3}): the tracked size differs from the padded image, "
                            f"crops are sampled beyond its edge", line=l3, clause="C14.1")
                o = rep.decide(not stale, "G6.size-fresh", fi, f"measure:{','.join(sorted(axes))}@{nm}",
                               "every use sees the image as it was measured (on the used axis)",
                               "; ".join(f"'{u}' (measured at line {fa.line(M)}) is used at line {lu} after the image was changed by "
                                         f"{op}(...) at line {lr}" for u, lu, lr, op in stale[:2]) +
                               ": the extent no longer describes the image", line=fa.line(M), clause="C14.1")
    rep.floor("extent measurements in geometry transforms", n_meas, 3)


# ----------------------------------------------------------------------------------------------------------------------
# 1. bounds
# ----------------------------------------------------------------------------------------------------------------------
def _dims(fa: FA) -> Dict[str, str]:
    """local name -> 'H' | 'W' for the image extents of the function: get_image_size unpack (w, h), shape unpack
    (..., h, w), parameters named height / width."""
    out: Dict[str, str] = {}
    for p in fa.fi.params():
        if p in ("height", "h"):
            out[p] = "H"
        if p in ("width", "w"):
            out[p] = "W"
    for n, nd in fa.cfg.nodes.items():
        st = nd.ast if nd.kind == "stmt" else None
        if isinstance(st, ast.Assign) and isinstance(st.targets[0], ast.Tuple) and all(isinstance(e, ast.Name) for e in st.targets[0].elts):
            nm = [e.id for e in st.targets[0].elts]
            v = st.value
            if isinstance(v, ast.Call) and (_n(v.func) == "get_image_size" or (isinstance(v.func, ast.Attribute) and v.func.attr == "get_image_size")) \
                    and len(nm) == 2:
                out[nm[0]], out[nm[1]] = "W", "H"
            if isinstance(v, ast.Attribute) and v.attr == "shape" and len(nm) >= 2:
                out[nm[-2]], out[nm[-1]] = "H", "W"
    return out


def _draws(fa: FA) -> Dict[str, Tuple[int, ast.Call]]:
    """offset variable -> (node, the rng.integers call it is assigned from)."""
    out = {}
    for n, var, val in fa.stores():
        if val is None or "." in var:
            continue
        for y in ast.walk(val):
            if isinstance(y, ast.Call) and isinstance(y.func, ast.Attribute) and y.func.attr == "integers" \
                    and isinstance(y.func.value, ast.Attribute) and y.func.value.attr == "rng":
                out[var] = (n, y)
    return out


def call_units(prog: Program, rep: Report):
    """Axis units across call boundaries: a width must not be handed to a parameter that is a height."""
    rep.rule("G6.call-units", "where a geometry transform passes image extents to a function of the package, the unit of every such "
             "argument (W / H: the two results of get_image_size in that order, also when splatted with *; the last two of a shape; "
             "names bound from them) equals the unit of the parameter it is bound to (a parameter called height / h / img_h ... "
             "is an H, one called width / w / img_w ... a W).  Swapped extents draw the row offset from the column range: on "
             "non-square images the window leaves the image")
    H_NAMES = ("height", "h", "img_h", "image_height", "img_height")
    W_NAMES = ("width", "w", "img_w", "image_width", "img_width")
    n = 0
    for rel in FILES:
        m = prog.raw.module(rel, required=False)
        if m is None:
            continue
        for fi in list(prog.raw.all_functions([m])):
            fa = fa_of(prog.raw, fi)
            dims = _dims(fa)
            for nn, c in fa.calls():
                t = fa.sym.term(c, nn)
                callee = None
                if t[1][0] == "global":
                    r = prog.raw.resolve_expr(fi.module, c.func) if isinstance(c.func, (ast.Name, ast.Attribute)) else None
                    if r and r[0] == "func":
                        callee = r[1]
                if callee is None:
                    continue
                cps = callee.params()
                units_args = []  # (position, unit, text)
                pos = 0
                for a in c.args:
                    if isinstance(a, ast.Starred):
                        v = a.value
                        if isinstance(v, ast.Call) and (_n(v.func) == "get_image_size" or (
                                isinstance(v.func, ast.Attribute) and v.func.attr == "get_image_size")):
                            units_args += [(pos, "W", ast.unparse(a)), (pos + 1, "H", ast.unparse(a))]
                            pos += 2
                            continue
                        break  # unknown arity: positions after it are unknown
                    if _n(a) in dims:
                        units_args.append((pos, dims[_n(a)], _n(a)))
                    pos += 1
                kw_units = [(k.arg, dims[_n(k.value)], _n(k.value)) for k in c.keywords if k.arg and _n(k.value) in dims]
                for pos_, u, txt in units_args:
                    if pos_ < len(cps):
                        kw_units.append((cps[pos_], u, txt))
                for pname, u, txt in kw_units:
                    pu = "H" if pname in H_NAMES else ("W" if pname in W_NAMES else None)
                    if pu is None:
                        continue
                    n += 1
                    o = rep.decide(pu == u, "G6.call-units", fi, f"call:{callee.name}:{pname}",
                                   f"{txt} ({u}) -> parameter '{pname}'",
                                   f"{fi.qualname} passes {txt}, an image {'width' if u == 'W' else 'height'}, to the parameter "
                                   f"'{pname}' of {callee.name}: rows and columns are exchanged (get_image_size returns (width, "
                                   f"height))", line=c.lineno, clause="C14.1")
    rep.floor("extent arguments checked against parameter units (informational)", n, 0)


def bounds(prog: Program, rep: Report):
    rep.rule("G6.offset-bounds", "for every offset drawn as rng.integers(lo, hi) (lo defaults to 0) and used with an extent S along an "
             "image dimension D - as (top, left, height, width) of a get_params result or as slice o:o+S of the image - lo >= 0 "
             "and hi - 1 + S <= D hold as polynomial facts, case-split on max / min clamps, using the branch conditions that "
             "dominate the draw; the row offset is paired with the height extent and the image height, the column offset with "
             "the width extent and the image width")
    sites = [("KDRandomCrop", "get_params"), ("KDTwoRandomCrop", "get_params"), ("KDRandomResizedCrop", "get_params"),
             ("KDSemsegRandomCrop", "get_params"), ("KDRandomErasing", "forward")]
    n_ob = 0
    done_fns: Set[str] = set()
    per_fn: Dict[str, int] = {}
    for cname, meth in sites:
        C = prog.cls(cname)
        fi = C.lookup(meth)  # own or inherited: the method that runs for this class
        rep.require(fi is not None, f"anchor-missing: {cname}.{meth}")
        if fi.qualname in done_fns:
            n_ob += per_fn.get(fi.qualname, 0)  # an inherited method serves this class too: its obligations cover both
            continue
        done_fns.add(fi.qualname)
        n_before = n_ob
        fa = fa_of(prog, fi)
        cfg = fa.cfg
        rep.analysed_add("functions", f"{fi.module.relpath}:{fi.qualname}")
        dims = _dims(fa)
        dvar = {v: k for k, v in dims.items()}  # 'H' -> name
        draws = _draws(fa)
        triples = []  # (offset var, extent expr ast, axis, at node)
        for n, t in fa.returns():
            rv = fa.ret_ast(n)[0]
            if isinstance(rv, ast.Tuple) and len(rv.elts) == 4 and _n(rv.elts[0]) in draws and _n(rv.elts[1]) in draws:
                triples.append((_n(rv.elts[0]), rv.elts[2], "H", n))
                triples.append((_n(rv.elts[1]), rv.elts[3], "W", n))
        for n, nd in cfg.nodes.items():
            st = nd.ast if nd.kind == "stmt" else None
            if isinstance(st, ast.Assign) and isinstance(st.targets[0], ast.Subscript) and isinstance(st.targets[0].slice, ast.Tuple):
                sl = st.targets[0].slice.elts
                for axis, s in zip(("H", "W"), sl[-2:]):
                    if isinstance(s, ast.Slice) and _n(s.lower) in draws and isinstance(s.upper, ast.BinOp) \
                            and isinstance(s.upper.op, ast.Add) and _n(s.upper.left) == _n(s.lower):
                        triples.append((_n(s.lower), s.upper.right, axis, n))
        if not triples:
            rep.unk("G6.offset-bounds", fi, "sites", "no (offset, extent) use found", clause="C14.1")
            continue
        for ov, ext, axis, at in triples:
            dn, call = draws[ov]
            if cfg.reaching().get(at, {}).get(ov) != {dn}:
                continue  # this use is fed by another definition of the variable (e.g. a deterministic fallback)
            n_ob += 1
            args = list(call.args)
            kws = {k.arg: k.value for k in call.keywords}
            lo = hi = None
            if len(args) >= 2:
                lo, hi = args[0], args[1]
            elif len(args) == 1:
                hi = kws.get("high", None)
                if hi is None:
                    lo, hi = None, args[0]
                else:
                    lo = args[0]
            else:
                lo, hi = kws.get("low"), kws.get("high")
            construct = f"offset:{ov}"
            D = dvar.get(axis)
            if hi is None or D is None:
                rep.unk("G6.offset-bounds", fi, construct, "upper bound / image dimension not identified", line=call.lineno,
                        clause="C14.1")
                continue
            lo_ok = lo is None or (term_to_poly(fa.sym.term(lo, dn)).const_value() or 0) >= 0 and \
                term_to_poly(fa.sym.term(lo, dn)).const_value() is not None
            hi_p = term_to_poly(fa.sym.term(hi, dn))
            ext_names = [y.id for y in ast.walk(ext) if isinstance(y, ast.Name)]
            rd = cfg.reaching()
            same_versions = all(rd.get(at, {}).get(nm) == rd.get(dn, {}).get(nm) for nm in ext_names)
            ext_p = term_to_poly(fa.sym.term(ext, dn if same_versions else at))
            dim_t = fa.sym.term(ast.Name(D, ast.Load()), dn)
            p = hi_p - Poly.const(1) + ext_p - term_to_poly(dim_t)
            facts = []
            for c in fa.conds_at(dn):
                for x in (c[1] if c[0] == "and" else [c]):
                    if x[0] == "le":
                        facts.append(term_to_poly(x[1]))
                    elif x[0] == "lt":
                        facts.append(term_to_poly(x[1]) + Poly.const(1))  # integers: a < b  <=>  a + 1 <= b
            ok = nonpositive(p, facts)
            rep.decide(None if ok is None else (ok and lo_ok), "G6.offset-bounds", fi, construct,
                       f"{ov} in [lo, hi) with hi - 1 + extent - {D} = {p!r} <= 0 and lo >= 0",
                       (f"the {'row' if axis == 'H' else 'column'} offset '{ov}' is drawn below {ast.unparse(hi)} and used with extent "
                        f"{ast.unparse(ext)} along '{D}': hi - 1 + extent - {D} = {p!r} is not <= 0 - the window can leave the image "
                        f"(or the offset is paired with the other axis)" if lo_ok else f"the lower bound {ast.unparse(lo)} of "
                        f"'{ov}' can be negative"), line=call.lineno, clause="C14.1")
            per_fn[fi.qualname] = n_ob - n_before
    # 10 on the pinned tree; a site whose draws move into a helper that cannot be inlined (a return inside a retry loop) is
    # reported 'undecided' above, it does not make the run fail - the floor guards against the rule matching (almost) nothing
    rep.floor("offset draws checked against their extent and image dimension", n_ob, 6)


# ----------------------------------------------------------------------------------------------------------------------
# 1b. dimensional analysis of KDRandomResizedCrop.get_params
# ----------------------------------------------------------------------------------------------------------------------
class Unit(tuple):
    """exponents (W, H) as Fractions; None = dimensionless-polymorphic constant"""


def units(prog: Program, rep: Report):
    rep.rule("G6.axis-units", "dimensional analysis of KDRandomResizedCrop.get_params with width : W, height : H and the aspect "
             "ratio : W/H (torchvision convention, fixed by w = sqrt(area * ratio), h = sqrt(area / ratio)): every assignment, "
             "comparison and addition combines equal units and the result is (H, W, H, W) = (top, left, height, width) - an "
             "inverted ratio, exchanged axes or a width compared with a height are unit errors")
    C = prog.cls("KDRandomResizedCrop")
    fi = C.methods.get("get_params")
    fa = fa_of(prog, fi)
    cfg = fa.cfg
    W, H, ONE = (Fraction(1), Fraction(0)), (Fraction(0), Fraction(1)), (Fraction(0), Fraction(0))
    RATIO = (Fraction(1), Fraction(-1))
    env: Dict[str, tuple] = {}
    for k, v in _dims(fa).items():
        env[k] = W if v == "W" else H
    errors: List[Tuple[int, str]] = []

    def mul(a, b, sign=1):
        if a is None:
            return b if sign > 0 else (None if b is None else (-b[0], -b[1]))
        if b is None:
            return a
        return (a[0] + sign * b[0], a[1] + sign * b[1])

    def unit(e) -> Optional[tuple]:
        """unit of an expression; None = polymorphic (constants); raises nothing, records errors"""
        if isinstance(e, ast.Constant):
            return None
        if isinstance(e, ast.Name):
            return env.get(e.id, "?")
        if isinstance(e, ast.Attribute):
            if e.attr == "ratio":
                return ("seq", RATIO)
            if e.attr == "scale":
                return ("seq", ONE)
            return "?"
        if isinstance(e, ast.Subscript):
            b = unit(e.value)
            if isinstance(b, tuple) and b and b[0] == "seq":
                return b[1]
            if isinstance(b, tuple) and b and b[0] == "logseq":
                return ("log", b[1])
            return "?"
        if isinstance(e, ast.Tuple):
            us = [unit(x) for x in e.elts]
            if all(isinstance(u, tuple) and u and u[0] == "log" for u in us):
                return ("logseq", us[0][1])
            return "?"
        if isinstance(e, ast.BinOp):
            a, b = unit(e.left), unit(e.right)
            if "?" in (a, b):
                return "?"
            if isinstance(e.op, ast.Mult):
                return mul(a, b)
            if isinstance(e.op, (ast.Div, ast.FloorDiv)):
                return mul(a, b, -1)
            if isinstance(e.op, (ast.Add, ast.Sub)):
                if a is not None and b is not None and a != b:
                    errors.append((e.lineno, f"{ast.unparse(e)} combines {_show_unit(a)} with {_show_unit(b)}"))
                return a if a is not None else b
            return "?"
        if isinstance(e, ast.Call):
            fn = ast.unparse(e.func)
            last = fn.rsplit(".", 1)[-1]
            if last in ("int", "float", "round", "abs") and e.args:
                return unit(e.args[0])
            if last == "sqrt" and e.args:
                a = unit(e.args[0])
                return "?" if a == "?" else (None if a is None else (a[0] / 2, a[1] / 2))
            if last in ("min", "max") and e.args:
                us = [unit(x) for x in e.args]
                if len(us) == 1:
                    return us[0][1] if isinstance(us[0], tuple) and us[0] and us[0][0] == "seq" else us[0]
                base = next((u for u in us if u not in (None, "?")), None)
                for u in us:
                    if u not in (None, "?") and u != base:
                        errors.append((e.lineno, f"{ast.unparse(e)} compares {_show_unit(base)} with {_show_unit(u)}"))
                return base if "?" not in us else "?"
            if last == "log" and e.args:
                a = unit(e.args[0])
                return ("log", a) if a not in ("?",) else "?"
            if last == "exp" and e.args:
                a = unit(e.args[0])
                return a[1] if isinstance(a, tuple) and a and a[0] == "log" else "?"
            if last == "uniform" and len(e.args) == 2:
                a, b = unit(e.args[0]), unit(e.args[1])
                if a != b and "?" not in (a, b) and None not in (a, b):
                    errors.append((e.lineno, f"{ast.unparse(e)} draws between {_show_unit(a)} and {_show_unit(b)}"))
                return a if a is not None else b
            if last == "integers" and len(e.args) == 2:
                return unit(e.args[1])
            return "?"
        if isinstance(e, ast.UnaryOp):
            return unit(e.operand)
        return "?"

    order = sorted(cfg.nodes)
    for _ in range(2):
        for n in order:
            nd = cfg.nodes[n]
            st = nd.ast if nd.kind == "stmt" else None
            if isinstance(st, ast.Assign) and len(st.targets) == 1 and isinstance(st.targets[0], ast.Name):
                u = unit(st.value)
                old = env.get(st.targets[0].id)
                if old is not None and old != "?" and u not in (None, "?") and isinstance(old, tuple) and isinstance(u, tuple) \
                        and len(old) == 2 and len(u) == 2 and not isinstance(old[0], str) and not isinstance(u[0], str) and old != u:
                    errors.append((st.lineno, f"'{st.targets[0].id}' holds {_show_unit(old)} but is assigned {_show_unit(u)}"))
                if u is not None and u != "?":
                    env[st.targets[0].id] = u
    errors.clear()
    for n in order:
        nd = cfg.nodes[n]
        st = nd.ast if nd.kind == "stmt" else None
        if isinstance(st, ast.Assign) and len(st.targets) == 1 and isinstance(st.targets[0], ast.Name):
            u = unit(st.value)
            old = env.get(st.targets[0].id)
            if _plain(old) and _plain(u) and old != u:
                errors.append((st.lineno, f"'{st.targets[0].id}' holds {_show_unit(old)} but is assigned {_show_unit(u)} "
                                          f"({ast.unparse(st.value)})"))
        if nd.kind == "test":
            for y in ast.walk(nd.ast):
                if isinstance(y, ast.Compare):
                    us = [unit(y.left)] + [unit(c) for c in y.comparators]
                    base = next((u for u in us if _plain(u)), None)
                    for u in us:
                        if _plain(u) and u != base:
                            errors.append((y.lineno, f"{ast.unparse(y)} compares {_show_unit(base)} with {_show_unit(u)}"))
        if isinstance(st, ast.Return) and isinstance(st.value, ast.Tuple) and len(st.value.elts) == 4:
            want = [H, W, H, W]
            for e, w_ in zip(st.value.elts, want):
                u = unit(e)
                if _plain(u) and u != w_:
                    errors.append((st.lineno, f"returned component {ast.unparse(e)} has unit {_show_unit(u)}, expected "
                                              f"{_show_unit(w_)}"))
    seen = set()
    for line, msg in errors:
        if msg in seen:
            continue
        seen.add(msg)
        rep.bad("G6.axis-units", fi, f"unit:{msg[:70]}", msg + ": the aspect-ratio / axis convention is broken - for elongated "
                "images the computed window lies outside the image", line=line, clause="C14.1")
    if not errors:
        known = sum(1 for v in env.values() if _plain(v))
        rep.ok("G6.axis-units", fi, "units-consistent", f"{known} locals typed with axis units, all combinations consistent, "
               f"result (H, W, H, W)", clause="C14.1")
    rep.floor("locals typed by the dimensional analysis", sum(1 for v in env.values() if _plain(v)), 8)


def _plain(u) -> bool:
    return isinstance(u, tuple) and len(u) == 2 and isinstance(u[0], Fraction)


def _show_unit(u) -> str:
    if not _plain(u):
        return str(u)
    parts = []
    for nm, e in zip(("W", "H"), u):
        if e != 0:
            parts.append(nm if e == 1 else f"{nm}^{e}")
    return "*".join(parts) or "1"


# ----------------------------------------------------------------------------------------------------------------------
# 2. recorded parameters
# ----------------------------------------------------------------------------------------------------------------------
def ctx_truth(prog: Program, rep: Report):
    rep.rule("G9.ctx-truth", "a geometric parameter recorded in the context (ctx[...] = dict(i=.., j=.., h=.., w=..) / a named value) "
             "is the very variable - same reaching definitions - that is passed to the applied operation in the matching "
             "argument position (key i/j/h/w <-> crop's top/left/height/width, a numeric suffix selects the crop); a recorded "
             "object is not an attribute of the transform (a buffer shared between calls)")
    n_keys = 0
    for cname in ("KDRandomCrop", "KDTwoRandomCrop", "KDRandomResizedCrop", "PatchwiseShuffle", "PatchifyImage"):
        C = prog.cls(cname)
        fi = C.methods.get("__call__")
        if fi is None:
            continue
        fa = fa_of(prog, fi)
        cfg = fa.cfg
        rep.analysed_add("functions", f"{fi.module.relpath}:{fi.qualname}")
        ops = []  # (node, call, name)
        for n, c in fa.calls():
            nm = _n(c.func) or (c.func.attr if isinstance(c.func, ast.Attribute) else None)
            if nm in OP_GEOMETRY:
                ops.append((n, c, nm))
        for n, nd in cfg.nodes.items():
            st = nd.ast if nd.kind == "stmt" else None
            if not (isinstance(st, ast.Assign) and isinstance(st.targets[0], ast.Subscript) and _n(st.targets[0].value) == "ctx"):
                continue
            v = st.value
            items: List[Tuple[str, ast.AST]] = []
            by_suffix: Dict[tuple, Set[int]] = {}
            if isinstance(v, ast.Call) and _n(v.func) == "dict":
                items = [(k.arg, k.value) for k in v.keywords if k.arg]
            elif isinstance(v, ast.Dict):
                items = [(k.value, val) for k, val in zip(v.keys, v.values) if isinstance(k, ast.Constant)]
            else:
                key = st.targets[0].slice.value if isinstance(st.targets[0].slice, ast.Constant) else "?"
                items = [(str(key), v)]
            # a recorded extent (og_h / og_w / anything that comes from get_image_size(..) / get_dimensions(..)) is measured on the
            # image the operation is applied to - the same version of the variable, not the result of the operation
            for key, val in items:
                if not isinstance(val, ast.Name):
                    continue
                for d in cfg.reaching().get(n, {}).get(val.id, ()):
                    dn = cfg.nodes[d]
                    meas = [y for y in ast.walk(dn.ast) if dn.ast is not None and isinstance(y, ast.Call)
                            and (_n(y.func) or getattr(y.func, "attr", "")) in ("get_image_size", "get_dimensions")
                            and y.args and isinstance(y.args[0], ast.Name)] if dn.kind == "stmt" else []
                    for y in meas:
                        img = y.args[0].id
                        v_meas = cfg.reaching().get(d, {}).get(img)
                        for on, oc, nm in ops:
                            if oc.args and isinstance(oc.args[0], ast.Name) and oc.args[0].id == img:
                                v_op = cfg.reaching().get(on, {}).get(img)
                                rep.decide(v_meas == v_op, "G9.ctx-truth", fi, f"ctx:{key}:measured-image",
                                           f"'{key}' is measured on the image that {nm} is applied to",
                                           f"ctx records '{key}' measured on '{img}' at line {dn.lineno}, but {nm} (line {oc.lineno}) is "
                                           f"applied to another version of '{img}' (the image was re-bound in between): the recorded "
                                           f"size is not the size of the image the recorded window refers to", line=dn.lineno,
                                           clause="C14.2", nontrivial=False)
            for key, val in items:
                n_keys += 1
                construct = f"ctx:{key}"
                # aliasing: recorded object lives on the transform
                t = fa.sym.term(val, n)
                if t[0] == "self" or (t[0] == "var" and t[1].startswith("self.")) or (isinstance(val, ast.Attribute) and _n(val.value) == fa.self_name):
                    rep.bad("G9.ctx-truth", fi, construct, f"ctx[...] records {ast.unparse(val)}, an object kept on the transform: "
                            f"the next call overwrites what this sample's context reports", line=st.lineno, clause="C14.2")
                    continue
                if isinstance(val, ast.Name):
                    src = [cfg.def_value(d, val.id) for d in cfg.reaching().get(n, {}).get(val.id, ())]
                    if any(isinstance(s, ast.Attribute) and _n(s.value) == fa.self_name for s in src if s is not None):
                        rep.bad("G9.ctx-truth", fi, construct, f"ctx[...] records '{val.id}', which aliases an attribute of the "
                                f"transform (a buffer reused by later calls)", line=st.lineno, clause="C14.2")
                        continue
                base, suffix = key.rstrip("0123456789"), key[len(key.rstrip("0123456789")):]
                role = CTX_KEY_ROLE.get(base)
                if role is None or not isinstance(val, ast.Name):
                    # a named value (permutation, lh, ...): it must be a local that is also used by the applied expression
                    if isinstance(val, ast.Name):
                        used = any(isinstance(y, ast.Name) and y.id == val.id and isinstance(y.ctx, ast.Load)
                                   for m_ in cfg.nodes if m_ != n for e in cfg.all_exprs(m_) for y in ast.walk(e))
                        same = True
                        for m_ in cfg.nodes:
                            if m_ == n:
                                continue
                            for e in cfg.all_exprs(m_):
                                for y in ast.walk(e):
                                    if isinstance(y, ast.Name) and y.id == val.id and isinstance(y.ctx, ast.Load) and (
                                            cfg.reachable(n, m_) or cfg.reachable(m_, n)):
                                        if cfg.reaching().get(m_, {}).get(val.id) != cfg.reaching().get(n, {}).get(val.id) \
                                                and cfg.nodes[m_].kind == "stmt" and not isinstance(cfg.nodes[m_].ast, ast.Return):
                                            same = False
                        must = key in NAMED_MUST_BE_APPLIED
                        rep.decide(((not used) and not must) or (used and same), "G9.ctx-truth", fi, construct, f"records the local '{val.id}'" + (
                                   " that the applied expression uses" if used else " (informational)"), f"ctx records '{val.id}', which is not (the same version of) what the "
                                   f"transform applies", line=st.lineno, clause="C14.2")
                    else:
                        rep.ok("G9.ctx-truth", fi, construct, "informational value", clause="C14.2", nontrivial=False)
                    continue
                # geometric key: find the crop call whose argument in that role is this variable
                matched = None
                for on, oc, nm in ops:
                    geo = OP_GEOMETRY[nm]
                    if role not in geo:
                        continue
                    pos = geo.index(role) + 1
                    arg = oc.args[pos] if len(oc.args) > pos else next((k.value for k in oc.keywords if k.arg == role), None)
                    if isinstance(arg, ast.Name) and arg.id == val.id:
                        matched = (on, arg)
                    # crop(img, *box): the role's argument is box[k]; the recorded variable must be unpacked from that box
                    st_i = next((i for i, a in enumerate(oc.args) if isinstance(a, ast.Starred)), None)
                    if matched is None and st_i is not None and st_i <= pos and isinstance(oc.args[st_i].value, ast.Name) \
                            and not oc.args[st_i + 1:]:
                        box, k = oc.args[st_i].value.id, pos - st_i
                        rdefs = cfg.reaching().get(n, {}).get(val.id, set())
                        if len(rdefs) == 1:
                            (d,) = rdefs
                            ds = cfg.nodes[d].ast if cfg.nodes[d].kind == "stmt" else None
                            if isinstance(ds, ast.Assign) and isinstance(ds.targets[0], ast.Tuple) and _n(ds.value) == box \
                                    and len(ds.targets[0].elts) > k and _n(ds.targets[0].elts[k]) == val.id and \
                                    cfg.reaching().get(d, {}).get(box) == cfg.reaching().get(on, {}).get(box):
                                starred_ok = (on, oc.args[st_i])
                                matched = starred_ok
                ok = matched is not None and (isinstance(matched[1], ast.Starred) or cfg.reaching().get(matched[0], {}).get(
                    val.id) == cfg.reaching().get(n, {}).get(val.id))
                if matched is not None:
                    group = by_suffix.setdefault((n, suffix), set())
                    group.add(matched[0])
                    if len(group) > 1:
                        ok = False
                rep.decide(ok, "G9.ctx-truth", fi, construct, f"'{val.id}' is the {role} argument of the applied crop",
                           f"ctx key '{key}' records '{val.id}', which is not the {role} argument of any applied crop (or was "
                           f"re-assigned in between): the recorded geometry does not reproduce the output", line=st.lineno,
                           clause="C14.2")
    rep.floor("recorded context values checked", n_keys, 12)


# ----------------------------------------------------------------------------------------------------------------------
# 3. paired image / mask geometry
# ----------------------------------------------------------------------------------------------------------------------
def paired(prog: Program, rep: Report):
    rep.rule("G9.paired-geometry", "in every transforms/semseg class the image and the mask go through the same functional operation "
             "with identical geometry arguments (all arguments except fill / interpolation); where the geometry is re-drawn in "
             "a loop, no path leads from a (re)definition of a geometry variable to the image operation without passing the "
             "mask operation with that geometry (and vice versa): both members always see the same draw")
    mods = [m for rel, m in prog.by_relpath.items() if rel.startswith(T + "semseg/") and not rel.endswith("_old.py")
            and not rel.endswith("__init__.py")]
    n_pairs = 0
    for m in sorted(mods, key=lambda x: x.relpath):
        for b in m.bindings.values():
            if b[0] != "class" or b[1].module is not m:
                continue
            C = b[1]
            fi = C.methods.get("__call__") or C.methods.get("forward")
            if fi is None:
                continue
            fa = fa_of(prog, fi)
            cfg = fa.cfg
            rep.analysed_add("functions", f"{fi.module.relpath}:{fi.qualname}")
            # the (image, mask) pair: unpacked from the first data parameter
            pair = None
            for n, nd in cfg.nodes.items():
                st = nd.ast if nd.kind == "stmt" else None
                if isinstance(st, ast.Assign) and isinstance(st.targets[0], ast.Tuple) and len(st.targets[0].elts) == 2 \
                        and _n(st.value) == fi.params()[1]:
                    pair = (_n(st.targets[0].elts[0]), _n(st.targets[0].elts[1]))
            if pair is None:
                rep.unk("G9.paired-geometry", fi, "pair", "image / mask pair not unpacked from the argument", clause="C14.3")
                continue
            xi, mi = pair
            by_op: Dict[str, Dict[str, list]] = {}
            for n, c in fa.calls():
                nm = _n(c.func) or (c.func.attr if isinstance(c.func, ast.Attribute) else None)
                if nm not in OP_GEOMETRY or not c.args:
                    continue
                first = _n(c.args[0])
                # the mask may travel under another local (semseg_crop): classify by data-flow origin
                origin = _origin(fa, c.args[0], n, {xi, mi})
                if origin:
                    by_op.setdefault(nm, {}).setdefault("x" if origin == xi else "m", []).append((n, c))
            if not by_op:
                rep.unk("G9.paired-geometry", fi, "ops", "no functional operation on the pair found", clause="C14.3")
                continue
            for nm, sides in sorted(by_op.items()):
                n_pairs += 1
                xs, ms = sides.get("x", []), sides.get("m", [])
                if not xs or not ms:
                    rep.bad("G9.paired-geometry", fi, f"op:{nm}", f"{nm} is applied to the {'image' if xs else 'mask'} only: image "
                            f"and mask are no longer aligned", line=(xs or ms)[0][1].lineno, clause="C14.3")
                    continue
                geo_x = [_geo_args(c, fa, n_) for n_, c in xs]
                geo_m = [_geo_args(c, fa, n_) for n_, c in ms]
                same_args = all(g == geo_x[0] for g in geo_x + geo_m)
                problems = []
                if not same_args:
                    problems.append(f"{nm} gets different geometry arguments for image and mask ({geo_x[0]} vs "
                                    f"{[g for g in geo_m if g != geo_x[0]][:1] or geo_m[:1]})")
                else:
                    gvars = {y.id for _, c in xs for a in _geo_exprs(c) for y in ast.walk(a) if isinstance(y, ast.Name)}
                    gdefs = {n for n, var, val in fa.stores() if var in gvars}
                    xn, mn = {n for n, _ in xs}, {n for n, _ in ms}
                    for g in gdefs:
                        for tgt, other, who in ((xn, mn, "image"), (mn, xn, "mask")):
                            for t_ in tgt:
                                # a path g -> t_ that passes neither another definition nor the other side's operation ...
                                if cfg.reachable(g, t_, avoid=(gdefs - {g}) | other) or g == t_:
                                    # ... must be matched by the other side seeing the same definition: the other side's op
                                    # must be reachable from g without redefinition as well, and on every path to the exit
                                    if not any(cfg.reachable(g, o_, avoid=gdefs - {g}) for o_ in other):
                                        problems.append(f"the geometry defined at line {fa.line(g)} reaches the {who} "
                                                        f"operation but never the other member's")
                        # after g, before the function returns, both sides must be (re)applied: no path g -> exit that
                        # applies one side with g's geometry and the other side with an older one
                        for o_ in xn:
                            if cfg.reachable(g, o_, avoid=(gdefs - {g}) | mn) and any(
                                    cfg.reachable(m_, g) and not cfg.reachable(g, m_, avoid=gdefs - {g}) for m_ in mn):
                                problems.append(f"after the re-draw at line {fa.line(g)} the image is cropped with the new "
                                                f"geometry while the mask keeps the previous one")
                        for o_ in mn:
                            if cfg.reachable(g, o_, avoid=(gdefs - {g}) | xn) and any(
                                    cfg.reachable(x_, g) and not cfg.reachable(g, x_, avoid=gdefs - {g}) for x_ in xn):
                                problems.append(f"after the re-draw at line {fa.line(g)} the mask is cropped with the new "
                                                f"geometry while the image keeps the previous one")
                    # the last re-draw of a retry loop: from a geometry definition the loop can be left without re-applying
                    # the mask operation while the image operation follows
                    for g in gdefs:
                        for x_ in xn:
                            if cfg.reachable(g, x_, avoid=(gdefs - {g}) | mn) and any(cfg.reachable(m_, g) for m_ in mn) \
                                    and not all(cfg.reachable(x2, g) for x2 in xn):
                                problems.append(f"the geometry re-drawn at line {fa.line(g)} can reach the image operation "
                                                f"(line {fa.line(x_)}) without the mask having been cropped with it: image and "
                                                f"mask come from different windows")
                problems = sorted(set(problems))
                rep.decide(not problems, "G9.paired-geometry", fi, f"op:{nm}", f"{nm}: image and mask with identical geometry on "
                           f"every path", "; ".join(problems[:2]), line=xs[0][1].lineno, clause="C14.3")
    rep.floor("paired operations in semseg transforms", n_pairs, 5)
    # the wrapper feeds the pair through
    W = prog.cls("SemsegTransformWrapper")
    fi = W.methods.get("getitem_xsemseg")
    if fi is not None:
        fa = fa_of(prog, fi)
        ok = False
        for n, nd in fa.cfg.nodes.items():
            st = nd.ast if nd.kind == "stmt" else None
            if isinstance(st, ast.Assign) and isinstance(st.targets[0], ast.Tuple) and isinstance(st.value, ast.Call) \
                    and st.value.args:
                a0 = fa.expand(st.value.args[0], n)  # the pair may be packed into a local first
                if isinstance(a0, ast.Name):
                    ds = fa.cfg.reaching().get(n, {}).get(a0.id, set())
                    vals = [fa.cfg.def_value(d, a0.id) for d in ds]
                    if len(vals) == 1 and isinstance(vals[0], ast.Tuple):
                        a0 = vals[0]
                if isinstance(a0, ast.Tuple):
                    a = [_n(e) for e in a0.elts]
                    t = [_n(e) for e in st.targets[0].elts]
                    ok = ok or (a == t and len(a) == 2)
            # res = transform((x, semseg), ..) ; x, semseg = res
            if isinstance(st, ast.Assign) and isinstance(st.targets[0], ast.Tuple) and isinstance(st.value, ast.Name):
                ds = fa.cfg.reaching().get(n, {}).get(st.value.id, set())
                vals = [fa.cfg.def_value(d, st.value.id) for d in ds]
                if len(vals) == 1 and isinstance(vals[0], ast.Call) and vals[0].args and isinstance(vals[0].args[0], ast.Tuple):
                    a = [_n(e) for e in vals[0].args[0].elts]
                    t = [_n(e) for e in st.targets[0].elts]
                    ok = ok or (a == t and len(a) == 2)
        if not ok:
            ok = None  # another way of feeding the pair through: not decided here
        rep.decide(ok, "G9.paired-geometry", fi, "wrapper-pair", "x, semseg = transform((x, semseg), ctx=ctx)",
                   "the wrapper does not pass (x, semseg) through the paired transform and rebind both", clause="C14.3",
                   nontrivial=False)


def _origin(fa: FA, e: ast.AST, at: int, names_: Set[str], depth=0) -> Optional[str]:
    nm = _n(e)
    if nm in names_:
        return nm
    if nm is None or depth > 3:
        return None
    for d in fa.cfg.reaching().get(at, {}).get(nm, ()):
        val = fa.cfg.def_value(d, nm)
        if val is None:
            continue
        for y in ast.walk(val):
            if isinstance(y, ast.Name) and y.id in names_:
                return y.id
        for y in ast.walk(val):
            if isinstance(y, ast.Name) and y.id != nm:
                o = _origin(fa, y, d, names_, depth + 1)
                if o:
                    return o
    return None


def _geo_exprs(c: ast.Call) -> List[ast.AST]:
    return list(c.args[1:]) + [k.value for k in c.keywords if k.arg not in NON_GEOMETRIC_KW]


def _arg_text(a: ast.AST, fa: Optional[FA], at: Optional[int]) -> str:
    """Normal form of an argument (temporaries and parameter copies resolved), as text."""
    if fa is None or at is None:
        return ast.unparse(a)
    import re
    return re.sub(r"@\[[0-9, ]*\]", "", show(fa.sym.term(a, at)))


def _geo_args(c: ast.Call, fa: Optional[FA] = None, at: Optional[int] = None):
    nm = _n(c.func) or c.func.attr
    geo = OP_GEOMETRY.get(nm, [])
    out = {}
    for i, a in enumerate(c.args[1:]):
        key = geo[i] if i < len(geo) else f"arg{i}"
        if key not in NON_GEOMETRIC_KW:
            out[key] = _arg_text(a, fa, at)
    for k in c.keywords:
        if k.arg not in NON_GEOMETRIC_KW:
            out[k.arg] = _arg_text(k.value, fa, at)
    # positional arguments beyond the geometry (interpolation, fill) are not geometric
    return tuple(sorted((k, v) for k, v in out.items() if not k.startswith("arg")))


# ----------------------------------------------------------------------------------------------------------------------
# 4. inverse einops patterns
# ----------------------------------------------------------------------------------------------------------------------
def _pattern_of(fa: FA) -> Optional[Tuple[str, ast.Call]]:
    for n, c in fa.calls_named("rearrange"):
        pat = None
        for a in c.args[1:2]:
            if isinstance(a, ast.Constant):
                pat = a.value
        for k in c.keywords:
            if k.arg == "pattern" and isinstance(k.value, ast.Constant):
                pat = k.value.value
        if pat:
            return pat, c
    return None


def _parse_side(s: str):
    out, cur, depth = [], None, 0
    for tok in s.replace("(", " ( ").replace(")", " ) ").split():
        if tok == "(":
            cur = []
        elif tok == ")":
            out.append(tuple(cur))
            cur = None
        elif cur is not None:
            cur.append(tok)
        else:
            out.append((tok,))
    return out


def inverse_patterns(prog: Program, rep: Report):
    rep.rule("G9.inverse-patterns", "the einops pattern of Unpatchify / UnpatchifyImage is the mirror image of Patchify / "
             "PatchifyImage up to a renaming of axes (left and right side exchanged, same grouping); the context keys that "
             "PatchifyImage writes are exactly the keys UnpatchifyImage reads, bound to the corresponding axes")
    for fwd, inv in (("Patchify", "Unpatchify"), ("PatchifyImage", "UnpatchifyImage")):
        F, I = prog.cls(fwd), prog.cls(inv)
        ff, fi_ = F.methods.get("__call__"), I.methods.get("__call__")
        rep.require(ff is not None and fi_ is not None, f"anchor-missing: {fwd}/{inv}.__call__")
        pf, pi = _pattern_of(fa_of(prog, ff)), _pattern_of(fa_of(prog, fi_))
        rep.analysed_add("functions", f"{ff.module.relpath}:{ff.qualname}")
        rep.analysed_add("functions", f"{fi_.module.relpath}:{fi_.qualname}")
        if pf is None or pi is None:
            rep.unk("G9.inverse-patterns", I, f"pattern:{fwd}", "einops pattern not a string literal", clause="C14.4")
            continue
        fl, fr = [_parse_side(x) for x in pf[0].split("->")]
        il, ir = [_parse_side(x) for x in pi[0].split("->")]
        ok = _iso(fr, il) and _iso(fl, ir) and _iso(fl + fr, ir + il)
        rep.decide(ok, "G9.inverse-patterns", I, f"pattern:{fwd}", f"'{pi[0]}' mirrors '{pf[0]}'",
                   f"'{pi[0]}' is not the mirror image of '{pf[0]}': un-patchifying does not restore the image layout",
                   line=pi[1].lineno, clause="C14.4")
        if fwd == "PatchifyImage":
            fa_f, fa_i = fa_of(prog, ff), fa_of(prog, fi_)
            written = {}
            for n, nd in fa_f.cfg.nodes.items():
                st = nd.ast if nd.kind == "stmt" else None
                if isinstance(st, ast.Assign) and isinstance(st.targets[0], ast.Subscript) and _n(st.targets[0].value) == "ctx" \
                        and isinstance(st.targets[0].slice, ast.Constant):
                    written[st.targets[0].slice.value] = _n(st.value)
            fkw = {k.arg: _n(k.value) for k in pf[1].keywords}
            read = {}
            for k in pi[1].keywords:
                if isinstance(k.value, ast.Subscript) and _n(k.value.value) == "ctx" and isinstance(k.value.slice, ast.Constant):
                    read[k.arg] = k.value.slice.value
            # axis correspondence under the isomorphism of the patterns
            amap = _axis_map(fr, il)
            ok = bool(read) and set(read.values()) <= set(written)
            for axis_i, key in read.items():
                v = written.get(key)
                axis_f = next((a for a, loc in fkw.items() if loc == v), None)
                if axis_f is None or amap.get(axis_f) != axis_i:
                    ok = False
            rep.decide(ok, "G9.inverse-patterns", I, "ctx-keys", f"reads {sorted(read.values())}, written by {fwd} for the same axes",
                       f"UnpatchifyImage binds axes {read} from the context, {fwd} wrote {written} for axes {fkw}: the grid is "
                       f"restored with exchanged / missing extents", line=pi[1].lineno, clause="C14.4")


def _axis_map(a, b) -> Dict[str, str]:
    m = {}
    for ga, gb in zip(a, b):
        if len(ga) != len(gb):
            return {}
        for x, y in zip(ga, gb):
            m[x] = y
    return m


def _iso(a, b) -> bool:
    if len(a) != len(b) or any(len(x) != len(y) for x, y in zip(a, b)):
        return False
    m, inv = {}, {}
    for ga, gb in zip(a, b):
        for x, y in zip(ga, gb):
            if m.setdefault(x, y) != y or inv.setdefault(y, x) != x:
                return False
    return True


# ----------------------------------------------------------------------------------------------------------------------
# 5. normalise / denormalise
# ----------------------------------------------------------------------------------------------------------------------
def norm_identity(prog: Program, rep: Report):
    rep.rule("G6.norm-inverse", "for KDImageNorm and KDImageRangeNorm the composition denormalize(normalize(x)) is the identity as a "
             "rational function of (x, mean, std): every torchvision normalize(x, mean=m, std=s) call contributes x -> (x - m) / s "
             "with m, s the per-channel expressions of the tuples passed")
    import sympy as sp
    x, mean, std = sp.symbols("x mean std")
    for cname in ("KDImageNorm", "KDImageRangeNorm"):
        C = prog.cls(cname)
        maps = {}
        for meth in ("normalize", "denormalize"):
            fi = C.methods.get(meth)
            rep.require(fi is not None, f"anchor-missing: {cname}.{meth}")
            fa = fa_of(prog, fi)
            rep.analysed_add("functions", f"{fi.module.relpath}:{fi.qualname}")
            expr = x
            calls = sorted([(n, c) for n, c in fa.calls_named("normalize") if not (
                isinstance(c.func, ast.Attribute) and _n(c.func.value) == fa.self_name)], key=lambda nc: nc[1].lineno)
            ok = bool(calls)
            for n, c in calls:
                kws = {k.arg: k.value for k in c.keywords}
                m_e, s_e = kws.get("mean", c.args[1] if len(c.args) > 1 else None), kws.get("std", c.args[2] if len(c.args) > 2 else None)
                m_s, s_s = _channel_expr(fa, m_e, n, mean, std), _channel_expr(fa, s_e, n, mean, std)
                if m_s is None or s_s is None:
                    ok = False
                    break
                expr = (expr - m_s) / s_s
            maps[meth] = expr if ok else None
        if maps.get("normalize") is None or maps.get("denormalize") is None:
            rep.unk("G6.norm-inverse", C, "composition", "per-channel mean / std expressions not recognised", clause="C14.5")
            continue
        comp = sp.simplify(maps["denormalize"].subs(x, maps["normalize"]) - x)
        rep.decide(comp == 0, "G6.norm-inverse", C, "composition", f"normalize: {maps['normalize']}, denormalize: "
                   f"{maps['denormalize']}; composition is x",
                   f"denormalize(normalize(x)) - x = {comp} (normalize: {maps['normalize']}, denormalize: {maps['denormalize']})",
                   clause="C14.5")


def _channel_expr(fa: FA, e: Optional[ast.AST], at: int, mean, std):
    """sympy expression of one channel of a tuple argument: self.mean / self.std, a tuple(<expr> for v in self.mean|std) or a
    local bound to one of these."""
    import sympy as sp
    if e is None:
        return None
    if isinstance(e, ast.Name):
        for d in fa.cfg.reaching().get(at, {}).get(e.id, ()):
            val = fa.cfg.def_value(d, e.id)
            if val is not None:
                return _channel_expr(fa, val, d, mean, std)
        return None
    if isinstance(e, ast.Attribute) and _n(e.value) == fa.self_name:
        return mean if e.attr == "mean" else (std if e.attr == "std" else None)
    if isinstance(e, ast.Call) and _n(e.func) == "tuple" and e.args and isinstance(e.args[0], ast.GeneratorExp):
        g = e.args[0]
        it = g.generators[0].iter
        tv = _n(g.generators[0].target)
        base = None
        if isinstance(it, ast.Attribute) and _n(it.value) == fa.self_name:
            base = mean if it.attr == "mean" else (std if it.attr == "std" else None)

        def conv(y):
            if isinstance(y, ast.Constant) and isinstance(y.value, (int, float)):
                return sp.nsimplify(y.value)
            if isinstance(y, ast.Name) and y.id == tv and base is not None:
                return base
            if isinstance(y, ast.UnaryOp) and isinstance(y.op, ast.USub):
                v = conv(y.operand)
                return None if v is None else -v
            if isinstance(y, ast.BinOp):
                a, b = conv(y.left), conv(y.right)
                if a is None or b is None:
                    return None
                return {ast.Add: a + b, ast.Sub: a - b, ast.Mult: a * b, ast.Div: a / b}.get(type(y.op))
            return None
        return conv(g.elt)
    return None
