"""C17 - mask collators emit well-formed, budget-respecting, non-overlapping masks (DESIGN §4 C17)."""
from __future__ import annotations

import ast
from typing import Dict, List, Optional, Set, Tuple

from ..core import Report
from ..deps import Deps
from ..fa import FA, fa_of
from ..model import ClassInfo, FuncInfo, Program
from ..rules import names
from ..sym import Poly, Term, contains, leaves, negate, show, subterms, term_to_poly
from .c12 import torch_generator_seed
from .c14 import nonpositive

FILES = ["kappadata/collators/kd_dino_mask_collator.py", "kappadata/collators/kd_ijepa_mask_collator.py"]


def _n(e):
    return e.id if isinstance(e, ast.Name) else None


def grid_dims(prog: Program, C: ClassInfo) -> Optional[Tuple[Term, Term]]:
    """(rows, columns) of the mask grid: the two self attributes a torch.zeros mask is created with."""
    for fi in C.methods.values():
        fa = fa_of(prog, fi)
        for ctor in ("zeros", "ones", "full", "empty"):
            for n, c in fa.calls_named(ctor):
                args = list(c.args) or [k.value for k in c.keywords if k.arg == "size"]
                ts = [fa.sym.term(a, n) for a in args[:2]]
                if ts and ts[0][0] == "tuple" and len(ts[0][1]) == 2:
                    ts = list(ts[0][1])  # the size given as one tuple (possibly through a local)
                if len(ts) >= 2 and all(t[0] == "self" for t in ts[:2]):
                    return ts[0], ts[1]
    return None


def block_bounds(prog: Program, rep: Report, C: ClassInfo, fi: FuncInfo, clause: str):
    """rows/columns offsets drawn with rng.integers and used as slices a:a+e of the mask grid stay inside the grid."""
    fa = fa_of(prog, fi)
    cfg = fa.cfg
    dims = grid_dims(prog, C)
    if dims is None:
        rep.unk("G6.block-bounds", fi, "grid", "mask grid dimensions not found", clause=clause)
        return 0
    draws = {}
    for n, var, val in fa.stores():
        if val is None:
            continue
        for y in ast.walk(val):
            if isinstance(y, ast.Call) and isinstance(y.func, ast.Attribute) and y.func.attr == "integers":
                draws[var] = (n, y)
    n_ob = 0
    seen = set()
    for n in sorted(cfg.nodes):
        for x in cfg.walk_node(n):
            if not (isinstance(x, ast.Subscript) and isinstance(x.slice, ast.Tuple) and len(x.slice.elts) == 2):
                continue
            for axis, s in enumerate(x.slice.elts):
                if not (isinstance(s, ast.Slice) and s.lower is not None and s.upper is not None):
                    continue
                low = fa.expand(s.lower, n)  # copies of the drawn offset (parameter / tuple forwarding) are looked through
                if _n(low) not in draws:
                    continue
                ov = _n(low)
                if (ov, axis) in seen:
                    continue
                seen.add((ov, axis))
                dn, call = draws[ov]
                lo, hi = (call.args + [None, None])[:2] if len(call.args) >= 2 else (None, call.args[0] if call.args else None)
                kw = {k.arg: k.value for k in call.keywords}
                if "high" in kw:
                    lo, hi = kw.get("low", call.args[0] if call.args else None), kw["high"]
                elif "low" in kw and not call.args:
                    lo, hi = None, kw["low"]  # integers(low=n) draws from [0, n)
                if hi is None:
                    continue
                # extent = upper - lower
                ext = term_to_poly(fa.sym.term(s.upper, n)) - term_to_poly(fa.sym.term(s.lower, n))
                if fa.sym.term(s.lower, n) in [a for a in ext.atoms()]:
                    rep.unk("G6.block-bounds", fi, f"offset:{ov}", "slice upper bound is not offset + extent", line=x.lineno,
                            clause=clause)
                    continue
                n_ob += 1
                hi_p = term_to_poly(fa.sym.term(hi, dn))
                p = hi_p - Poly.const(1) + ext - term_to_poly(dims[axis])
                facts = []
                for c in fa.conds_at(dn):
                    for y in (c[1] if c[0] == "and" else [c]):
                        if y[0] == "le":
                            facts.append(term_to_poly(y[1]))
                        elif y[0] == "lt":
                            facts.append(term_to_poly(y[1]) + Poly.const(1))
                lo_ok = lo is None or (term_to_poly(fa.sym.term(lo, dn)).const_value() is not None and
                                       term_to_poly(fa.sym.term(lo, dn)).const_value() >= 0)
                ok = nonpositive(p, facts)
                rep.decide(None if ok is None else (ok and lo_ok), "G6.block-bounds", fi, f"offset:{ov}",
                           f"{ov} + extent stays within {show(dims[axis])}: hi - 1 + extent - dim = {p!r} <= 0",
                           f"the {'row' if axis == 0 else 'column'} offset '{ov}' (drawn below {ast.unparse(hi)}) plus its extent "
                           f"can exceed {show(dims[axis])}: hi - 1 + extent - dim = {p!r} (block leaves the grid or the offset is "
                           f"paired with the other axis)", line=call.lineno, clause=clause)
    return n_ob


def _flat_poly(t):
    """Polynomial of a term in which a substitution left a polynomial nested inside a polynomial's atom."""
    from fractions import Fraction
    from ..sym import Poly
    if isinstance(t, tuple) and t and t[0] == "poly":
        total = Poly.const(Fraction(0))
        for mono, coef in t[1]:
            m = Poly.const(Fraction(*coef) if isinstance(coef, tuple) else Fraction(coef))
            for atom, pw in mono:
                if not isinstance(pw, int) or pw < 0:
                    return term_to_poly(t)
                for _ in range(pw):
                    m = m * _flat_poly(atom)
            total = total + m
        return total
    return term_to_poly(t)


def run(prog: Program, rep: Report, tier: str):
    rep.trusted += ["torch.linspace(a, b, n + 1)[i + 1] <= b; numpy Generator.integers(lo, hi) draws from [lo, hi)",
                    "multiprocessing.Value.get_lock() serialises the increments of all holders of the counter"]
    rep.not_decided += ["ratio limits, disjointness, sortedness and the common rectangle size as tensor facts",
                        "termination of the rejection loops"]
    rep.rule("G6.block-bounds", "every block offset drawn with rng.integers and used as slice o:o+e of the mask grid satisfies lo >= 0 "
             "and hi - 1 + e <= the grid extent of that axis (rows with the row extent, columns with the column extent), using the "
             "branch conditions dominating the draw")
    dino(prog, rep)
    ijepa(prog, rep)
    collate_stateless(prog, rep)
    flat_index_units(prog, rep)
    names.check(prog, rep, FILES, clause="C17.G1", floor=12)


def flat_index_units(prog: Program, rep: Report):
    """row * <stride> + col  over the mask grid: the stride is the number of columns."""
    rep.rule("G6.flat-index", "where a mask collator computes a flat patch index as r * S + c from a grid extent S, S is the column "
             "extent of the grid (the second size the masks are created with), r derives from a row offset (drawn against the row "
             "extent) and c from a column offset: with the row extent as stride the indices are only right on square grids")
    n = 0
    for cname in ("KDIjepaMaskCollator", "KDDinoMaskCollator"):
        C = prog.cls(cname)
        dims = grid_dims(prog, C)
        if dims is None:
            continue
        for fi in C.methods.values():
            fa = fa_of(prog, fi)
            # offsets by axis: drawn with integers(.., <extent> - ..)
            axis_of = {}
            for nn, var, val in fa.stores():
                if val is None:
                    continue
                for y in ast.walk(val):
                    if isinstance(y, ast.Call) and isinstance(y.func, ast.Attribute) and y.func.attr == "integers":
                        t = fa.sym.term(y, nn)
                        for ax, d in enumerate(dims):
                            if any(x == d for x in subterms(t)):
                                axis_of[var] = ax

            def unit(e, at, depth=5):
                us = set()
                for y in ast.walk(fa.expand(e, at)):
                    if isinstance(y, ast.Name):
                        if y.id in axis_of:
                            us.add(axis_of[y.id])
                        elif depth > 0:
                            for d_ in fa.cfg.reaching().get(at, {}).get(y.id, set()):
                                v_ = fa.cfg.def_value(d_, y.id)
                                if v_ is not None:
                                    us |= unit(v_, d_, depth - 1)
                return us
            for nn in sorted(fa.cfg.nodes):
                for x in fa.cfg.walk_node(nn):
                    if not (isinstance(x, ast.BinOp) and isinstance(x.op, ast.Add)):
                        continue
                    for prod, other in ((x.left, x.right), (x.right, x.left)):
                        if not (isinstance(prod, ast.BinOp) and isinstance(prod.op, ast.Mult)):
                            continue
                        for fac, stride in ((prod.left, prod.right), (prod.right, prod.left)):
                            st_t = fa.sym.term(stride, nn)
                            if st_t not in dims:
                                continue
                            ur, uc = unit(fac, nn), unit(other, nn)
                            if not ur or not uc:
                                continue
                            n += 1
                            ok = st_t == dims[1] and ur == {0} and uc == {1}
                            rep.decide(ok, "G6.flat-index", fi, f"index:{' '.join(ast.unparse(x).split())[:60]}",
                                       "row * columns + column",
                                       f"the flat index {ast.unparse(x)[:60]} multiplies a {'row' if ur == {0} else 'column'} offset by "
                                       f"{show(st_t)} and adds a {'column' if uc == {1} else 'row'} offset: the stride must be the "
                                       f"column extent {show(dims[1])} (rows and columns agree only on square grids)",
                                       line=x.lineno, clause="C17.3")
    rep.floor("flat index computations (informational)", n, 0)


def collate_stateless(prog: Program, rep: Report):
    from ..rules.hooks import stores_on_self
    rep.rule("G8.collate-stateless", "collate of the mask collators (private helpers inlined) writes nothing onto the collator: no "
             "attribute, no element of an attribute container - the masks of a batch are built from objects created in that call. "
             "(The shared step counter of the I-JEPA collator is advanced through its own lock-protected object, not by a store "
             "on the collator.)  Mask storage kept between calls lets masks of an earlier, larger batch survive into a smaller "
             "one: more masked samples than mask_prob allows")
    for cname in ("KDDinoMaskCollator", "KDIjepaMaskCollator"):
        C = prog.cls(cname)
        fi = C.methods.get("collate")
        if fi is None:
            continue
        st = stores_on_self(fa_of(prog, fi))
        rep.decide(not st, "G8.collate-stateless", fi, "no-store-on-self", "collate writes nothing onto the collator",
                   "; ".join(f"{w} (line {ln})" for ln, w in st[:3]) + f": {cname}.collate keeps state on the collator between "
                   "batches", line=st[0][0] if st else fi.node.lineno, clause="C17.1")


def dino(prog: Program, rep: Report):
    """Works on the normal form: the private helpers that generate one mask are inlined into collate, so the roles are found by
    data flow inside one function (whatever the helpers are called, and whether they exist at all)."""
    C = prog.cls("KDDinoMaskCollator")
    rep.rule("G8.dino-budget", "KDDinoMaskCollator (helpers inlined): masks are generated only for the first int(batch_size * num_views "
             "* mask_prob) entries of a list of batch_size * num_views empty masks (all others stay empty); every write into such a "
             "mask is dominated by the test 'unmasked patches of the block <= T - D', T being the sampled budget of that mask "
             "(int(<draw> * num_patches)) and D the running count of that mask; every write happens under 'this patch is still "
             "unmasked' together with an increment of the block's count by one, and D grows by exactly that count")
    co = C.methods.get("collate")
    rep.require(co is not None, "anchor-missing: KDDinoMaskCollator.collate")
    fa = fa_of(prog, co)
    cfg = fa.cfg
    rep.analysed_add("functions", f"{co.module.relpath}:{co.qualname}")
    _returns_batch(rep, fa, co, "C17.5")
    _ctx_outputs(rep, fa, co, "C17.5")
    # ---- the list of masks and the loop that fills a prefix of it --------------------------------------------------------
    mask_lists = {}
    for n, var, val in fa.stores():
        if isinstance(val, ast.ListComp) and len(val.generators) == 1 and any(
                isinstance(y, ast.Call) and isinstance(y.func, ast.Attribute) and y.func.attr == "zeros" for y in ast.walk(val.elt)):
            mask_lists[var] = (n, val)
    # writes into a mask: element stores on a variable that refers to <mask list>[<loop variable>]
    writes = []  # (node, mask variable, list name, index term, loop next node)
    for n, var, val in fa.stores():
        if not var.endswith("[]") or "." in var:
            continue
        mv = var[:-2]
        ref = fa.referent(ast.Name(mv, ast.Load()), n)
        if isinstance(ref, ast.Subscript) and isinstance(ref.value, ast.Name) and ref.value.id in mask_lists:
            writes.append((n, mv, ref.value.id, ref.slice))
    if not writes:
        # masks[i][..] = .. written directly, or helpers that could not be inlined
        for n, nd in cfg.nodes.items():
            st = nd.ast if nd.kind == "stmt" else None
            if isinstance(st, ast.Assign) and isinstance(st.targets[0], ast.Subscript) and isinstance(st.targets[0].value, ast.Subscript) \
                    and isinstance(st.targets[0].value.value, ast.Name) and st.targets[0].value.value.id in mask_lists:
                writes.append((n, None, st.targets[0].value.value.id, st.targets[0].value.slice))
    if not writes and mask_lists:
        # the written mask is the element variable of a loop over the whole list: for m in masks / for i, m in enumerate(masks)
        for n, var, val in fa.stores():
            if not var.endswith("[]") or "." in var:
                continue
            mv = var[:-2]
            for d in cfg.reaching().get(n, {}).get(mv, ()):
                nd_ = cfg.nodes[d]
                if nd_.kind != "next":
                    continue
                it_ = nd_.owner.iter
                if isinstance(it_, ast.Call) and isinstance(it_.func, ast.Name) and it_.func.id in ("enumerate", "zip") and it_.args:
                    cands_ = it_.args
                else:
                    cands_ = [it_]
                for c_ in cands_:
                    if isinstance(c_, ast.Name) and c_.id in mask_lists:
                        rep.bad("G8.dino-budget", co, "masked-subset", f"the generation loop (line {nd_.lineno}) runs over every entry of "
                                f"'{c_.id}': all batch_size * num_views masks are filled, not only the first int(batch_size * "
                                f"num_views * mask_prob)", line=nd_.lineno, clause="C17.1")
                        return
    if not writes or not mask_lists:
        rep.unk("G8.dino-budget", co, "masked-subset", "mask generation of unrecognised shape (helpers not inlinable, or the masks are "
                "not a list of zero tensors filled in place)", clause="C17.1")
        rep.unk("G8.dino-budget", co, "write-guard", "no in-place write into a mask of the list found", clause="C17.2")
        return
    lst = writes[0][2]
    ln_, lc = mask_lists[lst]
    # the loop whose variable indexes the list
    idx_names = {y.id for y in ast.walk(writes[0][3]) if isinstance(y, ast.Name)}
    loops = [(t_, cfg.nodes[t_]) for t_, lab in cfg.control_predicates(writes[0][0]) if cfg.nodes[t_].kind == "next" and lab is True
             and idx_names & {y.id for y in ast.walk(cfg.nodes[t_].owner.target) if isinstance(y, ast.Name)}]
    if not loops:
        # the mask is not selected by a loop variable: judge against the outermost loop that encloses the generation
        loops = [(t_, cfg.nodes[t_]) for t_, lab in cfg.control_predicates(writes[0][0]) if cfg.nodes[t_].kind == "next"
                 and lab is True and isinstance(cfg.nodes[t_].owner.target, ast.Name)][:1]
    ok = None
    why = "mask generation loop of unrecognised shape"
    LN = None
    if loops:
        LN, nd = loops[0]
        it = fa.sym.term(nd.owner.iter, cfg.stmt_node[nd.owner])
        want_atoms = {("self", "num_views"), ("self", "mask_prob")}
        good_budget = True
        # a sample count assigned in both arms of 'if isinstance(x, list)' is judged arm by arm
        for it_ in fa.alternatives(it):
            budget = None
            if it_[0] == "call" and it_[1] == ("global", "range") and len(it_[2]) == 1:
                b_ = it_[2][0]
                if b_[0] == "call" and b_[1] == ("global", "int") and len(b_[2]) == 1:
                    budget = _flat_poly(b_[2][0])
            good_budget = good_budget and budget is not None and want_atoms <= set(budget.atoms()) and len(budget.terms) == 1 and \
                len(budget.atoms()) == 3 and all(p_ == 1 for mono in budget.terms for _, p_ in mono)
        tgt_names = [y.id for y in ast.walk(nd.owner.target) if isinstance(y, ast.Name)]
        good_target = isinstance(writes[0][3], ast.Name) and writes[0][3].id in tgt_names[:1]
        counted_otherwise = not (it[0] == "call" and it[1] == ("global", "range"))
        rt = fa.sym.term(lc.generators[0].iter, ln_)
        total_ok = True
        for rt_ in fa.alternatives(rt):
            ok_ = False
            if rt_[0] == "call" and rt_[1] == ("global", "range") and len(rt_[2]) == 1:
                tp = _flat_poly(rt_[2][0])
                ok_ = ("self", "num_views") in tp.atoms() and ("self", "mask_prob") not in tp.atoms() and len(tp.terms) == 1
            total_ok = total_ok and ok_
        ok = good_budget and good_target and total_ok
        if counted_otherwise and good_target and total_ok:
            ok = None  # the number of generated masks is fixed by the length of another sequence (e.g. the ratio bins)
        why = "masks[i] for i in range(int(batch_size * num_views * mask_prob)) out of batch_size * num_views empty masks" if ok \
            else ("; ".join(x for x in (None if good_budget else f"the number of generated masks is {show(it)[:80]}, not "
                                        "range(int(batch_size * num_views * mask_prob))",
                                        None if good_target else "the generated mask is not masks[i] of the loop index",
                                        None if total_ok else "the mask list does not have batch_size * num_views entries") if x))
    rep.decide(ok, "G8.dino-budget", co, "masked-subset", why, why, clause="C17.1")
    # ---- budget guard of every write ------------------------------------------------------------------------------------------
    body = cfg.nodes_inside(cfg.nodes[LN].owner.body) if LN is not None else set(cfg.nodes)
    # T: locals of the outer iteration defined as int(<draw> * self.num_patches); D: locals initialised to 0 in the outer iteration
    # and updated additively in an inner loop
    T_vars, D_vars = set(), set()
    for n, var, val in fa.stores():
        if n not in body or val is None or "." in var or var.endswith("[]"):
            continue
        t = fa.sym.term(val, n)
        if t[0] == "call" and t[1] == ("global", "int") and len(t[2]) == 1 and ("self", "num_patches") in term_to_poly(t[2][0]).atoms():
            T_vars.add(var)
        if t == ("const", 0) and fa.updates(var, ops=(ast.Add,)):
            D_vars.add(var)
    guard_ok = True
    guard_why = []
    n_guarded = 0
    for w, mv, _, _ in writes:
        found = False
        for e, pol, c, tn in fa.cond_parts_at(w):
            if c[0] not in ("le", "lt"):
                continue
            p_ = term_to_poly(c[1])
            tv = [a_ for a_ in p_.atoms() if (a_[0] == "var" and a_[1] in T_vars) or (
                a_[0] == "call" and a_[1] == ("global", "int") and len(a_[2]) == 1
                and ("self", "num_patches") in term_to_poly(a_[2][0]).atoms())]
            dv = [a_ for a_ in p_.atoms() if a_[0] == "var" and a_[1] in D_vars]
            if len(tv) == 1 and len(dv) == 1 and p_.coeff_of(tv[0]).const_value() == -1 and p_.coeff_of(dv[0]).const_value() == 1:
                # U - T + D <= 0 : the block's unmasked patches fit the remaining budget
                rest = p_ + Poly.atom(tv[0]) - Poly.atom(dv[0])
                if c[0] == "le" and not rest.is_const():
                    found = True
        n_guarded += found
        if not found:
            guard_ok = False
            guard_why.append(f"the write at line {fa.line(w)}")
    if not T_vars or not D_vars:
        rep.unk("G8.dino-budget", co, "write-guard", "sampled budget / running count of one mask not recognised", clause="C17.2")
    else:
        rep.decide(guard_ok, "G8.dino-budget", co, "write-guard",
                   "every mask write is reached only when the block's unmasked patches fit the remaining budget T - D",
                   ", ".join(guard_why) + " is reachable without the test 'unmasked patches in block <= remaining budget': more "
                   "patches are masked than the sampled ratio allows (the upper mask ratio can be exceeded)", clause="C17.2")
    # ---- the count: +1 exactly where a still unmasked patch is set; D += that count ------------------------------------------------
    ok = True
    why_c = []
    block_counts = set()
    for w, mv, _, _ in writes:
        conds = fa.conds_at(w)
        fresh = any(c[0] == "eq" for c in conds) or any(c[0] == "not" for c in conds)
        incs = [(m, var) for m, var, val in fa.stores() if "." not in var and not var.endswith("[]") and m in body and m != w
                and fa.conds_at(m) == conds and any(n2 == m for n2, op, e in fa.updates(var, ops=(ast.Add,))
                                                    if term_to_poly(fa.sym.term(e, n2)).const_value() == 1)]
        if not fresh:
            ok = False
            why_c.append(f"the write at line {fa.line(w)} is not under 'this patch is still unmasked'")
        if len(incs) != 1:
            ok = False
            why_c.append(f"the write at line {fa.line(w)} is not paired with exactly one '+= 1' of the block's count")
        else:
            block_counts.add(incs[0][1])
    # counts derived from the block's count: locals whose every definition is 0, a copy of a count, or '+= <count>'
    counts = set(block_counts)
    changed = True
    locals_ = {var for m, var, val in fa.stores() if "." not in var and not var.endswith("[]") and m in body}
    while changed:
        changed = False
        for v in sorted(locals_ - counts):
            defs_v = [(m, val) for m, var, val in fa.stores() if var == v and m in body]
            upd_v = {m: e for m, op, e in fa.updates(v, ops=(ast.Add,))}
            good = bool(defs_v)
            uses_count = False
            for m, val in defs_v:
                if m in upd_v:
                    e = upd_v[m]
                    if isinstance(e, ast.Name) and e.id in counts:
                        uses_count = True
                    else:
                        good = False
                elif val is not None and fa.sym.term(val, m) == ("const", 0):
                    pass
                elif isinstance(val, ast.Name) and val.id in counts:
                    uses_count = True
                else:
                    good = False
            if good and uses_count:
                counts.add(v)
                changed = True
    running = sorted(v for v in D_vars if v not in block_counts and any(
        a_[0] == "var" and a_[1] == v for w_, _, _, _ in writes for e_, pol_, c_, tn_ in fa.cond_parts_at(w_)
        if c_[0] in ("le", "lt") for a_ in term_to_poly(c_[1]).atoms()))
    for dvar in running:
        if dvar not in counts:
            ok = False
            ups = [ast.unparse(e) for m, op, e in fa.updates(dvar, ops=(ast.Add,)) if m in body]
            why_c.append(f"'{dvar}' (the running count in the budget test) grows by {', '.join(ups) or 'nothing'}, which is not "
                         f"the count of newly set patches")
    rep.decide(ok if (D_vars and writes) else None, "G8.dino-budget", co, "count-new-patches",
               "the block's count grows by one exactly where an unmasked patch is set, and the mask's running count by that count",
               "; ".join(why_c) + ": the remaining-budget accounting drifts", clause="C17.2")
    n_b = block_bounds(prog, rep, C, co, "C17.3")
    rep.floor("block offsets checked (DINO)", n_b, 2)


def _returns_batch(rep: Report, fa: FA, fi: FuncInfo, clause: str):
    rep.rule("G9.batch-pass-through", "collate returns its batch argument itself on every path and never assigns to it")
    ps = fi.params()
    rets = fa.returns()
    ok = bool(rets) and all(t == ("param", ps[1]) for _, t in rets)
    stores = [n for n, var, val in fa.stores() if var == ps[1] or var == f"{ps[1]}[]"]
    rep.decide(ok and not stores, "G9.batch-pass-through", fi, "returns-batch", "batch is returned unmodified",
               "collate re-binds / writes its batch or returns something else: the batch data does not pass through unchanged",
               clause=clause)


def _ctx_outputs(rep: Report, fa: FA, fi: FuncInfo, clause: str):
    """Every mask entry the collator ever writes into the context is written on every path that returns with a context."""
    rep.rule("G8.ctx-outputs", "whenever collate is given a context, every normal return is preceded, on every path, by the store of "
             "each context entry the collator produces (ctx['mask'] / ctx['encoder_masks'], ctx['predictor_masks']): no early "
             "return - for an empty masking budget, a batch of one - leaves the batch without its masks")
    cfg = fa.cfg
    ps = fi.params()
    ctxn = "ctx" if "ctx" in ps else None
    if ctxn is None:
        return
    keys = {}
    for n, nd in cfg.nodes.items():
        st = nd.ast if nd.kind == "stmt" else None
        if isinstance(st, ast.Assign):
            for t in st.targets:
                if isinstance(t, ast.Subscript) and _n(t.value) == ctxn and isinstance(t.slice, ast.Constant):
                    keys.setdefault(t.slice.value, set()).add(n)
    is_none = ("is", tuple(sorted((("const", None), ("param", ctxn)), key=repr)))
    pruned = fa.prune({is_none: False})
    pc = pruned.cfg
    rets = [n for n, nd in pc.nodes.items() if nd.kind == "stmt" and isinstance(nd.ast, ast.Return)]
    if not keys:
        rep.unk("G8.ctx-outputs", fi, "entries", "no constant-key store into the context found", clause=clause)
        return
    for k, nodes in sorted(keys.items(), key=lambda kv: str(kv[0])):
        live = {n for n in nodes if n in pc.nodes}
        bad = [r for r in rets if not pc.must_pass(live, src=pc.entry, dst=r)]
        ends = bad or ([] if (rets or not pc.reachable(pc.entry, pc.exit)) else [pc.exit])
        if not rets and pc.reachable(pc.entry, pc.exit) and not pc.must_pass(live, src=pc.entry, dst=pc.exit):
            ends = [pc.exit]
        rep.decide(not ends, "G8.ctx-outputs", fi, f"entry:{k}", f"ctx[{k!r}] is stored on every path that returns with a context",
                   f"a path returns (line {', '.join(str(pc.nodes[r].lineno) for r in ends[:3])}) without storing ctx[{k!r}] although a "
                   f"context was given: that batch reaches the model without its masks", line=pc.nodes[ends[0]].lineno if ends else 0,
                   clause=clause)


def ijepa(prog: Program, rep: Report):
    prog_nf = prog  # normal form (helpers inlined): used for the offset bounds, which must see draw and slice in one function
    # these helpers are summarised as units (which generator they draw from, what they return); everything else is inlined
    prog = prog.keeping("_sample_block_size", "step", "_sample_block_mask", "_sample_block_mask_constrained")
    C = prog.cls("KDIjepaMaskCollator")
    rep.rule("G4.step-seeded-sizes", "KDIjepaMaskCollator: the generator that draws the block sizes is torch.Generator().manual_seed("
             "self.step()); _sample_block_size draws only from the generator it is given; step() increments the shared counter "
             "and reads it back while holding its lock; both sizes of a batch come from that one generator - block sizes depend "
             "on the step counter (and the configuration) only")
    rep.rule("G9.own-complements", "the encoder masks of a sample are constrained by the complements of that same sample's predictor "
             "masks: the complement list is created inside the per-sample loop, before the predictor loop, and is what is passed "
             "as acceptable_regions; every predictor / encoder mask updates the running minimum length, and all masks are cut to "
             "that minimum before collation")
    co = C.methods.get("collate")
    rep.require(co is not None, "anchor-missing: KDIjepaMaskCollator.collate")
    fa = fa_of(prog, co)
    cfg = fa.cfg
    rep.analysed_add("functions", f"{co.module.relpath}:{co.qualname}")
    # sizes
    sz = [(n, c) for n, c in fa.calls_named("_sample_block_size")]
    ok = len(sz) >= 2
    gens = set()
    for n, c in sz:
        g = next((k.value for k in c.keywords if k.arg == "generator"), c.args[0] if c.args else None)
        gt = fa.sym.term(g, n) if g is not None else None
        seed = torch_generator_seed(gt) if gt is not None else None
        if seed is None and gt is not None and gt[0] == "var":
            for d in gt[2]:
                val = cfg.def_value(d, gt[1])
                if val is not None:
                    seed = torch_generator_seed(fa.sym.term(val, d))
            gens.add(gt)
        good = seed is not None and (seed == ("call", ("self", "step"), (), ()) or (
            seed[0] == "var" and all(cfg.def_value(d, seed[1]) is not None and fa.sym.term(cfg.def_value(d, seed[1]), d)[:2] in (
                ("call", ("self", "step")), ("call", ("attr", ("param", fa.self_name), "step"))) for d in seed[2])) or (
            seed[0] == "call" and seed[1] in (("self", "step"), ("attr", ("param", fa.self_name), "step"))))
        ok = ok and good
    rep.decide(ok, "G4.step-seeded-sizes", co, "generator", "block sizes are drawn from a generator seeded with self.step()",
               "the block-size generator is not torch.Generator().manual_seed(self.step()): ranks / workers no longer agree on the "
               "block sizes of a step, or the sizes depend on something besides the step counter", clause="C17.4")
    bs = C.methods.get("_sample_block_size")
    if bs is not None:
        ba = fa_of(prog, bs)
        rep.analysed_add("functions", f"{bs.module.relpath}:{bs.qualname}")
        bad = []
        for n, c in ba.calls():
            t = ba.sym.term(c, n)
            f = t[1]
            if f[0] == "attr" and f[1] == ("self", "rng"):
                bad.append(ast.unparse(c)[:50])
            if f[0] == "global" and f[1].startswith("torch.rand") and not any(k == "generator" and v == ("param", "generator") for k, v in t[3]):
                bad.append(ast.unparse(c)[:50])
            if f[0] == "global" and (f[1].startswith("numpy.random.") or f[1].startswith("random.")):
                bad.append(ast.unparse(c)[:50])
        rep.decide(not bad, "G4.step-seeded-sizes", bs, "draws", "draws only from the generator argument",
                   f"_sample_block_size draws from another source ({'; '.join(bad[:2])}): block sizes differ between processes that "
                   f"share a step", clause="C17.4")
    st = C.methods.get("step")
    if st is not None:
        sa = fa_of(prog, st)
        rep.analysed_add("functions", f"{st.module.relpath}:{st.qualname}")
        withs = [n for n, nd in sa.cfg.nodes.items() if nd.kind == "with" and any(
            isinstance(y, ast.Attribute) and y.attr == "get_lock" for y in ast.walk(nd.ast.items[0].context_expr))]
        incs = [n for n, nd in sa.cfg.nodes.items() if nd.kind == "stmt" and (
            (isinstance(nd.ast, ast.AugAssign) and isinstance(nd.ast.target, ast.Attribute) and nd.ast.target.attr == "value") or
            (isinstance(nd.ast, ast.Assign) and isinstance(nd.ast.targets[0], ast.Attribute) and nd.ast.targets[0].attr == "value"
             and isinstance(nd.ast.value, ast.BinOp)))]
        reads = [n for n, var, val in sa.stores() if isinstance(val, ast.Attribute) and val.attr == "value"]
        ok = bool(withs) and bool(incs) and bool(reads)
        if ok:
            inside = sa.cfg.nodes_inside(sa.cfg.nodes[withs[0]].ast.body)
            ok = all(n in inside for n in incs + reads) and sa.cfg.reachable(incs[0], reads[0])
            rets = [cfgt for _, cfgt in sa.returns()]
            ok = ok and bool(rets)
        rep.decide(ok, "G4.step-seeded-sizes", st, "locked-increment", "counter incremented and read back under its lock",
                   "step() does not increment and read the shared counter while holding its lock: two workers can obtain the same "
                   "or a skipped step", clause="C17.4")
    # complements of the same sample
    cons = [(n, c) for n, c in fa.calls_named("_sample_block_mask_constrained")]
    ok = None
    why = "constrained sampling call not found"
    if cons:
        n, c = cons[0]
        ar = next((k.value for k in c.keywords if k.arg == "acceptable_regions"), c.args[1] if len(c.args) > 1 else None)
        av = _n(ar)
        loops = [t_ for t_, lab in cfg.control_predicates(n) if cfg.nodes[t_].kind == "next" and lab is True]
        ok = False
        why = "acceptable_regions is not a per-sample list of this sample's predictor complements"
        if av and len(loops) >= 1:  # (the loop over the encoder masks may be a comprehension)
            outer = loops[0]
            body = cfg.nodes_inside(cfg.nodes[outer].owner.body)
            defs = [m for m, var, val in fa.stores() if var == av]
            inside = [m for m in defs if m in body]
            fresh = bool(inside) and all(m in body for m in defs)
            apps = [m for m, cc in fa.calls_named("append") if _n(cc.func.value) == av and m in body]
            comp_src = False
            for m, cc in fa.calls_named("append"):
                if _n(cc.func.value) == av and cc.args:
                    nm = _n(cc.args[0])
                    # the appended value is the second result of _sample_block_mask
                    for d, var, val in fa.stores():
                        stn = cfg.nodes[d].ast
                        if isinstance(stn, ast.Assign) and isinstance(stn.targets[0], ast.Tuple) and len(stn.targets[0].elts) == 2 \
                                and _n(stn.targets[0].elts[1]) == nm and isinstance(stn.value, ast.Call) \
                                and isinstance(stn.value.func, ast.Attribute) and stn.value.func.attr == "_sample_block_mask":
                            comp_src = True
            before = bool(apps) and all(not cfg.reachable(n, a, avoid={outer}) for a in apps)
            ok = fresh and comp_src and before
            why = "the complement list is rebuilt for every sample from that sample's predictor masks and constrains its encoder " \
                  "masks" if ok else "; ".join(x for x in (
                      None if fresh else f"'{av}' is not re-created inside the per-sample loop: encoder masks are constrained by "
                                         f"other samples' predictor blocks (and may overlap their own)",
                      None if comp_src else f"'{av}' does not collect the complements returned by _sample_block_mask",
                      None if before else "the encoder masks are sampled before this sample's predictor complements are complete") if x)
    rep.decide(ok, "G9.own-complements", co, "acceptable-regions", why, why, clause="C17.4")
    # common length: the running minima are the locals defined as v = min(v, len(<mask>)) (found by dataflow, not by name)
    minima = []
    for n1, var, val in fa.stores():
        if val is not None and isinstance(val, ast.Call) and _n(val.func) == "min" and len(val.args) == 2 and _n(val.args[0]) == var \
                and isinstance(val.args[1], ast.Call) and _n(val.args[1].func) == "len" and val.args[1].args:
            minima.append((n1, var, _n(val.args[1].args[0])))
    coll = [n3 for n3, c3 in fa.calls_named("default_collate")]
    # (the masks may be stacked by hand instead: what matters is that they are cut before they are published in the context)
    coll += [n3 for n3, nd3 in cfg.nodes.items() if nd3.kind == "stmt" and isinstance(nd3.ast, ast.Assign) and any(
        isinstance(t3, ast.Subscript) and _n(t3.value) == "ctx" for t3 in nd3.ast.targets)]
    cut_vars = set()
    for n2 in cfg.nodes:
        for y in cfg.walk_node(n2):
            if isinstance(y, ast.Subscript) and isinstance(y.slice, ast.Slice) and y.slice.lower is None and _n(y.slice.upper) \
                    and any(n2 == co_ or cfg.reachable(n2, co_) for co_ in coll):
                cut_vars.add(_n(y.slice.upper))
    if not (cut_vars | {v for _, v, _ in minima}):
        rep.unk("G9.own-complements", co, "common-length", "the common cut length is not kept as a running 'v = min(v, len(mask))' "
                "(another bookkeeping, e.g. a list of lengths): not decided here", clause="C17.4")
    rep.floor("running minima / common cut lengths (one per mask kind)", len(cut_vars | {v for _, v, _ in minima}), 0)
    for cv in sorted(cut_vars - {v for _, v, _ in minima}):
        vals = [val for m_, var_, val in fa.stores() if var_ == cv and val is not None]
        if any(isinstance(y, ast.Call) and _n(y.func) in ("min", "len") for v_ in vals for y in ast.walk(v_)):
            rep.unk("G9.own-complements", co, f"common-length:other:{cv}", f"'{cv}' is computed from lengths in another way than a "
                    f"running 'v = min(v, len(mask))': not decided here", clause="C17.4")
            continue
        rep.bad("G9.own-complements", co, f"common-length:unmaintained:{len(cut_vars)}", f"the masks are cut to '{cv}', which is "
                f"never updated with the lengths of the sampled masks (no '{cv} = min({cv}, len(mask))'): masks shorter than it "
                f"keep their own length and cannot be stacked to one common size", clause="C17.4")
    for k, (n1, var, mname) in enumerate(sorted(minima)):
        def _upper_is(u, var_):
            # mask[:K]  or  mask[:min(len(mask), K)] (slicing clamps to the length anyway)
            if _n(u) == var_:
                return True
            return isinstance(u, ast.Call) and isinstance(u.func, ast.Name) and u.func.id == "min" and not u.keywords and \
                any(_n(a_) == var_ for a_ in u.args) and all(
                    _n(a_) == var_ or (isinstance(a_, ast.Call) and isinstance(a_.func, ast.Name) and a_.func.id == "len")
                    for a_ in u.args)
        cuts = [n2 for n2 in cfg.nodes for y in cfg.walk_node(n2) if isinstance(y, ast.Subscript) and isinstance(y.slice, ast.Slice)
                and y.slice.lower is None and y.slice.upper is not None and _upper_is(y.slice.upper, var)]
        apps = [m for m, cc in fa.calls_named("append") if cc.args and _n(cc.args[0]) == mname and fa.conds_at(m) == fa.conds_at(n1)
                and (cfg.reachable(m, n1) or cfg.reachable(n1, m))]
        upd_ok = mname is not None and bool(apps)
        # the list that is cut with this minimum is the list the masks measured by it were collected into
        cut_before = bool(cuts) and bool(coll) and any(cu == co_ or cfg.reachable(cu, co_) for cu in cuts for co_ in coll)
        same_list = True
        if apps and cuts:
            inner_list = _n(fa.calls_named("append")[0][1].func.value)
            coll_lists = set()
            for m, cc in fa.calls_named("append"):
                if m in apps:
                    coll_lists.add(_n(cc.func.value))
            # lists the per-sample lists are appended to
            outer = {_n(cc2.func.value) for m2, cc2 in fa.calls_named("append") if cc2.args and _n(cc2.args[0]) in coll_lists}
            cut_src = set()
            for cu in cuts:
                for y in cfg.walk_node(cu):
                    if isinstance(y, ast.comprehension):
                        cut_src |= {z.id for z in ast.walk(y.iter) if isinstance(z, ast.Name)}
            same_list = bool(outer & cut_src) if outer and cut_src else True
        rep.decide(upd_ok and cut_before and same_list, "G9.own-complements", co, f"common-length:{k}",
                   "running minimum over every mask of this kind, all of them cut to it before collation",
                   "; ".join(x for x in (None if upd_ok else f"'{var}' is not updated for every mask that is collected",
                                         None if cut_before else f"the masks are not cut to '{var}' before collation",
                                         None if same_list else f"the masks cut to '{var}' are not the masks it was computed "
                                                                f"from (another kind's minimum is used)") if x) +
                   ": masks of one kind lose their common size", clause="C17.4")
    _returns_batch(rep, fa, co, "C17.5")
    _ctx_outputs(rep, fa, co, "C17.5")
    # offsets: in the normal form the block samplers are part of collate, so the draw and the slice it feeds are in one function
    # whatever helpers they were written in; helpers that cannot be inlined are looked at one by one
    Cn = prog_nf.cls("KDIjepaMaskCollator")
    n_b = block_bounds(prog_nf, rep, Cn, Cn.methods["collate"], "C17.3")
    if n_b == 0:
        for f in Cn.methods.values():
            if f.name not in ("collate", "__init__"):
                n_b += block_bounds(prog_nf, rep, Cn, f, "C17.3")
    rep.floor("block offsets checked (I-JEPA)", n_b, 2)
    # the size clamp that makes the offset ranges non-empty
    if bs is not None:
        ba = fa_of(prog, bs)
        rets = [t for _, t in ba.returns() if t is not None]
        ok = None
        if len(rets) == 1 and rets[0][0] == "tuple" and len(rets[0][1]) == 2:
            ok = True
            dims = grid_dims(prog, C)
            for comp, dim in zip(rets[0][1], dims or ()):
                srcs = [comp]
                if comp[0] == "var":
                    srcs = [ba.sym.term(ba.cfg.def_value(d, comp[1]), d) for d in comp[2] if ba.cfg.def_value(d, comp[1]) is not None]
                good = all(s[0] == "call" and s[1] == ("global", "min") and any(
                    term_to_poly(a) == term_to_poly(dim) - Poly.const(1) for a in s[2]) for s in srcs) and bool(srcs)
                ok = ok and good
        rep.decide(ok, "G6.block-bounds", bs, "size-clamp", "block height / width are clamped to grid extent - 1",
                   "a block size is not clamped to (grid extent - 1): rng.integers(0, extent - size) gets an empty range or the "
                   "block leaves the grid", clause="C17.3")
