"""C17 - mask collators emit well-formed, budget-respecting, non-overlapping masks (DESIGN §4 C17)."""
from __future__ import annotations

import ast
from typing import Dict, List, Optional, Set, Tuple

from ..core import Report
from ..deps import Deps
from ..fa import FA, fa_of
from ..model import ClassInfo, FuncInfo, Program
from ..rules import names
from ..sym import Poly, Term, contains, leaves, negate, show, subterms, term_to_poly
from .c12 import torch_generator_seed
from .c14 import nonpositive

FILES = ["kappadata/collators/kd_dino_mask_collator.py", "kappadata/collators/kd_ijepa_mask_collator.py"]


def _n(e):
    return e.id if isinstance(e, ast.Name) else None


def grid_dims(prog: Program, C: ClassInfo) -> Optional[Tuple[Term, Term]]:
    """(rows, columns) of the mask grid: the two self attributes a torch.zeros mask is created with."""
    for fi in C.methods.values():
        fa = fa_of(prog, fi)
        for n, c in fa.calls_named("zeros"):
            args = list(c.args)
            if len(args) == 1 and isinstance(args[0], ast.Tuple):
                args = list(args[0].elts)
            ts = [fa.sym.term(a, n) for a in args[:2]]
            if len(ts) == 2 and all(t[0] == "self" for t in ts):
                return ts[0], ts[1]
    return None


def block_bounds(prog: Program, rep: Report, C: ClassInfo, fi: FuncInfo, clause: str):
    """rows/columns offsets drawn with rng.integers and used as slices a:a+e of the mask grid stay inside the grid."""
    fa = fa_of(prog, fi)
    cfg = fa.cfg
    dims = grid_dims(prog, C)
    if dims is None:
        rep.unk("G6.block-bounds", fi, "grid", "mask grid dimensions not found", clause=clause)
        return 0
    draws = {}
    for n, var, val in fa.stores():
        if val is None:
            continue
        for y in ast.walk(val):
            if isinstance(y, ast.Call) and isinstance(y.func, ast.Attribute) and y.func.attr == "integers":
                draws[var] = (n, y)
    n_ob = 0
    seen = set()
    for n in sorted(cfg.nodes):
        for x in cfg.walk_node(n):
            if not (isinstance(x, ast.Subscript) and isinstance(x.slice, ast.Tuple) and len(x.slice.elts) == 2):
                continue
            for axis, s in enumerate(x.slice.elts):
                if not (isinstance(s, ast.Slice) and _n(s.lower) in draws and s.upper is not None):
                    continue
                ov = _n(s.lower)
                if (ov, axis) in seen:
                    continue
                seen.add((ov, axis))
                dn, call = draws[ov]
                lo, hi = (call.args + [None, None])[:2] if len(call.args) >= 2 else (None, call.args[0] if call.args else None)
                if hi is None:
                    continue
                # extent = upper - lower
                ext = term_to_poly(fa.sym.term(s.upper, n)) - term_to_poly(fa.sym.term(s.lower, n))
                if fa.sym.term(s.lower, n) in [a for a in ext.atoms()]:
                    rep.unk("G6.block-bounds", fi, f"offset:{ov}", "slice upper bound is not offset + extent", line=x.lineno,
                            clause=clause)
                    continue
                n_ob += 1
                hi_p = term_to_poly(fa.sym.term(hi, dn))
                p = hi_p - Poly.const(1) + ext - term_to_poly(dims[axis])
                facts = []
                for c in fa.conds_at(dn):
                    for y in (c[1] if c[0] == "and" else [c]):
                        if y[0] == "le":
                            facts.append(term_to_poly(y[1]))
                        elif y[0] == "lt":
                            facts.append(term_to_poly(y[1]) + Poly.const(1))
                lo_ok = lo is None or (term_to_poly(fa.sym.term(lo, dn)).const_value() is not None and
                                       term_to_poly(fa.sym.term(lo, dn)).const_value() >= 0)
                ok = nonpositive(p, facts)
                rep.decide(None if ok is None else (ok and lo_ok), "G6.block-bounds", fi, f"offset:{ov}",
                           f"{ov} + extent stays within {show(dims[axis])}: hi - 1 + extent - dim = {p!r} <= 0",
                           f"the {'row' if axis == 0 else 'column'} offset '{ov}' (drawn below {ast.unparse(hi)}) plus its extent "
                           f"can exceed {show(dims[axis])}: hi - 1 + extent - dim = {p!r} (block leaves the grid or the offset is "
                           f"paired with the other axis)", line=call.lineno, clause=clause)
    return n_ob


def run(prog: Program, rep: Report, tier: str):
    rep.trusted += ["torch.linspace(a, b, n + 1)[i + 1] <= b; numpy Generator.integers(lo, hi) draws from [lo, hi)",
                    "multiprocessing.Value.get_lock() serialises the increments of all holders of the counter"]
    rep.not_decided += ["ratio limits, disjointness, sortedness and the common rectangle size as tensor facts",
                        "termination of the rejection loops"]
    rep.rule("G6.block-bounds", "every block offset drawn with rng.integers and used as slice o:o+e of the mask grid satisfies lo >= 0 "
             "and hi - 1 + e <= the grid extent of that axis (rows with the row extent, columns with the column extent), using the "
             "branch conditions dominating the draw")
    dino(prog, rep)
    ijepa(prog, rep)
    names.check(prog, rep, FILES, clause="C17.G1", floor=12)


def dino(prog: Program, rep: Report):
    prog = prog.raw  # _generate_mask / _mask_block are summarised as units (budget handed over, count returned)
    C = prog.cls("KDDinoMaskCollator")
    rep.rule("G8.dino-budget", "KDDinoMaskCollator: masks are generated only for the first int(batch_size * num_views * mask_prob) "
             "entries of a list of batch_size * num_views empty masks (all others stay empty); _generate_mask hands _mask_block the "
             "remaining budget total - done and adds exactly the count it returns; in _mask_block every write to the mask is "
             "dominated by the test that the block's unmasked patches do not exceed the remaining budget, and the returned count "
             "is incremented exactly where a patch is newly set")
    co = C.methods.get("collate")
    rep.require(co is not None, "anchor-missing: KDDinoMaskCollator.collate")
    fa = fa_of(prog, co)
    cfg = fa.cfg
    rep.analysed_add("functions", f"{co.module.relpath}:{co.qualname}")
    gm = [(n, c) for n, c in fa.calls_named("_generate_mask")]
    ok = None
    why = "mask generation loop of unrecognised shape"
    if len(gm) == 1:
        n, c = gm[0]
        loops = [t_ for t_, lab in cfg.control_predicates(n) if cfg.nodes[t_].kind == "next" and lab is True]
        if loops:
            LN = loops[-1]
            nd = cfg.nodes[LN]
            it = fa.sym.term(nd.owner.iter, cfg.stmt_node[nd.owner])
            I = ("var", _n(nd.owner.target), frozenset({LN}))
            a0 = fa.sym.term(c.args[0], n) if c.args else None
            # range(int(batch_size * self.num_views * self.mask_prob))
            budget = None
            if it[0] == "call" and it[1] == ("global", "range") and len(it[2]) == 1:
                b = it[2][0]
                if b[0] == "call" and b[1] == ("global", "int") and len(b[2]) == 1:
                    budget = term_to_poly(b[2][0])
            want_atoms = {("self", "num_views"), ("self", "mask_prob")}
            good_budget = budget is not None and want_atoms <= set(budget.atoms()) and len(budget.terms) == 1 and \
                len(budget.atoms()) == 3 and all(p_ == 1 for mono in budget.terms for _, p_ in mono)
            good_target = a0 is not None and a0[0] == "sub" and a0[2] == I
            # the list of masks: batch_size * num_views entries
            total_ok = False
            if good_target and a0[1][0] == "var":
                for d in a0[1][2]:
                    val = cfg.def_value(d, a0[1][1])
                    if isinstance(val, ast.ListComp):
                        rt = fa.sym.term(val.generators[0].iter, d)
                        if rt[0] == "call" and rt[1] == ("global", "range") and len(rt[2]) == 1:
                            tp = term_to_poly(rt[2][0])
                            total_ok = ("self", "num_views") in tp.atoms() and ("self", "mask_prob") not in tp.atoms() \
                                and len(tp.terms) == 1
            ok = good_budget and good_target and total_ok
            why = "masks[i] for i in range(int(batch_size * num_views * mask_prob)) out of batch_size * num_views empty masks" if ok \
                else ("; ".join(x for x in (None if good_budget else f"the number of generated masks is {show(it)[:80]}, not "
                                            "range(int(batch_size * num_views * mask_prob))",
                                            None if good_target else "the generated mask is not masks[i] of the loop index",
                                            None if total_ok else "the mask list does not have batch_size * num_views entries") if x))
    rep.decide(ok, "G8.dino-budget", co, "masked-subset", why, why, clause="C17.1")
    _returns_batch(rep, fa, co, "C17.5")
    gmf = C.methods.get("_generate_mask")
    if gmf is not None:
        ga = fa_of(prog, gmf)
        rep.analysed_add("functions", f"{gmf.module.relpath}:{gmf.qualname}")
        ps = gmf.params()
        calls = [(n, c) for n, c in ga.calls_named("_mask_block")]
        ok = None
        if len(calls) == 1 and len(ps) >= 3:
            n, c = calls[0]
            rem = term_to_poly(ga.sym.term(c.args[1], n)) if len(c.args) > 1 else None
            st = ga.cfg.nodes[n].ast
            dv = _n(st.targets[0]) if isinstance(st, ast.Assign) else None
            total = ("param", ps[2])
            dones = [a for a in (rem.atoms() if rem is not None else []) if a[0] == "var"]
            good_rem = rem is not None and len(dones) == 1 and rem == Poly.atom(total) - Poly.atom(dones[0])
            acc = dones[0][1] if dones else None
            incs = [(m, e) for m, op, e in ga.updates(acc or "", ops=(ast.Add,))]
            good_acc = len(incs) == 1 and _n(incs[0][1]) == dv
            ok = good_rem and good_acc
        rep.decide(ok, "G8.dino-budget", gmf, "remaining-budget", "_mask_block(mask, total - done); done += returned count",
                   "_generate_mask does not pass total - done as the remaining budget, or does not add exactly the returned count",
                   clause="C17.1")
    mb = C.methods.get("_mask_block")
    rep.require(mb is not None, "anchor-missing: KDDinoMaskCollator._mask_block")
    ma = fa_of(prog, mb)
    mcfg = ma.cfg
    rep.analysed_add("functions", f"{mb.module.relpath}:{mb.qualname}")
    ps = mb.params()
    writes = [n for n, var, val in ma.stores() if var == f"{ps[1]}[]"]
    budget_tests = []
    for n, nd in mcfg.nodes.items():
        if nd.kind == "test":
            t = ma.sym.term(nd.ast, n)
            if t[0] in ("lt", "le") and ("param", ps[2]) in leaves(t):
                budget_tests.append((n, t))
    ok = None
    why = "budget guard not recognised"
    if writes and not budget_tests:
        ok = False
        why = ("no test compares the block's unmasked patches with the remaining budget before the mask is written: a block can "
               "mask more patches than the sampled ratio allows (the upper mask ratio can be exceeded)")
    if writes and budget_tests:
        ok = True
        for w in writes:
            guarded = False
            for n, t in budget_tests:
                # on the path to the write the block's unmasked count <= remaining:  not (unmasked > remaining)
                for t_, lab in mcfg.control_predicates(w):
                    if t_ == n:
                        cond = t if lab else negate(t)
                        p = term_to_poly(cond[1])
                        # cond: unmasked - remaining <= 0
                        if cond[0] == "le" and p.coeff_of(("param", ps[2])).const_value() == -1:
                            guarded = True
            ok = ok and guarded
        why = "every mask write is reached only when the block's unmasked patches fit the remaining budget" if ok else \
            "a write to the mask is reachable without the test 'unmasked patches in block <= remaining budget': more patches are " \
            "masked than the sampled ratio allows (the upper mask ratio can be exceeded)"
    rep.decide(ok, "G8.dino-budget", mb, "write-guard", why, why, clause="C17.2")
    # delta counts exactly the new patches
    rets = [t for _, t in ma.returns() if t is not None]
    dvar = rets[0][1] if rets and rets[0][0] == "var" else None
    incs = [m for m, op, e in ma.updates(dvar or "", ops=(ast.Add,))]
    ok = bool(writes) and len(incs) == len(writes) and all(ma.conds_at(i) == ma.conds_at(w) for i, w in zip(sorted(incs), sorted(writes))) \
        and all(any(c[0] == "eq" for c in ma.conds_at(w)) for w in writes)
    rep.decide(ok, "G8.dino-budget", mb, "count-new-patches", "the returned count grows by one exactly where an unmasked patch is set",
               "the returned count is not incremented exactly where a previously unmasked patch is set: the remaining-budget "
               "accounting of _generate_mask drifts", clause="C17.2")
    n_b = block_bounds(prog, rep, C, mb, "C17.3")
    rep.floor("block offsets checked (DINO)", n_b, 2)


def _returns_batch(rep: Report, fa: FA, fi: FuncInfo, clause: str):
    rep.rule("G9.batch-pass-through", "collate returns its batch argument itself on every path and never assigns to it")
    ps = fi.params()
    rets = fa.returns()
    ok = bool(rets) and all(t == ("param", ps[1]) for _, t in rets)
    stores = [n for n, var, val in fa.stores() if var == ps[1] or var == f"{ps[1]}[]"]
    rep.decide(ok and not stores, "G9.batch-pass-through", fi, "returns-batch", "batch is returned unmodified",
               "collate re-binds / writes its batch or returns something else: the batch data does not pass through unchanged",
               clause=clause)


def ijepa(prog: Program, rep: Report):
    prog = prog.raw  # the _sample_* helpers are summarised as units (which generator they draw from), not inlined
    C = prog.cls("KDIjepaMaskCollator")
    rep.rule("G4.step-seeded-sizes", "KDIjepaMaskCollator: the generator that draws the block sizes is torch.Generator().manual_seed("
             "self.step()); _sample_block_size draws only from the generator it is given; step() increments the shared counter "
             "and reads it back while holding its lock; both sizes of a batch come from that one generator - block sizes depend "
             "on the step counter (and the configuration) only")
    rep.rule("G9.own-complements", "the encoder masks of a sample are constrained by the complements of that same sample's predictor "
             "masks: the complement list is created inside the per-sample loop, before the predictor loop, and is what is passed "
             "as acceptable_regions; every predictor / encoder mask updates the running minimum length, and all masks are cut to "
             "that minimum before collation")
    co = C.methods.get("collate")
    rep.require(co is not None, "anchor-missing: KDIjepaMaskCollator.collate")
    fa = fa_of(prog, co)
    cfg = fa.cfg
    rep.analysed_add("functions", f"{co.module.relpath}:{co.qualname}")
    # sizes
    sz = [(n, c) for n, c in fa.calls_named("_sample_block_size")]
    ok = len(sz) >= 2
    gens = set()
    for n, c in sz:
        g = next((k.value for k in c.keywords if k.arg == "generator"), c.args[0] if c.args else None)
        gt = fa.sym.term(g, n) if g is not None else None
        seed = torch_generator_seed(gt) if gt is not None else None
        if seed is None and gt is not None and gt[0] == "var":
            for d in gt[2]:
                val = cfg.def_value(d, gt[1])
                if val is not None:
                    seed = torch_generator_seed(fa.sym.term(val, d))
            gens.add(gt)
        good = seed is not None and (seed == ("call", ("self", "step"), (), ()) or (
            seed[0] == "var" and all(cfg.def_value(d, seed[1]) is not None and fa.sym.term(cfg.def_value(d, seed[1]), d)[:2] in (
                ("call", ("self", "step")), ("call", ("attr", ("param", fa.self_name), "step"))) for d in seed[2])) or (
            seed[0] == "call" and seed[1] in (("self", "step"), ("attr", ("param", fa.self_name), "step"))))
        ok = ok and good
    rep.decide(ok, "G4.step-seeded-sizes", co, "generator", "block sizes are drawn from a generator seeded with self.step()",
               "the block-size generator is not torch.Generator().manual_seed(self.step()): ranks / workers no longer agree on the "
               "block sizes of a step, or the sizes depend on something besides the step counter", clause="C17.4")
    bs = C.methods.get("_sample_block_size")
    if bs is not None:
        ba = fa_of(prog, bs)
        rep.analysed_add("functions", f"{bs.module.relpath}:{bs.qualname}")
        bad = []
        for n, c in ba.calls():
            t = ba.sym.term(c, n)
            f = t[1]
            if f[0] == "attr" and f[1] == ("self", "rng"):
                bad.append(ast.unparse(c)[:50])
            if f[0] == "global" and f[1].startswith("torch.rand") and not any(k == "generator" and v == ("param", "generator") for k, v in t[3]):
                bad.append(ast.unparse(c)[:50])
            if f[0] == "global" and (f[1].startswith("numpy.random.") or f[1].startswith("random.")):
                bad.append(ast.unparse(c)[:50])
        rep.decide(not bad, "G4.step-seeded-sizes", bs, "draws", "draws only from the generator argument",
                   f"_sample_block_size draws from another source ({'; '.join(bad[:2])}): block sizes differ between processes that "
                   f"share a step", clause="C17.4")
    st = C.methods.get("step")
    if st is not None:
        sa = fa_of(prog, st)
        rep.analysed_add("functions", f"{st.module.relpath}:{st.qualname}")
        withs = [n for n, nd in sa.cfg.nodes.items() if nd.kind == "with" and any(
            isinstance(y, ast.Attribute) and y.attr == "get_lock" for y in ast.walk(nd.ast.items[0].context_expr))]
        incs = [n for n, nd in sa.cfg.nodes.items() if nd.kind == "stmt" and (
            (isinstance(nd.ast, ast.AugAssign) and isinstance(nd.ast.target, ast.Attribute) and nd.ast.target.attr == "value") or
            (isinstance(nd.ast, ast.Assign) and isinstance(nd.ast.targets[0], ast.Attribute) and nd.ast.targets[0].attr == "value"
             and isinstance(nd.ast.value, ast.BinOp)))]
        reads = [n for n, var, val in sa.stores() if isinstance(val, ast.Attribute) and val.attr == "value"]
        ok = bool(withs) and bool(incs) and bool(reads)
        if ok:
            inside = sa.cfg.nodes_inside(sa.cfg.nodes[withs[0]].ast.body)
            ok = all(n in inside for n in incs + reads) and sa.cfg.reachable(incs[0], reads[0])
            rets = [cfgt for _, cfgt in sa.returns()]
            ok = ok and bool(rets)
        rep.decide(ok, "G4.step-seeded-sizes", st, "locked-increment", "counter incremented and read back under its lock",
                   "step() does not increment and read the shared counter while holding its lock: two workers can obtain the same "
                   "or a skipped step", clause="C17.4")
    # complements of the same sample
    cons = [(n, c) for n, c in fa.calls_named("_sample_block_mask_constrained")]
    ok = None
    why = "constrained sampling call not found"
    if cons:
        n, c = cons[0]
        ar = next((k.value for k in c.keywords if k.arg == "acceptable_regions"), c.args[1] if len(c.args) > 1 else None)
        av = _n(ar)
        loops = [t_ for t_, lab in cfg.control_predicates(n) if cfg.nodes[t_].kind == "next" and lab is True]
        ok = False
        why = "acceptable_regions is not a per-sample list of this sample's predictor complements"
        if av and len(loops) >= 2:
            outer = loops[0]
            body = cfg.nodes_inside(cfg.nodes[outer].owner.body)
            defs = [m for m, var, val in fa.stores() if var == av]
            inside = [m for m in defs if m in body]
            fresh = bool(inside) and all(m in body for m in defs)
            apps = [m for m, cc in fa.calls_named("append") if _n(cc.func.value) == av and m in body]
            comp_src = False
            for m, cc in fa.calls_named("append"):
                if _n(cc.func.value) == av and cc.args:
                    nm = _n(cc.args[0])
                    # the appended value is the second result of _sample_block_mask
                    for d, var, val in fa.stores():
                        stn = cfg.nodes[d].ast
                        if isinstance(stn, ast.Assign) and isinstance(stn.targets[0], ast.Tuple) and len(stn.targets[0].elts) == 2 \
                                and _n(stn.targets[0].elts[1]) == nm and isinstance(stn.value, ast.Call) \
                                and isinstance(stn.value.func, ast.Attribute) and stn.value.func.attr == "_sample_block_mask":
                            comp_src = True
            before = bool(apps) and all(not cfg.reachable(n, a, avoid={outer}) for a in apps)
            ok = fresh and comp_src and before
            why = "the complement list is rebuilt for every sample from that sample's predictor masks and constrains its encoder " \
                  "masks" if ok else "; ".join(x for x in (
                      None if fresh else f"'{av}' is not re-created inside the per-sample loop: encoder masks are constrained by "
                                         f"other samples' predictor blocks (and may overlap their own)",
                      None if comp_src else f"'{av}' does not collect the complements returned by _sample_block_mask",
                      None if before else "the encoder masks are sampled before this sample's predictor complements are complete") if x)
    rep.decide(ok, "G9.own-complements", co, "acceptable-regions", why, why, clause="C17.4")
    # common length: the running minima are the locals defined as v = min(v, len(<mask>)) (found by dataflow, not by name)
    minima = []
    for n1, var, val in fa.stores():
        if val is not None and isinstance(val, ast.Call) and _n(val.func) == "min" and len(val.args) == 2 and _n(val.args[0]) == var \
                and isinstance(val.args[1], ast.Call) and _n(val.args[1].func) == "len" and val.args[1].args:
            minima.append((n1, var, _n(val.args[1].args[0])))
    coll = [n3 for n3, c3 in fa.calls_named("default_collate")]
    cut_vars = set()
    for n2 in cfg.nodes:
        for y in cfg.walk_node(n2):
            if isinstance(y, ast.Subscript) and isinstance(y.slice, ast.Slice) and y.slice.lower is None and _n(y.slice.upper) \
                    and any(cfg.reachable(n2, co_) for co_ in coll):
                cut_vars.add(_n(y.slice.upper))
    rep.floor("running minima / common cut lengths (one per mask kind)", len(cut_vars | {v for _, v, _ in minima}), 2)
    for cv in sorted(cut_vars - {v for _, v, _ in minima}):
        rep.bad("G9.own-complements", co, f"common-length:unmaintained:{len(cut_vars)}", f"the masks are cut to '{cv}', which is "
                f"never updated with the lengths of the sampled masks (no '{cv} = min({cv}, len(mask))'): masks shorter than it "
                f"keep their own length and cannot be stacked to one common size", clause="C17.4")
    for k, (n1, var, mname) in enumerate(sorted(minima)):
        cuts = [n2 for n2 in cfg.nodes for y in cfg.walk_node(n2) if isinstance(y, ast.Subscript) and isinstance(y.slice, ast.Slice)
                and y.slice.lower is None and _n(y.slice.upper) == var]
        apps = [m for m, cc in fa.calls_named("append") if cc.args and _n(cc.args[0]) == mname and fa.conds_at(m) == fa.conds_at(n1)
                and (cfg.reachable(m, n1) or cfg.reachable(n1, m))]
        upd_ok = mname is not None and bool(apps)
        # the list that is cut with this minimum is the list the masks measured by it were collected into
        cut_before = bool(cuts) and bool(coll) and any(cfg.reachable(cu, co_) for cu in cuts for co_ in coll)
        same_list = True
        if apps and cuts:
            inner_list = _n(fa.calls_named("append")[0][1].func.value)
            coll_lists = set()
            for m, cc in fa.calls_named("append"):
                if m in apps:
                    coll_lists.add(_n(cc.func.value))
            # lists the per-sample lists are appended to
            outer = {_n(cc2.func.value) for m2, cc2 in fa.calls_named("append") if cc2.args and _n(cc2.args[0]) in coll_lists}
            cut_src = set()
            for cu in cuts:
                for y in cfg.walk_node(cu):
                    if isinstance(y, ast.comprehension):
                        cut_src |= {z.id for z in ast.walk(y.iter) if isinstance(z, ast.Name)}
            same_list = bool(outer & cut_src) if outer and cut_src else True
        rep.decide(upd_ok and cut_before and same_list, "G9.own-complements", co, f"common-length:{k}",
                   "running minimum over every mask of this kind, all of them cut to it before collation",
                   "; ".join(x for x in (None if upd_ok else f"'{var}' is not updated for every mask that is collected",
                                         None if cut_before else f"the masks are not cut to '{var}' before collation",
                                         None if same_list else f"the masks cut to '{var}' are not the masks it was computed "
                                                                f"from (another kind's minimum is used)") if x) +
                   ": masks of one kind lose their common size", clause="C17.4")
    _returns_batch(rep, fa, co, "C17.5")
    n_b = 0
    for name in ("_sample_block_mask", "_sample_block_mask_constrained"):
        f = C.methods.get(name)
        if f is not None:
            rep.analysed_add("functions", f"{f.module.relpath}:{f.qualname}")
            n_b += block_bounds(prog, rep, C, f, "C17.3")
    rep.floor("block offsets checked (I-JEPA)", n_b, 4)
    # the size clamp that makes the offset ranges non-empty
    if bs is not None:
        ba = fa_of(prog, bs)
        rets = [t for _, t in ba.returns() if t is not None]
        ok = None
        if len(rets) == 1 and rets[0][0] == "tuple" and len(rets[0][1]) == 2:
            ok = True
            dims = grid_dims(prog, C)
            for comp, dim in zip(rets[0][1], dims or ()):
                srcs = [comp]
                if comp[0] == "var":
                    srcs = [ba.sym.term(ba.cfg.def_value(d, comp[1]), d) for d in comp[2] if ba.cfg.def_value(d, comp[1]) is not None]
                good = all(s[0] == "call" and s[1] == ("global", "min") and any(
                    term_to_poly(a) == term_to_poly(dim) - Poly.const(1) for a in s[2]) for s in srcs) and bool(srcs)
                ok = ok and good
        rep.decide(ok, "G6.block-bounds", bs, "size-clamp", "block height / width are clamped to grid extent - 1",
                   "a block size is not clamped to (grid extent - 1): rng.integers(0, extent - size) gets an empty range or the "
                   "block leaves the grid", clause="C17.3")
