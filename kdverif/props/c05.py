"""C05 - interleaved scheduler: side passes run exactly when due, whole, and unmixed (DESIGN §4 C05)."""
from __future__ import annotations

import ast
from typing import Dict, List, Optional, Set, Tuple

from ..core import Report
from ..fa import fa_of
from ..model import Program
from ..rules import names
from ..sym import Poly, Term, contains, leaves, negate, show, subterms, term_to_poly
from .sampler_common import FILE, GiveUp, PassLoop, Roles, formula_atoms, formula_eval, path_condition, split_eq, yields_at

UNITS = {"every_n_epochs": "epoch", "every_n_updates": "update", "every_n_samples": "sample"}
NONE = ("const", None)


def _is_not_none(t: Term, inner_pred) -> bool:
    """t is 'X is not None' with inner_pred(X)."""
    if t[0] == "not" and t[1][0] == "is":
        a, b = t[1][1]
        for x, y in ((a, b), (b, a)):
            if x == NONE and inner_pred(y):
                return True
    return False


def _cfg_attr(t: Term, cfg_term: Term) -> Optional[str]:
    if t[0] == "attr" and t[1] == cfg_term:
        return t[2]
    return None


def pass_facts(R: Roles, p: PassLoop) -> Dict[str, object]:
    """Normal-form summary of one 'iterate config.sampler' loop (used for the rule itself and for the
    sibling comparison between _training_loop and _eval_loop)."""
    fa, cfg = R.fa, R.fa.cfg
    facts: Dict[str, object] = {}
    idx = ("var", p.idx_var, frozenset({p.next_node}))
    # config pairing
    cfg_from_enum = R.cfg_next is not None and p.cfg_term == ("var", R.cfg_var, frozenset({R.cfg_next}))
    facts["config-of-enclosing-loop"] = cfg_from_enum
    offs = []
    flags = []
    for y in p.yields:
        yv = yields_at(fa, y)[0].value
        v = term_to_poly(fa.sym.term(yv.elts[1], y))
        rest = v - Poly.atom(idx)
        ok_idx = v.coeff_of(idx).const_value() == 1 and v.degree_in(idx) == 1
        atoms = list(rest.atoms())
        off = None
        if ok_idx and len(rest.terms) == 1 and len(atoms) == 1 and rest.coeff_of(atoms[0]).const_value() == 1:
            off = atoms[0]
        offs.append((y, off, show(("poly", v.key())) if off is None else show(off)))
        flag = fa.sym.term(yv.elts[0], y)
        cond = None
        if flag[0] == "const" and isinstance(flag[1], bool):
            nt = R.nearest_test(y)
            if nt is not None and nt[0] in R.loop_body_nodes(p.next_node):
                c = R.term_at(nt[0]) if nt[1] else negate(R.term_at(nt[0]))
                cond = c if flag[1] else negate(c)
        else:
            cond = flag
        flags.append((y, cond))
    facts["offsets"] = offs
    facts["flags"] = flags
    return facts


def run(prog: Program, rep: Report, tier: str):
    R = Roles(prog, "_training_loop")
    fa, cfg, fi = R.fa, R.fa.cfg, R.fi
    rep.analysed_add("functions", f"{FILE}:{fi.qualname}")
    rep.trusted += ["constructor asserts: every interval is None or a positive int; at least one interval per config",
                    "iterating a config's sampler yields len(sampler) valid indices of its data source",
                    "torch ConcatDataset.cumulative_sizes is the prefix sum of the part lengths in list order"]
    rep.not_decided += ["the modulo / floor-division arithmetic of 'reached or crossed' beyond its shape and the unit of "
                        "its operands", "batch contents at the DataLoader level with worker processes"]
    if R.main_iter is None and R.chunk_source_node is not None:
        rep.rule("G8.main-loop-form", "the decision and pass rules of the training loop are read off the per-index loop 'for i in "
                 "self.main_sampler'; a loop that takes the main indices in chunks from one iterator is not decided (the "
                 "evaluation loop, the tables and the dispatch still are)")
        rep.unk("G8.main-loop-form", fi, "chunked-main-loop", "main indices are taken in chunks from iter(self.main_sampler): "
                "training-loop rules not decided", line=R.line(R.chunk_source_node), clause="C05.1")
        return _rest_of_run(prog, rep, tier, None)
    rep.require(R.main_iter is not None and R.cfg_iter is not None and R.passes,
                "anchor-missing: main loop / config loop / pass loop in _training_loop")
    N = R.main_next
    E, U, S = R.counter_from("start_epoch"), R.counter_from("start_update"), R.counter_from("start_sample")
    rep.require(E and U and S, "anchor-missing: epoch/update/sample counters initialised from self.start_*")
    counters = {"epoch": E, "update": U, "sample": S}
    incU = [n for n, c in R.increments(U)]
    incE = [n for n, c in R.increments(E)]
    rep.require(incU, "anchor-missing: increment of the update counter")
    T2, T2lab = R.nearest_test(incU[0])
    upd_entry = cfg.out_edge(T2, T2lab)
    CN = R.cfg_next
    cfg_term = ("var", R.cfg_var, frozenset({CN}))
    cfg_body = R.loop_body_nodes(CN)
    # (a fast path may spell the pass twice, in exclusive branches: every spelling is judged)
    P = R.passes[0]

    # ---- 1. decision ------------------------------------------------------------------------------------------
    rep.rule("G4.decision-function", "the condition under which a config's pass runs - the disjunction, over all paths from the "
             "start of a config iteration to the pass loop, of the branch conditions on the path, boolean locals replaced by "
             "what the path stored in them - is, as a boolean function of its atomic tests, the specified one: OR over the "
             "interval kinds of (config.every_n_<unit> is not None AND <unit test>), the unit tests being 'epoch-end AND "
             "epoch % n == 0', 'update % n == 0' and 'sample % n == 0 OR last // n < now // n'.  Atomic tests that pair a "
             "counter with another unit's interval, compare the remainder with a non-zero constant or swap the operands are "
             "reported as such; a decision that depends on tests of unrecognised shape is not decided")
    guard = None
    for t_, lab in cfg.control_predicates(P.iter_node):
        if t_ in cfg_body and cfg.nodes[t_].kind == "test":
            guard = (t_, lab)
    if guard is None:
        rep.unk("G4.decision-function", fi, "decision", "no test inside the config loop guards the pass (the decision is taken "
                "elsewhere): not decided", clause="C05.1")
    upd_cond = R.term_at(T2) if T2lab else negate(R.term_at(T2))
    end_atoms = [x for x in (upd_cond[1] if upd_cond[0] == "or" else [upd_cond]) if x[0] == "eq"
                 and not any(lf == ("self", "batch_size") or (lf[0] == "var" and lf[1] == "self.batch_size") for lf in leaves(x))]
    if guard is not None:
        _decision_function(rep, R, P, cfg_term, counters, end_atoms, guard)

    # ---- 2. position --------------------------------------------------------------------------------------------
    rep.rule("G8.pass-position", "the config loop lies inside the update block (only after an update), after the update / "
             "epoch increments (so 'reached by that update' sees the new counters), on every path from the update to the "
             "next main index or the stopping test; it visits self.configs in order; the bookkeeping 'sample counter at "
             "the last update' is refreshed only after the config loop, on every path")
    in_block = (T2, T2lab) in cfg.control_predicates(R.cfg_iter)
    after_inc = all(R.within_iteration(N, upd_entry, R.cfg_iter, {n}) for n in incU) and not any(
        R.same_iteration_path(N, R.cfg_iter, n) for n in incU + incE) and all(
        not R.fa.cfg.reachable(upd_entry, R.cfg_iter, avoid={n, N}, within=R.loop_body_nodes(N))
        or _guarded_inc(R, n) for n in incE)
    every = R.iteration_ends_through(N, upd_entry, {R.cfg_iter})
    rep.decide(in_block and after_inc and every, "G8.pass-position", fi, "config-loop",
               "config loop: inside the update block, after the increments, on every path",
               "; ".join(x for x in (None if in_block else "config loop not inside the update block (passes can start "
                                                           "between updates)",
                                     None if after_inc else "an update/epoch increment does not precede the decision",
                                     None if every else "a path from the update to the next index skips the config loop")
                         if x), line=R.line(R.cfg_iter), clause="C05.2")
    it = fa.sym.term(R.cfg_loop.iter, R.cfg_iter)
    in_order = it in (("self", "configs"), ("call", ("global", "enumerate"), (("self", "configs"),), ())) or (
        it[0] == "call" and it[1] == ("global", "zip") and not it[3] and ("self", "configs") in it[2]
        and all(a == ("self", "configs") or a[0] == "self" for a in it[2]))
    rep.decide(in_order, "G8.pass-position", fi, "config-order", "iterates self.configs in list order",
               f"iterates {show(it)}", line=R.line(R.cfg_iter), clause="C05.2", nontrivial=False)
    lasts = R.snapshots_of(S)
    for L in lasts:
        refresh = [n for n, val, st in R.defs_of(L) if val is not None and fa.sym.term(val, n)[:2] == ("var", S)]
        ok = bool(refresh) and all(not R.same_iteration_path(N, n, R.cfg_iter) for n in refresh) and \
            R.iteration_ends_through(N, upd_entry, set(refresh)) and all(
                (T2, T2lab) in cfg.control_predicates(n) for n in refresh)
        used = any(lf[0] == "var" and lf[1] == L for n in cfg_body for e in cfg.all_exprs(n)
                   for lf in leaves(fa.sym.term(e, n))) if False else True
        rep.decide(ok, "G8.pass-position", fi, f"refresh:{L}",
                   f"'{L}' takes the sample counter after the config loop of every update",
                   f"'{L}' is refreshed before the config loop, outside the update block, or not after every update: "
                   f"crossed every_n_samples boundaries are missed or reported twice",
                   line=R.line(refresh[0]) if refresh else fi.node.lineno, clause="C05.2")

    # ---- 3. offsets / flags / whole pass ---------------------------------------------------------------------------
    rep.rule("G5.offset-pairing", "every index yielded inside a pass is index_offsets[k] + i, i being the current element of "
             "the sampler of the k-th config of the same enumerate(self.configs) step")
    rep.rule("G8.pass-whole", "inside a pass every sampler element is yielded exactly once (no break / early exit / skip); "
             "its in-pass counter starts at 0 for every pass, grows by one per element before the yield; the batch-closing "
             "flag is 'counter % (config.batch_size or self.batch_size) == 0 or counter == len(config.sampler)'")
    facts_train = [_check_pass(rep, R, p_, "train" if i_ == 0 else f"train#{i_}") for i_, p_ in enumerate(R.passes)]
    _rest_of_run(prog, rep, tier, facts_train)


def _rest_of_run(prog: Program, rep: Report, tier: str, facts_train):
    R2 = Roles(prog, "_eval_loop")
    rep.analysed_add("functions", f"{FILE}:{R2.fi.qualname}")
    if "G8.pass-whole" not in rep.rules:
        rep.rule("G5.offset-pairing", "every index yielded inside a pass is index_offsets[k] + i, i being the current element of "
                 "the sampler of the k-th config of the same enumerate(self.configs) step")
        rep.rule("G8.pass-whole", "inside a pass every sampler element is yielded exactly once; the batch-closing flag is "
                 "'counter % (config.batch_size or self.batch_size) == 0 or counter == len(config.sampler)'")
    rep.require(len(R2.passes) >= 1 and R2.cfg_iter is not None, "anchor-missing: config / pass loop in _eval_loop")
    facts_eval = [_check_pass(rep, R2, p_, "eval" if i_ == 0 else f"eval#{i_}") for i_, p_ in enumerate(R2.passes)]
    rep.rule("G9.eval-vs-train", "the pass in _eval_loop and the pass in _training_loop have equal summaries (offset term, "
             "flag condition up to the names of their locals)")
    key_ = lambda fs: sorted(repr(f_) for f_ in fs)
    rep.decide(None if facts_train is None else key_(facts_train) == key_(facts_eval), "G9.eval-vs-train", R2.fi, "summary",
               "equal summaries", f"summaries differ: train {facts_train} vs eval {facts_eval}", clause="C05.3")
    # eval loop: every config, unconditionally
    rep.rule("G8.eval-all", "__iter__ routes a zero budget to _eval_loop (and everything else to _training_loop); _eval_loop "
             "iterates every config of self.configs once, in order, under no further condition")
    c2 = R2.fa.cfg
    guards = [t for t, lab in c2.control_predicates(R2.passes[0].iter_node) if c2.nodes[t].kind == "test"]
    if guards and len(R2.passes) > 1 and c2.must_pass({p_.iter_node for p_ in R2.passes}, src=R2.body_entry(R2.cfg_next),
                                                      dst=R2.cfg_next):
        guards = []  # the pass is spelled several times in exclusive branches: every path runs one of them
    it2 = R2.fa.sym.term(R2.cfg_loop.iter, R2.cfg_iter)
    ok = not guards and (it2 in (("self", "configs"), ("call", ("global", "enumerate"), (("self", "configs"),), ())) or (
        it2[0] == "call" and it2[1] == ("global", "zip") and not it2[3] and ("self", "configs") in it2[2]
        and all(a_[0] == "self" for a_ in it2[2]))) \
        and not [n for n, nd in c2.nodes.items() if nd.kind == "stmt" and isinstance(nd.ast, (ast.Break, ast.Return,
                                                                                              ast.Continue))]
    rep.decide(ok, "G8.eval-all", R2.fi, "unconditional", "every config is iterated unconditionally, in order",
               "a config's pass in _eval_loop is conditional, out of order, or the loop can exit early",
               line=R2.line(R2.cfg_iter), clause="C05.6")
    _check_iter_dispatch(prog, rep)

    # ---- 4. offset table vs concat order ------------------------------------------------------------------------------
    _check_tables(prog, rep)
    # ---- 5. collator dispatch / concat getitem ---------------------------------------------------------------------------
    _check_dispatch(prog, rep)
    names.check(prog, rep, [FILE], clause="C05.G1", floor=10)


def _decision_function(rep: Report, R: Roles, P: PassLoop, cfg_term: Term, counters, end_atoms, guard):
    fa, cfg, fi = R.fa, R.fa.cfg, R.fi
    CN = R.cfg_next
    body = R.loop_body_nodes(CN)
    snaps = set(R.snapshots_of(counters["sample"]))
    try:
        D, n_paths = path_condition(fa, R.body_entry(CN), {p_.iter_node for p_ in R.passes}, body, barrier={CN})
    except GiveUp as e:
        rep.unk("G4.decision-function", fi, "decision", f"not decided: {e}", line=R.line(guard[0]), clause="C05.1")
        return
    paths = [None] * n_paths
    # ---- atoms ----------------------------------------------------------------------------------------------------------
    atoms: List[Term] = formula_atoms(D)

    def classify(t: Term):
        """-> (role, unit attr or None, problem or None); roles: none / mod / cross / end / other"""
        if t[0] == "is":
            a, b2 = t[1]
            for x, y in ((a, b2), (b2, a)):
                if x == NONE and _cfg_attr(y, cfg_term) in UNITS:
                    return "none", _cfg_attr(y, cfg_term), None
        if t in end_atoms:
            return "end", None, None
        if t[0] == "var" and "." not in t[1] and any(d in body for d in t[2]):
            # a boolean local that this config iteration reads before storing into it: what reaches it is the store of an
            # earlier config's iteration (or of the previous update)
            return "other", None, (f"the decision reads '{t[1]}' as the previous config iteration left it (it is not reset at the "
                                   f"start of every config iteration): a verdict leaks from one config to the next")
        used_attrs = {_cfg_attr(x, cfg_term) for x in subterms(t)} & set(UNITS)
        used_ctr = {role for role, var in counters.items() for lf in leaves(t) if lf[0] == "var" and lf[1] == var}
        if not used_attrs:
            return "other", None, None
        if len(used_attrs) > 1:
            return "other", None, f"mixes {', '.join(sorted(used_attrs))} in one test"
        ua = next(iter(used_attrs))
        unit = UNITS[ua]
        attr = ("attr", cfg_term, ua)
        if used_ctr - {unit}:
            return "other", ua, f"tests the {', '.join(sorted(used_ctr - {unit}))} counter against config.{ua} (an interval in {unit}s)"
        if t[0] == "eq":
            pl = term_to_poly(t[1])
            mods = [x for x in pl.atoms() if x[0] == "binop" and x[1] == "%" and contains(x, attr)]
            if len(mods) == 1:
                m = mods[0]
                shape = m[2][0] == "var" and m[2][1] == counters[unit] and m[3] == attr
                zero = len(pl.terms) == 1 and pl.coeff_of(m).const_value() in (1, -1)
                if shape and zero:
                    return "mod", ua, None
                return "other", ua, (f"the {ua} test is not '{unit} counter % config.{ua} == 0' (remainder compared with a non-zero "
                                     f"constant, or operands swapped)")
        if t[0] == "lt" and unit == "sample":
            pl = term_to_poly(t[1])
            divs = [x for x in pl.atoms() if x[0] == "binop" and x[1] == "//" and x[3] == attr]
            if len(divs) == 2 and len(pl.terms) == 2:
                now = [d for d in divs if d[2][0] == "var" and d[2][1] == counters[unit]]
                last = [d for d in divs if d not in now]
                if len(now) == 1 and len(last) == 1 and pl.coeff_of(now[0]).const_value() == -1 and \
                        pl.coeff_of(last[0]).const_value() == 1 and last[0][2][0] == "var" and last[0][2][1] in snaps:
                    return "cross", ua, None
                return "other", ua, "the boundary-crossing test is not 'last // n < now // n' with the sample counter at the last update"
        return "other", ua, None

    roles = {}
    for t in atoms:
        roles[t] = classify(t)

    ev = formula_eval

    if len(atoms) > 14:
        rep.unk("G4.decision-function", fi, "decision", f"the decision tests {len(atoms)} different atomic conditions: not decided",
                line=R.line(guard[0]), clause="C05.1")
        return
    import itertools
    # which atoms does D depend on?
    rows = list(itertools.product((False, True), repeat=len(atoms)))
    table = {}
    for row in rows:
        table[row] = ev(D, dict(zip(atoms, row)))
    depends = []
    for i, t in enumerate(atoms):
        if any(table[row] != table[row[:i] + (not row[i],) + row[i + 1:]] for row in rows):
            depends.append(t)
    problems = [f"{pb} [{show(t)[:70]}]" for t in depends for (_r, _u, pb) in [roles[t]] if pb]
    unknown = [t for t in depends if roles[t][0] == "other" and not roles[t][2]]
    if problems:
        rep.bad("G4.decision-function", fi, "decision", "; ".join(sorted(set(problems))[:3]), line=R.line(guard[0]), clause="C05.1")
        return
    if unknown:
        rep.unk("G4.decision-function", fi, "decision", "the decision depends on test(s) of unrecognised shape: " + "; ".join(
            show(t)[:60] for t in unknown[:3]), line=R.line(guard[0]), clause="C05.1")
        return
    by_role = {}
    for t in depends:
        r, ua, _ = roles[t]
        by_role.setdefault((r, ua), []).append(t)
    dup = {k: v for k, v in by_role.items() if len(v) > 1}
    if dup:
        rep.unk("G4.decision-function", fi, "decision", "several different tests play the same role (" + ", ".join(
            f"{k[0]}:{k[1]}" for k in dup) + "): not decided", line=R.line(guard[0]), clause="C05.1")
        return

    def spec(val) -> bool:
        def g(role, ua, default=False):
            ts = by_role.get((role, ua))
            return val[ts[0]] if ts else default
        out = False
        for ua, unit in UNITS.items():
            if g("none", ua, True):
                continue  # interval not configured
            if unit == "epoch":
                out = out or (g("end", None) and g("mod", ua))
            elif unit == "update":
                out = out or g("mod", ua)
            else:
                out = out or g("mod", ua) or g("cross", ua)
        return out
    missing = [ua for ua in UNITS if ("none", ua) not in by_role]
    if missing:
        rep.bad("G4.decision-function", fi, "decision", f"the decision does not depend on whether config.{missing[0]} is set: configs "
                f"with that interval kind never run (or run regardless of it)", line=R.line(guard[0]), clause="C05.1")
        return
    if ("end", None) not in by_role:
        rep.bad("G4.decision-function", fi, "decision", "the decision does not depend on the epoch-end condition: the every_n_epochs "
                "verdict fires after every update of an epoch whose number is a multiple of the interval", line=R.line(guard[0]),
                clause="C05.1")
        return
    witness = None
    for row in rows:
        val = dict(zip(atoms, row))
        if table[row] != spec(val):
            # prefer witnesses that set as few atoms as possible
            if witness is None or sum(row) < sum(witness[0]):
                witness = (row, table[row], spec(val))

    def words(row):
        out = []
        val = dict(zip(atoms, row))
        for ua, unit in UNITS.items():
            isnone = val[by_role[("none", ua)][0]]
            if isnone:
                continue
            bits = []
            if unit == "epoch":
                bits.append("at an epoch end" if val[by_role[("end", None)][0]] else "not at an epoch end")
            for role, text in (("mod", f"{unit} % n == 0"), ("cross", "boundary crossed")):
                ts = by_role.get((role, ua))
                if ts:
                    bits.append(text if val[ts[0]] else f"not {text}")
            out.append(f"{ua} set ({', '.join(bits)})")
        return "; ".join(out) or "no interval set"
    if witness is None:
        rep.ok("G4.decision-function", fi, "decision", f"the pass condition over {len(depends)} atomic tests ({len(paths)} paths) equals "
               f"the specified decision on all {len(rows)} valuations", line=R.line(guard[0]), clause="C05.1")
    else:
        row, got, want = witness
        rep.bad("G4.decision-function", fi, "decision", f"with {words(row)} the pass {'must run' if want else 'must not run'} but the "
                f"code {'runs it' if got else 'skips it'}", line=R.line(guard[0]), clause="C05.1")


def _guarded_inc(R, n):
    return True


def _interval_form(verdict_terms, cfg_term, unit_attr, counter, R, S) -> Optional[bool]:
    """True: recognised correct form; False: recognised wrong form; None: unrecognised."""
    attr = ("attr", cfg_term, unit_attr)
    found = None
    for vt in verdict_terms:
        for x in subterms(vt):
            if not x:
                continue
            if x[0] == "eq":  # ('ne' forms stem from the negated arms of an if / elif chain: neutral)
                p = term_to_poly(x[1])
                mods = [a for a in p.atoms() if a[0] == "binop" and a[1] == "%" and contains(a, attr)]
                if mods:
                    m = mods[0]
                    shape = m[2][0] == "var" and m[2][1] == counter and m[3] == attr
                    zero = len(p.terms) == 1 and p.coeff_of(m).const_value() in (1, -1)
                    if x[0] == "eq" and shape and zero:
                        found = True if found is None else found
                    else:
                        found = False
            if x[0] in ("lt", "le"):
                p = term_to_poly(x[1])
                divs = [a for a in p.atoms() if a[0] == "binop" and a[1] == "//" and a[3] == attr]
                if len(divs) == 2 and len(p.terms) == 2:
                    # last // n - now // n < 0
                    now = [d for d in divs if d[2][0] == "var" and d[2][1] == counter]
                    last = [d for d in divs if d not in now]
                    if len(now) == 1 and len(last) == 1 and x[0] == "lt" and p.coeff_of(now[0]).const_value() == -1 \
                            and p.coeff_of(last[0]).const_value() == 1 and last[0][2][0] == "var" \
                            and last[0][2][1] in R.snapshots_of(S):
                        found = True if found is None else found
                    else:
                        found = False
    return found


def _check_pass(rep: Report, R: Roles, p: PassLoop, tag: str):
    fa, cfg, fi = R.fa, R.fa.cfg, R.fi
    facts = pass_facts(R, p)
    kvar = R.cfg_idx_var
    want_off = ("sub", ("self", "index_offsets"), ("var", kvar, frozenset({R.cfg_next}))) if kvar else None
    if want_off is None:
        # for offset, config in zip(self.index_offsets, self.configs): the offset at the position of the current config
        zv = [v for v, seq in R.zip_with.items() if seq == ("self", "index_offsets")]
        if len(zv) == 1:
            want_off = ("var", zv[0], frozenset({R.cfg_next}))
    rep.decide(bool(facts["config-of-enclosing-loop"]), "G5.offset-pairing", fi, "sampler-of-current-config",
               "the iterated sampler belongs to the config of the current enumerate step",
               f"the pass iterates {show(p.cfg_term)}.sampler, which is not the current element of the config loop",
               line=R.line(p.iter_node), clause="C05.3")
    rep.decide(bool(p.yields), "G5.offset-pairing", fi, "yields-exist", "the pass yields", "the pass yields nothing",
               line=R.line(p.iter_node), clause="C05.3", nontrivial=False)
    norm_offs = set()
    for y, off, txt in facts["offsets"]:
        ok = off is not None and off == want_off
        norm_offs.add("index_offsets[k]" if ok else txt)
        rep.decide(ok, "G5.offset-pairing", fi, f"yield:{' '.join(ast.unparse(yields_at(fa, y)[0].value).split())[:70]}",
                   "yields index_offsets[k] + i with k, i of the same step",
                   f"yields {txt if off is None else show(off)} + i: not the offset of the config whose sampler is being "
                   f"iterated", line=R.line(y), clause="C05.3")
    # whole pass: every element yielded exactly once
    PN = p.next_node
    body = R.body_entry(PN)
    ys = set(p.yields)
    inside = R.loop_body_nodes(PN)
    exits = [n for n in inside if cfg.nodes[n].kind == "stmt" and isinstance(cfg.nodes[n].ast, (ast.Break, ast.Return))]
    once = bool(ys) and not cfg.reachable(body, PN, avoid=ys, within=inside) and (body in ys or True) and not any(
        R.same_iteration_path(PN, a, b) for a in ys for b in ys)
    if body in ys:
        once = not any(R.same_iteration_path(PN, a, b) for a in ys for b in ys)
    rep.decide(once and not exits, "G8.pass-whole", fi, "every-element-once",
               "every element of the config's sampler is yielded exactly once; the pass cannot end early",
               "an element can be skipped / yielded twice, or the pass can end early (break / return inside the pass)",
               line=R.line(p.iter_node), clause="C05.3")
    # counter + flag
    norm_flags = set()
    for y, cond in facts["flags"]:
        ok, why, norm = _flag_form(R, p, cond, y)
        norm_flags.add(norm)
        rep.decide(ok, "G8.pass-whole", fi, f"flag@{tag}:{' '.join(ast.unparse(yields_at(fa, y)[0].value).split())[:60]}",
                   why, why, line=R.line(y), clause="C05.3")
    return {"offsets": sorted(norm_offs), "flags": sorted(norm_flags)}


def _flag_form(R: Roles, p: PassLoop, cond: Optional[Term], y: Optional[int] = None):
    fa, cfg = R.fa, R.fa.cfg
    if cond is None:
        return None, "flag condition not recognised", "?"
    parts = list(cond[1]) if cond[0] == "or" else [cond]
    PN = p.next_node
    inside = R.loop_body_nodes(PN)
    cnt = None
    mod_ok = len_ok = False
    bs_txt = "?"
    want_bs = ("or", (("attr", p.cfg_term, "batch_size"), ("self", "batch_size")))
    lens = ("call", ("global", "len"), (("attr", p.cfg_term, "sampler"),), ())
    for x in parts:
        if x[0] != "eq":
            continue
        pl = term_to_poly(x[1])
        mods = [a for a in pl.atoms() if a[0] == "binop" and a[1] == "%"]
        if mods and len(pl.terms) == 1:
            m = mods[0]
            if m[2][0] == "var":
                cnt = m[2][1]
            bs = m[3]
            bs_txt = show(bs)
            mod_ok = bs == want_bs or (bs[0] == "or" and tuple(_unver(b) for b in bs[1]) == (
                ("attr", p.cfg_term, "batch_size"), ("self", "batch_size")))
        else:
            pr = split_eq(x[1])
            if pr and lens in pr:
                other = pr[0] if pr[1] == lens else pr[1]
                if other[0] == "var":
                    len_ok = True
                    cnt = cnt or other[1]
    any_mod = any(a_[0] == "binop" and a_[1] == "%" for x_ in parts if x_[0] == "eq" for a_ in term_to_poly(x_[1]).atoms())
    if not any_mod and len(parts) == 1 and parts[0][0] == "eq" and y is not None:
        one = _one_batch_form(R, p, parts[0], y, lens, want_bs)
        if one is not None:
            return one
    if not any_mod and not (mod_ok and len_ok and len(parts) == 2):
        # no modulo at all: another way of cutting the pass into batches (a fast path for passes that fit into one batch,
        # a position compared with the last index): not decided here
        return None, f"batch-closing flag {show(cond)[:80]} is written without the modulo form: not decided", "other-form"
    if not (mod_ok and len_ok and len(parts) == 2):
        return False, (f"batch-closing flag {show(cond)} is not 'counter % (config.batch_size or self.batch_size) == 0 or "
                       f"counter == len(config.sampler)' (batch size used: {bs_txt})"), show(cond)
    # counter discipline
    incs = [(n, c) for n, c in R.increments(cnt) if n in inside]
    nodes = {n for n, _ in incs}
    body = R.body_entry(PN)
    before = all(R.within_iteration(PN, body, y, nodes) for y in p.yields)
    once = not any(R.same_iteration_path(PN, a, b) for a in nodes for b in nodes)
    by_one = bool(incs) and all(c == 1 for _, c in incs)
    resets = [n for n, val, st in R.defs_of(cnt) if n not in {x for x, _ in R.increments(cnt)}]
    zero = bool(resets) and all(R.fa.sym.term(val, n) == ("const", 0) for n, val, st in R.defs_of(cnt)
                                if n in resets and val is not None) and not [n for n in resets if n in inside]
    # reset precedes every pass: every path into the pass's iter node from the config-loop step passes a reset
    fresh = zero and (R.cfg_next is None or R.within_iteration(R.cfg_next, R.body_entry(R.cfg_next), p.iter_node,
                                                               set(resets)))
    ok = before and once and by_one and fresh
    why = ("flag = counter % (config.batch_size or self.batch_size) == 0 or counter == len(config.sampler); counter reset "
           "per pass, +1 per element before the yield") if ok else \
        f"in-pass counter '{cnt}': " + "; ".join(x for x in (
            None if by_one else "not incremented by exactly 1", None if before else "an element is yielded before the "
            "increment", None if once else "incremented twice per element",
            None if fresh else "not reset to 0 before every pass") if x)
    return ok, why, "mod-bs-or-len"


def _one_batch_form(R: Roles, p: PassLoop, eq: Term, y: int, lens: Term, want_bs: Term):
    """The flag 'position == len(config.sampler) - 1' (position = running index of 'enumerate(config.sampler)') closes only
    the last element: the whole pass is ONE batch.  That is the property's batching exactly when the pass fits into one batch,
    so the yield has to stand behind 'len(config.sampler) <= config.batch_size or self.batch_size'; behind a comparison with
    another size it is a violation, without a comparison not decided."""
    fa = R.fa
    tg = p.loop.target
    it = p.loop.iter
    if not (isinstance(tg, ast.Tuple) and isinstance(tg.elts[0], ast.Name) and isinstance(it, ast.Call)
            and len(it.args) == 1 and not it.keywords):
        return None
    pos = tg.elts[0].id
    pl = term_to_poly(eq[1])
    atoms = list(pl.atoms())
    vs = [a for a in atoms if a[0] == "var" and a[1] == pos and a[2] == frozenset({p.next_node})]
    if len(vs) != 1 or lens not in atoms or len(atoms) != 2:
        return None
    def co(P, a):
        return P.terms.get(((a, 1),), 0)
    cv, cl, c0 = co(pl, vs[0]), co(pl, lens), pl.terms.get((), 0)
    if any(len(k) > 1 or (k and k[0][1] != 1) for k in pl.terms):
        return None
    if not ((cv, cl, c0) == (1, -1, 1) or (cv, cl, c0) == (-1, 1, -1)):
        return None
    bounds = []
    for e, pol, c, tn in fa.cond_parts_at(y):
        if c[0] not in ("le", "lt", "ge", "gt"):
            continue
        q = term_to_poly(c[1])
        if lens not in q.atoms():
            continue
        bounds.append((e, pol, c, tn, q))
    if not bounds:
        return None, ("the pass is emitted as one batch (flag only at the last position) without a visible comparison of its "
                      "length with the batch size: not decided"), "one-batch"
    for e, pol, c, tn, q in bounds:
        others = [a for a in q.atoms() if a != lens]
        if any(len(m) > 1 or (m and m[0][1] != 1) for m in q.terms):
            continue
        k = co(q, lens)
        # c is 'q <= 0' / 'q < 0' ...: want len - bs <= 0 (or < 0)
        if len(others) == 1 and q.terms.get((), 0) == 0 and abs(k) == 1 and co(q, others[0]) == -k:
            upper = (c[0] in ("le", "lt") and k == 1) or (c[0] in ("ge", "gt") and k == -1)
            o = others[0]
            o_ok = o == want_bs or (o[0] == "or" and tuple(_unver(b) for b in o[1]) == want_bs[1])
            if upper and o_ok:
                return True, ("a pass no longer than 'config.batch_size or self.batch_size' is emitted as one batch (flag at the "
                              "last position)"), "mod-bs-or-len"
            if upper:
                return False, (f"one-batch fast path of the pass is taken when len(config.sampler) is at most {show(o)[:60]} "
                               f"(line {R.line(tn)}), not 'config.batch_size or self.batch_size': a config with a smaller "
                               "batch size of its own gets its whole pass as one batch"), "one-batch:" + show(_unver(o))
    return None, "one-batch fast path behind a comparison that is not recognised: not decided", "one-batch"


def _unver(t):
    if t[0] == "var" and t[1].startswith("self."):
        return ("self", t[1][5:])
    return t


def _check_iter_dispatch(prog: Program, rep: Report):
    prog = prog.raw  # the routing itself ('yield from' to which loop) is the subject
    fi = prog.method("InterleavedSampler", "__iter__", own=True)
    fa = fa_of(prog, fi)
    cfg = fa.cfg
    rep.analysed_add("functions", f"{FILE}:{fi.qualname}")
    ev = [(n, y) for n, y in fa.yields() if isinstance(y, ast.YieldFrom)]
    routes = {}
    for n, y in ev:
        t = fa.sym.term(y.value, n)
        if t[0] == "call" and t[1][0] == "self":
            routes[t[1][1]] = n
    ok = None
    why = "__iter__ does not route to _eval_loop / _training_loop by 'yield from'"
    if "_eval_loop" in routes and "_training_loop" in routes:
        conds = fa.conds_at(routes["_eval_loop"], asserts=False)
        zero = lambda a: ("eq", ("self", a))
        want = {zero("epochs"), zero("updates"), zero("samples")}
        got = set()
        for c in conds:
            got |= set(c[1]) if c[0] == "or" else {c}
        conds_t = fa.conds_at(routes["_training_loop"], asserts=False)
        ok = want <= got and len(conds) >= 1 and all(c[0] == "or" or c in want for c in conds) and bool(conds_t)
        why = "zero budget (epochs == 0 or updates == 0 or samples == 0) -> _eval_loop, else _training_loop" if ok else \
            f"_eval_loop is entered under {' and '.join(show(c) for c in conds) or 'no condition'}: not exactly the zero-" \
            f"budget condition"
    rep.decide(ok, "G8.eval-all", fi, "zero-budget-routing", why, why, clause="C05.6")


def _ds_term(t: Term) -> Optional[Term]:
    """argument X of a data-source lookup  <getter>(X)  /  X.dataset / X.data_source; None if not of that form."""
    if t[0] == "call" and len(t[2]) == 1 and not t[3]:
        return ("ds", _strip_bound(t[2][0]))
    if t[0] == "attr" and t[2] in ("dataset", "data_source"):
        return ("ds", _strip_bound(t[1]))
    return None


def _strip_bound(t):
    return t


def _check_tables(prog: Program, rep: Report):
    prog = prog.raw  # the data-source getter is compared as a unit (same getter for lengths and parts), not inlined
    rep.rule("G9.offset-table", "index_offsets is the prefix sum of the data-source lengths starting with the main data "
             "source: first entry len(DS(main_sampler)), each further entry previous + len(DS(config.sampler)) over "
             "self.configs in order; _InterleavedConcatDataset receives [DS(main_sampler)] + [DS(c.sampler) for c in "
             "self.configs] with the same DS lookup, and the collator list is [main] + [c.collator ... for c in "
             "self.configs] in the same order")
    fi = prog.method("InterleavedSampler", "__init__", own=True)
    fa = fa_of(prog, fi)
    cfg = fa.cfg
    rep.analysed_add("functions", f"{FILE}:{fi.qualname}")
    main = ("self", "main_sampler")
    # --- the concat dataset -----------------------------------------------------------------------
    ds_calls = [(n, c) for n, c in fa.calls() if (r := prog.resolve_expr(fi.module, c.func)) and r[0] == "class"
                and r[1].name == "_InterleavedConcatDataset"]
    rep.require(len(ds_calls) == 1, "anchor-missing: construction of _InterleavedConcatDataset in __init__")
    n_ds, c_ds = ds_calls[0]
    parts = _list_sum(fa, c_ds.args[0], n_ds) if c_ds.args else None
    col_calls = [(n, c) for n, c in fa.calls() if (r := prog.resolve_expr(fi.module, c.func)) and r[0] == "class"
                 and r[1].name == "_InterleavedCollator"]
    rep.require(len(col_calls) == 1, "anchor-missing: construction of _InterleavedCollator in __init__")
    n_co, c_co = col_calls[0]
    cparts = _list_sum(fa, c_co.args[0], n_co) if c_co.args else None

    # the values self.main_sampler / self.configs hold (the constructor stores parameters into them)
    main_terms = {main} | {fa.sym.term(val, n) for n, var, val in fa.stores() if var == "self.main_sampler" and val is not None}
    cfg_terms = {("self", "configs")} | {fa.sym.term(val, n) for n, var, val in fa.stores()
                                         if var == "self.configs" and val is not None}

    def cfgs_iter(t):
        return t in cfg_terms

    def is_main_ds(t):
        d = _ds_term(t)
        return d is not None and d[1] in main_terms

    ds_head = ds_elem = None
    if parts is not None and len(parts) == 2 and parts[0][0] == "comp" and parts[1][0] == "list":
        rep.bad("G9.offset-table", fi, "concat-parts", "the concat dataset lists the configs' data sources before the "
                "main data source, while index_offsets places the main data source first: every offset index resolves "
                "to the wrong dataset", line=fa.line(n_ds), clause="C05.4")
    elif parts is None or len(parts) != 2 or parts[0][0] != "list" or parts[1][0] != "comp":
        rep.unk("G9.offset-table", fi, "concat-parts", "dataset list of unrecognised shape", line=fa.line(n_ds),
                clause="C05.4")
    else:
        head, comp = parts
        ok_head = len(head[1]) == 1 and is_main_ds(head[1][0])
        ds_head = head[1][0] if len(head[1]) == 1 else None
        elt, gens = comp[2], comp[3]
        ok_comp = len(gens) == 1 and gens[0][0][0] == "bound" and cfgs_iter(gens[0][1]) and not gens[0][2]
        bound = gens[0][0] if gens else None
        ds_elem = elt
        ok_elt = _ds_term(elt) == ("ds", ("attr", bound, "sampler"))
        same_getter = ds_head is not None and _getter(ds_head) == _getter(elt)
        rep.decide(ok_head and ok_comp and ok_elt and same_getter, "G9.offset-table", fi, "concat-parts",
                   "[DS(main_sampler)] + [DS(c.sampler) for c in self.configs]",
                   "the concat dataset is not built as [DS(main_sampler)] + [DS(c.sampler) for c in self.configs] "
                   f"(got {show(head)} + {show(comp)[:120]})", line=fa.line(n_ds), clause="C05.4")
    if cparts is not None and len(cparts) == 2 and cparts[0][0] == "comp" and cparts[1][0] == "list":
        rep.bad("G9.offset-table", fi, "collator-parts", "the collator list puts the configs' collators before the main "
                "collator, unlike the dataset list", line=fa.line(n_co), clause="C05.4")
    elif cparts is None or len(cparts) != 2 or cparts[0][0] != "list" or cparts[1][0] != "comp":
        rep.unk("G9.offset-table", fi, "collator-parts", "collator list of unrecognised shape", line=fa.line(n_co),
                clause="C05.4")
    else:
        head, comp = cparts
        gens = comp[3]
        bound = gens[0][0] if gens else None
        ok_comp = len(gens) == 1 and gens[0][0][0] == "bound" and cfgs_iter(gens[0][1]) and not gens[0][2]
        elt = comp[2]
        ok_elt = contains(elt, ("attr", bound, "collator")) and not any(
            x[0] == "attr" and x[1] == bound and x[2] != "collator" for x in subterms(elt) if x)
        ok_head = len(head[1]) == 1 and contains(head[1][0], ("param", "main_collator")) and not contains(
            head[1][0], ("bound", "config"))
        rep.decide(ok_comp and ok_elt and ok_head, "G9.offset-table", fi, "collator-parts",
                   "[main collator] + [c.collator ... for c in self.configs]: same order as the dataset list",
                   "the collator list is not [main] + [c.collator for c in self.configs]: a batch of one dataset would be "
                   "collated by another dataset's collator", line=fa.line(n_co), clause="C05.4")
    # --- the offset table -------------------------------------------------------------------------------
    off_defs = [(n, val) for n, var, val in fa.stores() if var == "self.index_offsets"]
    rep.require(off_defs, "anchor-missing: definition of self.index_offsets in __init__")
    n0, v0 = off_defs[0]
    t0 = fa.sym.term(v0, n0) if v0 is not None else None
    lens = lambda x: x[0] == "call" and x[1] == ("global", "len") and len(x[2]) == 1
    ok0 = None
    def is_sampler_like(t):
        return t in main_terms or (t[0] == "attr" and t[2] == "sampler") or t == ("param", "main_sampler")

    if t0 is not None and t0[0] == "list" and len(t0[1]) == 1 and lens(t0[1][0]):
        inner = t0[1][0][2][0]
        if is_main_ds(inner):
            ok0 = ds_head is None or _getter(inner) == _getter(ds_head)
        elif _ds_term(inner) is not None and is_sampler_like(_ds_term(inner)[1]) or is_sampler_like(inner):
            ok0 = False  # the data source of another sampler, or the length of a sampler instead of its data source
        else:
            ok0 = None   # e.g. the first part of the concat dataset built before: not traced back here
    elif t0 is not None and _is_cumsizes_slice(t0):
        ok0 = None
    elif t0 is not None and t0[0] == "binop" and t0[1] == "+":
        lp = _list_sum(fa, v0, n0)
        if len(lp) == 2 and lp[0][0] == "list" and len(lp[0][1]) == 1 and lp[1][0] == "comp":
            h = lp[0][1][0]
            if lens(h):
                ok0 = is_main_ds(h[2][0]) and (ds_head is None or _getter(h[2][0]) == _getter(ds_head))
            elt = lp[1][2]
            accumulates = any(x[0] == "call" and x[1][0] == "global" and x[1][1].rsplit(".", 1)[-1] in (
                "sum", "accumulate", "cumsum") for x in subterms(elt))
            if not accumulates:
                rep.bad("G9.offset-table", fi, "offset-step", f"the offsets of the second and later configs are computed by a "
                        f"comprehension whose element {show(elt)[:100]} depends on a single config only - not a running sum "
                        f"over all preceding data sources: from the third config on the index ranges overlap earlier ones",
                        line=fa.line(n0), clause="C05.4")
            else:
                rep.unk("G9.offset-table", fi, "offset-step", "offsets built by a comprehension with an accumulation "
                        "(shape not modelled)", line=fa.line(n0), clause="C05.4")
    rep.decide(ok0, "G9.offset-table", fi, "offset-head", "first offset = len(DS(main_sampler))",
               f"the first offset is {show(t0) if t0 else '?'}, not the length of the main data source: every interleaved "
               f"index resolves to the wrong dataset / sample", line=fa.line(n0), clause="C05.4")
    apps = [(n, c) for n, c in fa.calls_named("append") if isinstance(c.func.value, ast.Attribute)
            and c.func.value.attr == "index_offsets" and isinstance(c.func.value.value, ast.Name)
            and c.func.value.value.id == fa.self_name]
    if len(off_defs) == 1 and len(apps) == 1:
        n, c = apps[0]
        loopn = None
        for t_, lab in cfg.control_predicates(n):
            if cfg.nodes[t_].kind == "next":
                loopn = t_
        arg = fa.sym.term(c.args[0], n) if c.args else None
        ok = None
        why = "offset accumulation of unrecognised shape"
        if loopn is not None and arg is not None:
            loop = cfg.nodes[loopn].owner
            it = fa.sym.term(loop.iter, cfg.stmt_node[loop])
            lv = ("var", loop.target.id, frozenset({loopn})) if isinstance(loop.target, ast.Name) else None
            it_ok = cfgs_iter(it) or (it[0] == "sub" and cfgs_iter(it[1]) and it[2] in (
                ("slice", None, ("const", -1), None), ("slice", ("const", 0), ("const", -1), None)))
            # the loop may also walk a list built from self.configs beforehand: [DS(c.sampler) for c in self.configs][:-1]
            mapped_elt = None
            base_it = it[1] if it[0] == "sub" and it[2] in (("slice", None, ("const", -1), None),
                                                            ("slice", ("const", 0), ("const", -1), None)) else it
            if not it_ok and base_it[0] == "comp" and len(base_it[3]) == 1 and base_it[3][0][0][0] == "bound" and \
                    cfgs_iter(base_it[3][0][1]) and not base_it[3][0][2]:
                it_ok = True
                mapped_elt = (base_it[2], base_it[3][0][0])  # (element term, bound variable)
            p = term_to_poly(arg)
            recv_t = fa.sym.term(c.func.value, n)
            prev = [a for a in p.atoms() if a[0] == "sub" and a[2] == ("const", -1) and a[1] == recv_t]
            ln = [a for a in p.atoms() if lens(a)]
            running = None
            if isinstance(c.args[0], ast.Name):
                # a running total: 'acc += len(X)' once per iteration before the append, acc appended as it is
                acc = c.args[0].id
                body_nodes = cfg.nodes_inside(loop.body)
                incs = [(m_, cfg.nodes[m_].ast) for m_, var, val in fa.stores() if var == acc and m_ in body_nodes]
                if len(incs) == 1 and isinstance(incs[0][1], ast.AugAssign) and isinstance(incs[0][1].op, ast.Add) and \
                        cfg.reachable(incs[0][0], n, avoid={loopn}):
                    tv = fa.sym.term(incs[0][1].value, incs[0][0])
                    if lens(tv):
                        running = tv[2][0]
            if it_ok and lv and running is not None:
                inner = running
                d_inner = _ds_term(inner)
                if d_inner == ("ds", ("attr", lv, "sampler")) and (ds_elem is None or _getter(inner) == _getter(ds_elem)):
                    ok, why = True, "running total: offset += len(DS(config.sampler)) over self.configs in order"
                elif inner == ("attr", lv, "sampler") or (d_inner is not None and d_inner != ("ds", ("attr", lv, "sampler"))
                                                          and is_sampler_like(d_inner[1])):
                    ok = False
                    why = (f"the offset step adds len({show(inner)}), which is not the length of the data source that the concat "
                           f"dataset holds for that config (DS(config.sampler)): offsets and concat ranges drift apart whenever a "
                           f"sampler's length differs from its dataset's")
            elif it_ok and lv and mapped_elt is not None and len(prev) == 1 and len(ln) == 1 and len(p.terms) == 2 and \
                    p.coeff_of(prev[0]).const_value() == 1 and p.coeff_of(ln[0]).const_value() == 1:
                elt_, bound_ = mapped_elt
                if ln[0][2][0] == lv:
                    good = _ds_term(elt_) == ("ds", ("attr", bound_, "sampler")) and (
                        ds_elem is None or _getter(elt_) == _getter(ds_elem))
                    ok = True if good else (False if elt_ == ("attr", bound_, "sampler") else None)
                    why = "offsets[k+1] = offsets[k] + len(<k-th element of [DS(c.sampler) for c in self.configs]>)" if ok else \
                        f"the list the offsets are accumulated over holds {show(elt_)[:60]} per config, not DS(config.sampler)"
            elif it_ok and lv and len(prev) == 1 and len(ln) == 1 and len(p.terms) == 2 and \
                    p.coeff_of(prev[0]).const_value() == 1 and p.coeff_of(ln[0]).const_value() == 1:
                inner = ln[0][2][0]
                good = _ds_term(inner) == ("ds", ("attr", lv, "sampler")) and (
                    ds_elem is None or _getter(inner) == _getter(ds_elem))
                ok = bool(good)
                why = "offsets[k+1] = offsets[k] + len(DS(config_k.sampler)) over self.configs in order" if ok else \
                    f"the offset step adds len({show(inner)}), which is not the length of the data source that the " \
                    f"concat dataset holds for that config (DS(config.sampler))"
            elif not it_ok:
                ok = False
                why = f"the offset table is accumulated over {show(it)}, not over self.configs in order"
        rep.decide(ok, "G9.offset-table", fi, "offset-step", why, why, line=fa.line(n), clause="C05.4")
    elif not any(o.construct == "offset-step" for o in rep.obs):
        rep.unk("G9.offset-table", fi, "offset-step", "offset table not built by one initial list + one append loop",
                line=fa.line(n0), clause="C05.4")


def _self_or_param(t):
    return t


def _getter(t: Term):
    """The lookup function used to get at a data source (callee term or attribute name)."""
    if t[0] == "call":
        return ("call", t[1])
    if t[0] == "attr":
        return ("attr", t[2])
    return None


def _is_cumsizes_slice(t):
    return t[0] == "sub" and t[1][0] == "attr" and t[1][2] == "cumulative_sizes"


def _list_sum(fa, e: ast.AST, at: int):
    """[a] + [comp]  ->  [term(list), term(comp)]"""
    t = fa.sym.term(e, at)
    out = []

    def flat(x):
        if x[0] == "binop" and x[1] == "+":
            flat(x[2])
            flat(x[3])
        else:
            out.append(x)

    flat(t)
    return out


def _check_dispatch(prog: Program, rep: Report):
    rep.rule("G8.collator-dispatch", "_InterleavedCollator.__call__ splits (dataset index, sample) pairs, asserts that all "
             "dataset indices of the batch equal the first one before dispatching, and calls collators[<that index>] on "
             "the samples; _InterleavedConcatDataset.__getitem__ returns (part index, datasets[part index][local index]) "
             "with part/local from bisect_right over cumulative_sizes")
    fi = prog.method("_InterleavedCollator", "__call__", own=True)
    fa = fa_of(prog, fi)
    cfg = fa.cfg
    rep.analysed_add("functions", f"{FILE}:{fi.qualname}")
    rets = fa.returns()
    ok = None
    why = "dispatch of unrecognised shape"
    unpack = None
    for n, nd in cfg.nodes.items():
        if nd.kind == "stmt" and isinstance(nd.ast, ast.Assign) and isinstance(nd.ast.targets[0], ast.Tuple) \
                and len(nd.ast.targets[0].elts) == 2 and all(isinstance(e, ast.Name) for e in nd.ast.targets[0].elts):
            v = fa.sym.term(nd.ast.value, n)
            if v[0] == "call" and v[1] == ("global", "zip") and len(v[2]) == 1 and v[2][0][0] == "star":
                unpack = (n, nd.ast.targets[0].elts[0].id, nd.ast.targets[0].elts[1].id)
    if unpack and len(rets) == 1 and rets[0][1] is not None:
        n_u, iv, dv = unpack
        I = ("var", iv, frozenset({n_u}))
        D = ("var", dv, frozenset({n_u}))
        rn, rt = rets[0]
        first = ("sub", I, ("const", 0))
        good_call = rt[0] == "call" and rt[1] == ("sub", ("self", "collators"), first) and rt[2] == (D,) and not rt[3]
        asserts = [n for n, nd in cfg.nodes.items() if nd.kind == "test" and isinstance(nd.owner, ast.Assert)]
        uniq = False
        for a in asserts:
            t = fa.sym.term(cfg.nodes[a].ast, a)
            # all(first == idx for idx in I)
            if t[0] == "call" and t[1] == ("global", "all") and len(t[2]) == 1 and t[2][0][0] == "comp":
                comp = t[2][0]
                gens = comp[3]
                if len(gens) == 1 and gens[0][1] == I and not gens[0][2] and comp[2][0] == "eq":
                    pr = split_eq(comp[2][1])
                    if pr and set(pr) == {first, gens[0][0]}:
                        uniq = cfg.dominates(a, rn)
            # len(set(I)) == 1
            if t[0] == "eq" and contains(t, ("call", ("global", "set"), (I,), ())):
                uniq = cfg.dominates(a, rn)
        ok = good_call and uniq
        if not good_call and uniq and rt[0] == "call" and rt[2] == (D,) and not rt[3]:
            # collators[that index] behind a fallback for a missing / empty entry ('x or default', 'x if i < len(..) else None'):
            # every read of the collator list uses the batch's dataset index - which collator the fallback stands in for is a
            # matter of how the list was built (G9.offset-table) - not decided here
            subs_ = [x_ for a_ in fa.alternatives(rt[1]) for x_ in subterms(a_)
                     if isinstance(x_, tuple) and len(x_) == 3 and x_[0] == "sub" and x_[1] == ("self", "collators")]
            if subs_ and all(x_[2] == first for x_ in subs_):
                ok = None
        why = "asserts a single dataset index, then collators[that index](samples)" if ok else (
            ("the collator is not selected by the batch's dataset index / not applied to the sample part; " if not good_call
             else "") + ("no assertion that all samples of the batch come from one dataset precedes the dispatch"
                         if not uniq else ""))
    rep.decide(ok, "G8.collator-dispatch", fi, "dispatch", why, why, clause="C05.5")
    from .c02_concat import concat_getitem_summary  # shared with C02
    gi = prog.method("_InterleavedConcatDataset", "__getitem__", own=True)
    rep.analysed_add("functions", f"{FILE}:{gi.qualname}")
    summ = concat_getitem_summary(prog, gi)
    ok = summ.get("ok")
    rep.decide(ok, "G8.collator-dispatch", gi, "getitem-returns-part-index", summ.get("why", ""), summ.get("why", ""),
               clause="C05.5")
