"""C03 - each dataset-manipulation wrapper selects exactly the promised samples (DESIGN §4 C03)."""
from __future__ import annotations

import ast
from typing import Dict, List, Optional, Set, Tuple

from ..core import Report
from ..deps import Deps
from ..fa import FA, fa_of
from ..model import ClassInfo, FuncInfo, Program
from ..rules import names
from ..rules.rng import classify_ext
from ..sym import Poly, Term, leaves, negate, show, subterms, term_to_poly

FILES = [f"kappadata/wrappers/dataset_wrappers/{n}.py" for n in (
    "class_filter_wrapper", "percent_filter_wrapper", "subset_wrapper", "shuffle_wrapper", "repeat_wrapper",
    "oversampling_wrapper", "sort_by_class_wrapper", "intra_class_shuffle_wrapper", "fewshot_wrapper",
    "classwise_subset_wrapper")] + ["kappadata/utils/class_counts.py"]
NONE = ("const", None)


def is_none(x):
    return ("is", tuple(sorted((NONE, x), key=repr)))


def run(prog: Program, rep: Report, tier: str):
    rep.trusted += ["numpy / torch value semantics (np.isin, tile, nonzero, arange, rounding of int(p * len))",
                    "torch.utils.data.Subset stores the indices it is given"]
    rep.not_decided += ["that the computed index list is the promised multiset / permutation / partition as values",
                        "class-balance guarantees and 'whole round-robin copies' as values"]
    base = prog.cls("KDSubset")
    ctors = []
    for rel in FILES[:-1]:
        m = prog.module(rel)
        for b in m.bindings.values():
            if b[0] == "class" and b[1].module is m and base in b[1].mro() and "__init__" in b[1].methods:
                ctors.append((b[1], b[1].methods["__init__"]))
    rep.floor("selection wrapper constructors", len(ctors), 10)
    rep.rule("G2.seed-only", "in a selection constructor every generator is np.random.default_rng(seed=<the seed parameter>); the "
             "process-global NumPy RNG (np.random module, GlobalRng) is bound / drawn from only under 'seed is None'; no other "
             "global draw")
    rep.rule("G1.class-attribute", "a class object used as a value is only asked for attributes its class body defines: "
             "<Class>.<name> with <name> provided solely by an instance-level __getattr__ raises AttributeError")
    rep.rule("G7.falsy-zero", "'p = p or D' on a constructor argument for which the same constructor's validation admits 0 (a "
             "non-strict lower bound 0 <= p, or a bare isinstance(p, int)) and D is not zero: the explicit value 0 silently "
             "becomes D")
    rep.rule("G7.falsy-empty", "a collection-valued selection argument whose absence the constructor marks by None (it branches on "
             "'<arg> is None' / 'is not None') is not also branched on by truthiness (of the argument, of the attribute it is stored "
             "in, or of a list / set / tuple copy of it): an explicitly given empty collection selects nothing - it is not the same "
             "request as no collection at all")
    rep.rule("G8.loop-progress", "every 'while v > 0' loop of a constructor decrements v by a provably positive amount: a positive "
             "constant, or len(x[:v]) of a pool x whose non-emptiness is guaranteed by a guard that leaves the iteration "
             "(continue / break / raise under a zero-length or zero-count test on that pool) before the loop")
    rep.rule("G4.selection-deps", "the indices handed to the subset base depend (backward slice incl. control dependences) on "
             "every constructor parameter other than the dataset - parameters consulted by assertions only are exempt: no "
             "argument is silently ignored; the indices argument is the local the selection code computed")
    n_or = n_loops = 0
    for C, fi in sorted(ctors, key=lambda x: x[0].name):
        fa = fa_of(prog, fi)
        cfg = fa.cfg
        rep.analysed_add("functions", f"{fi.module.relpath}:{fi.qualname}")
        ps = fi.params()[1:]
        # ---- seed only --------------------------------------------------------------------------------------
        seed_p = ("param", "seed")
        for n, c in fa.calls():
            t = fa.sym.term(c, n)
            if t[1][0] != "global":
                continue
            dotted = t[1][1]
            if dotted.endswith("default_rng") or dotted.endswith("RandomState"):
                seed = dict(t[3]).get("seed", t[2][0] if t[2] else None)
                rep.decide(seed == seed_p, "G2.seed-only", fi, f"generator:{' '.join(ast.unparse(c).split())[:60]}",
                           "seeded with the seed parameter", f"generator seeded with {show(seed) if seed else 'nothing'}: the "
                           f"selection is not a function of the constructor arguments and seed", line=c.lineno, clause="C03.1")
            ce = classify_ext(dotted, c)
            if ce and ce[0] in ("global", "entropy") and not dotted.endswith("default_rng"):
                under = _under_seed_none(fa, n)
                rep.decide(under, "G2.seed-only", fi, f"draw:{' '.join(ast.unparse(c).split())[:60]}",
                           "global draw only without a seed", f"{ce[1]} although a seed may be given", line=c.lineno,
                           clause="C03.1")
        for n, var, val in fa.stores():
            if val is None:
                continue
            for arm, conds_extra in _arms(fa, val, n):
                if arm[0] == "global" and (arm[1] == "numpy.random" or arm[1].endswith("GlobalRng")) or (
                        arm[0] == "call" and arm[1][0] == "global" and arm[1][1].endswith("GlobalRng")):
                    under = _under_seed_none(fa, n) or any(c == is_none(seed_p) for c in conds_extra)
                    rep.decide(under, "G2.seed-only", fi, f"global-rng:{var}", "global RNG bound only under 'seed is None'",
                               f"'{var}' is bound to the process-global RNG although a seed may be given", line=fa.line(n),
                               clause="C03.1")
                    # class object used as a value?
                    if arm[0] == "global" and arm[1].endswith("GlobalRng"):
                        K = prog.classes.get(arm[1])
                        if K is not None:
                            used = {x.func.attr for m_, x in fa.calls() if isinstance(x.func, ast.Attribute)
                                    and isinstance(x.func.value, ast.Name) and x.func.value.id == var}
                            missing = sorted(a for a in used if not K.defines(a))
                            rep.decide(not missing, "G1.class-attribute", fi, f"class-as-value:{K.name}",
                                       "only class-level attributes are used",
                                       f"'{var}' may be the class {K.name} itself (not an instance); {K.name}.{missing[0] if missing else ''} "
                                       f"is not defined on the class (only instances fall back to __getattr__): AttributeError "
                                       f"whenever no seed is given", line=fa.line(n), clause="C03.1")
        # ---- falsy zero --------------------------------------------------------------------------------------------
        for n, var, val in fa.stores():
            if not isinstance(val, ast.BoolOp) or not isinstance(val.op, ast.Or) or len(val.values) != 2:
                continue
            a, d = val.values
            if not (isinstance(a, ast.Name) and a.id in ps):
                continue
            n_or += 1
            p = a.id
            dt = fa.sym.term(d, n)
            zero_like = term_to_poly(dt).const_value() == 0 or dt == ("const", False)
            admits = _admits_zero(fa, p, var)
            construct = f"default:{var} = {p} or {' '.join(ast.unparse(d).split())}"
            if zero_like:
                rep.ok("G7.falsy-zero", fi, construct, "default is zero-like: 0 and None coincide", line=fa.line(n),
                       clause="C03.2", nontrivial=False)
            elif admits is None:
                rep.ok("G7.falsy-zero", fi, construct, "no validator of this constructor admits 0 for the argument",
                       line=fa.line(n), clause="C03.2")
            else:
                rep.bad("G7.falsy-zero", fi, construct, f"the constructor accepts {p}=0 ({admits}) but '{p} or ...' replaces it by "
                        f"{' '.join(ast.unparse(d).split())}: an explicit bound of 0 silently selects up to the default bound",
                        line=fa.line(n), clause="C03.2")
        # ---- falsy empty: 'given but empty' must not be taken for 'not given' -----------------------------------------
        _falsy_empty(rep, fa, fi)
        # ---- loop progress ------------------------------------------------------------------------------------------
        for n, nd in cfg.nodes.items():
            if nd.kind != "test" or not isinstance(nd.owner, ast.While):
                continue
            t = fa.sym.term(nd.ast, n)
            v = None
            if t[0] == "lt":
                p_ = term_to_poly(t[1])
                at = list(p_.atoms())
                if len(at) == 1 and p_.coeff_of(at[0]).const_value() == -1 and at[0][0] == "var":
                    v = at[0][1]
            if v is None:
                continue
            n_loops += 1
            body = cfg.nodes_inside(nd.owner.body)
            decs = [(m, e) for m, op, e in fa.updates(v, ops=(ast.Sub,)) if m in body]
            ok, why = None, f"no 'v -= ...' found for '{v}'"
            for m, dec_e in decs:
                amt = fa.sym.term(dec_e, m)
                c = term_to_poly(amt).const_value()
                every = cfg.out_edge(n, True) == m or not cfg.reachable(cfg.out_edge(n, True), n, avoid={m})
                if c is not None:
                    ok = c >= 1 and every
                    why = f"'{v}' decreases by {c} per round" if ok else f"'{v}' decreases by {c}"
                    continue
                pool = _pool_of(fa, dec_e, m)
                if pool is None:
                    ok, why = None, f"decrement {show(amt)[:60]} of unrecognised shape"
                    continue
                guard = _nonempty_guard(fa, n, pool, v)
                ok = bool(guard) and every
                why = (f"'{v}' decreases by the number of elements taken from '{pool}', which is non-empty ({guard})" if ok else
                       f"'{v}' decreases by len(<slice of '{pool}'>), but nothing guarantees that '{pool}' is non-empty before the "
                       f"loop: for an empty pool the decrement is 0 and the constructor never terminates")
            rep.decide(ok, "G8.loop-progress", fi, f"while:{v}", why, why, line=fa.line(n), clause="C03.3")
        # ---- selection dependences --------------------------------------------------------------------------------------
        sup = [(n, c) for n, c in fa.calls() if isinstance(c.func, ast.Attribute) and c.func.attr == "__init__"
               and isinstance(c.func.value, ast.Call) and isinstance(c.func.value.func, ast.Name) and c.func.value.func.id == "super"]
        if len(sup) != 1:
            rep.unk("G4.selection-deps", fi, "super-call", "expected exactly one super().__init__ call", clause="C03.4")
            continue
        sn, sc = sup[0]
        arg = next((k.value for k in sc.keywords if k.arg == "indices"), sc.args[1] if len(sc.args) > 1 else None)
        if arg is None:
            rep.bad("G4.selection-deps", fi, "indices-arg", "super().__init__ is called without the computed indices",
                    line=sc.lineno, clause="C03.4")
            continue
        dep = Deps(fa, asserts=False)
        have = {x[1] for x in dep.of(arg, sn) if x[0] == "param"}
        if isinstance(arg, ast.Name):
            have |= {x[1] for x in dep.of_var(arg.id, sn) if x[0] == "param"}
        for t_, lab in cfg.control_predicates(sn):
            if cfg.nodes[t_].kind == "test" and not isinstance(cfg.nodes[t_].owner, ast.Assert):
                have |= {x[1] for x in dep.of(cfg.nodes[t_].ast, t_) if x[0] == "param"}
        # attributes that store parameters count through the attribute
        for n, var, val in fa.stores(f"{fa.self_name}."):
            if val is not None:
                pnames = {x[1] for x in dep.of(val, n) if x[0] == "param"}
                if ("self", var.split(".", 1)[1]) in dep.of(arg, sn) or any(
                        lf[0] == "var" and lf[1] == var for lf in leaves(fa.sym.term(arg, sn))):
                    have |= pnames
        missing = []
        for p in ps:
            if p in ("dataset", "kwargs", "args") or p in have:
                continue
            if _assert_only(fa, p):
                continue
            if _stored_only(fa, p):
                # stored on the instance for later inspection: must still influence the selection unless it is derived
                pass
            missing.append(p)
        rep.decide(not missing, "G4.selection-deps", fi, "parameters", f"indices depend on {', '.join(sorted(have - {'dataset'})) or '-'}",
                   f"the selection handed to the subset base does not depend on the constructor argument(s) "
                   f"{', '.join(missing)}: the argument is silently ignored", line=sc.lineno, clause="C03.4")
    stable_sort(prog, rep)
    request_invariant(prog, rep, ctors)
    readers_pure(prog, rep)
    # counts of the idioms the two rules look at; informational (a constructor may legitimately spell its defaults or its
    # loop differently - the universe floor is the number of constructors analysed, above)
    rep.floor("'p = p or D' defaults in selection constructors", n_or, 0)
    rep.floor("'while v > 0' loops in selection constructors", n_loops, 0)
    # ---- rounding up a quotient ----------------------------------------------------------------------------------------
    rep.rule("G6.ceil-of-floor", "where a wrapper rounds a quotient up (ceil(a / b): the number of whole copies / samples that "
             "reaches a requested size) the quotient is a true division: ceil(a // b) rounds down first and the ceil is a no-op - "
             "the request is missed by up to one unit whenever b does not divide a")
    n_ceil = 0
    for rel in FILES:
        m_ = prog.module(rel, required=False)
        if m_ is None:
            continue
        for f_ in prog.raw.all_functions([prog.raw.module(rel)]):
            for y in ast.walk(f_.node):
                if isinstance(y, ast.Call) and ((isinstance(y.func, ast.Attribute) and y.func.attr == "ceil") or (
                        isinstance(y.func, ast.Name) and y.func.id == "ceil")) and len(y.args) == 1:
                    n_ceil += 1
                    a0 = y.args[0]
                    floor_first = isinstance(a0, ast.BinOp) and isinstance(a0.op, ast.FloorDiv)
                    rep.decide(not floor_first, "G6.ceil-of-floor", f_, f"ceil:{' '.join(ast.unparse(a0).split())[:40]}",
                               "the quotient is rounded up", f"ceil({ast.unparse(a0)[:60]}) at line {y.lineno}: the floor division "
                               f"already dropped the remainder, nothing is rounded up - the requested size is not reached when the "
                               f"division is not exact", line=y.lineno, clause="C03.3", nontrivial=False)
    names.check(prog, rep, FILES, clause="C03.5", floor=12)


def request_invariant(prog: Program, rep: Report, ctors):
    rep.rule("G8.request-loop-invariant", "inside a loop of a selection constructor no constructor parameter is re-bound from its "
             "own previous value (p = f(p, <data of this iteration>)): the requested bound would be narrowed / shifted "
             "cumulatively, so what one class or round receives would depend on the classes or rounds visited before it. "
             "(Re-binding a parameter name from other values - the percent branch computing per-class indices - and "
             "accumulators that are not parameters are not concerned.)")
    n = 0
    for C, fi in sorted(ctors, key=lambda x: x[0].name):
        fa = fa_of(prog, fi)
        cfg = fa.cfg
        ps = set(fi.params()[1:])
        rd = cfg.reaching()
        for ln, nd in cfg.nodes.items():
            if nd.kind not in ("next",) and not (nd.kind == "test" and isinstance(nd.owner, ast.While)):
                continue
            body = cfg.nodes_inside(nd.owner.body)
            n += 1
            bad = []
            for m_, var, val in fa.stores():
                if m_ not in body or var not in ps or val is None:
                    continue
                reads_self = any(isinstance(y, ast.Name) and y.id == var and isinstance(y.ctx, ast.Load) for y in ast.walk(val))
                if isinstance(cfg.nodes[m_].ast, ast.AugAssign):
                    reads_self = True
                # the value read may be this very statement's result of an earlier iteration
                carried = m_ in rd.get(m_, {}).get(var, set())
                if reads_self and carried:
                    bad.append((m_, var))
            head = nd.owner.iter if isinstance(nd.owner, (ast.For, ast.AsyncFor)) else nd.owner.test
            rep.decide(not bad, "G8.request-loop-invariant", fi, f"loop:{' '.join(ast.unparse(head).split())[:50]}",
                       "no parameter is updated from itself across iterations",
                       "; ".join(f"'{v}' is re-bound from its own previous value at line {fa.line(m_)}" for m_, v in bad) +
                       ": the request is narrowed cumulatively - later classes / rounds are served with what earlier ones left",
                       line=fa.line(bad[0][0]) if bad else fa.line(ln), clause="C03.3")
    rep.floor("loops of selection constructors checked for loop-carried request parameters", n, 8)


def readers_pure(prog: Program, rep: Report):
    rep.rule("G8.readers-pure", "the bulk readers getall / getall_as_* and get_class_counts* only read the dataset they are given: "
             "they store nothing on it (no attribute store, setattr, __dict__ update on the dataset parameter).  Dataset "
             "layers forward unknown attribute reads to the dataset they wrap, so anything memoised on one layer is also "
             "what every layer stacked on it finds under that name - a layer's labels would be answered with another "
             "layer's")
    n = 0
    for rel in ("kappadata/utils/getall_as_tensor.py", "kappadata/utils/class_counts.py", "kappadata/utils/getall_class_as_tensor.py"):
        m = prog.raw.module(rel, required=False)
        if m is None:
            continue
        for b in m.bindings.values():
            if b[0] != "func" or b[1].module is not m:
                continue
            fi = b[1]
            ps = fi.params()
            if not ps:
                continue
            n += 1
            ds = ps[0]
            rep.analysed_add("functions", f"{rel}:{fi.qualname}")
            bad = []
            for x in ast.walk(fi.node):
                if isinstance(x, (ast.Assign, ast.AugAssign, ast.AnnAssign)):
                    for t in (x.targets if isinstance(x, ast.Assign) else [x.target]):
                        for y in ast.walk(t):
                            if isinstance(y, (ast.Attribute, ast.Subscript)) and isinstance(y.ctx, ast.Store):
                                r = y
                                while isinstance(r, (ast.Attribute, ast.Subscript)):
                                    r = r.value
                                if isinstance(r, ast.Name) and r.id == ds:
                                    bad.append((x.lineno, ast.unparse(t)))
                if isinstance(x, ast.Call):
                    f = x.func
                    if isinstance(f, ast.Name) and f.id == "setattr" and x.args and isinstance(x.args[0], ast.Name) and \
                            x.args[0].id == ds:
                        bad.append((x.lineno, "setattr(dataset, ...)"))
                    if isinstance(f, ast.Attribute) and f.attr in ("__setattr__", "update", "setdefault", "__setitem__"):
                        r = f.value
                        while isinstance(r, (ast.Attribute, ast.Subscript, ast.Call)):
                            r = r.value if not isinstance(r, ast.Call) else (r.args[0] if r.args else r.func)
                        if isinstance(r, ast.Name) and r.id == ds and (f.attr == "__setattr__" or "__dict__" in ast.unparse(f.value)
                                                                       or "vars(" in ast.unparse(f.value)):
                            bad.append((x.lineno, ast.unparse(f) + "(...)"))
            rep.decide(not bad, "G8.readers-pure", fi, "no-store-on-dataset", "reads only",
                       "; ".join(f"{w} (line {ln})" for ln, w in bad) + f": the reader writes to the dataset '{ds}' it was given - "
                       "wrappers stacked on that dataset find the memoised value through attribute forwarding and take it for "
                       "their own", line=bad[0][0] if bad else fi.node.lineno, clause="C03.4")
    rep.floor("bulk reader functions", n, 4)


def stable_sort(prog: Program, rep: Report):
    """SortByClassWrapper promises stable ties: third-party sorts are stable only when asked to be."""
    rep.rule("G2.stable-sort", "SortByClassWrapper keeps samples of one class in their original order: it gathers indices class by "
             "class in index order, or uses a sort that is stable by contract (torch.sort / argsort with stable=True, numpy with "
             "kind='stable' / 'mergesort', Python's sorted / list.sort); torch.argsort / torch.sort / np.argsort with their "
             "default algorithm are not stable")
    C = prog.cls("SortByClassWrapper")
    fi = C.methods.get("__init__")
    fa = fa_of(prog, fi)
    bad = []
    for n, c in fa.calls():
        nm = c.func.attr if isinstance(c.func, ast.Attribute) else getattr(c.func, "id", "")
        if nm in ("argsort", "sort"):
            kws = {k.arg: k.value for k in c.keywords}
            stable = (isinstance(kws.get("stable"), ast.Constant) and kws["stable"].value is True) or (
                isinstance(kws.get("kind"), ast.Constant) and kws["kind"].value in ("stable", "mergesort"))
            t = fa.sym.term(c.func, n)
            third_party = (t[0] == "global" and t[1].split(".")[0] in ("torch", "numpy")) or t[0] == "attr"
            if third_party and not stable:
                bad.append((n, c))
    rep.decide(not bad, "G2.stable-sort", fi, "sort-calls", "no unstable third-party sort in the selection",
               "; ".join(f"{ast.unparse(c)[:60]} is not stable by contract: samples of equal class can change their relative order"
                         for _, c in bad[:2]), line=bad[0][1].lineno if bad else fi.node.lineno, clause="C03.4")


def _arms(fa: FA, val: ast.AST, n: int):
    """(term, extra conditions) for the value or, for a conditional expression, each of its arms."""
    if isinstance(val, ast.IfExp):
        test = fa.sym.term(val.test, n)
        yield fa.sym.term(val.body, n), [test]
        yield fa.sym.term(val.orelse, n), [negate(test)]
    else:
        yield fa.sym.term(val, n), []


def _under_seed_none(fa: FA, n: int) -> bool:
    return any(c == is_none(("param", "seed")) for c in fa.conds_at(n))


def _admits_zero(fa: FA, p: str, var: str) -> Optional[str]:
    """Description of a validator in this function that lets p == 0 pass, or None."""
    P = ("param", p)
    for n, nd in fa.cfg.nodes.items():
        if nd.kind != "test" or not isinstance(nd.owner, ast.Assert):
            continue
        t = fa.sym.term(nd.ast, n)
        for x in subterms(t):
            if x[0] == "le":
                pl = term_to_poly(x[1])
                # 0 <= p   <=>  ('le', -p)
                atoms = list(pl.atoms())
                if len(atoms) == 1 and pl.const_value() is None and len(pl.terms) == 1 and pl.coeff_of(atoms[0]).const_value() == -1:
                    a = atoms[0]
                    if a == P or (a[0] == "or" and a[1] and a[1][0] == P) or (a[0] == "var" and a[1] in (p, var)) or (a[0] == "self" and f"self.{a[1]}" == var) or (
                            a[0] == "var" and a[1] == var):
                        return f"assert 0 <= {p}"
            if x[0] == "call" and x[1] == ("global", "isinstance") and len(x[2]) == 2 and x[2][0] == P \
                    and x[2][1] == ("global", "int"):
                # bare isinstance(p, int) without a positivity requirement in the same assert
                if not any(y[0] in ("lt", "le") and P in leaves(y) for y in subterms(t)):
                    return f"assert isinstance({p}, int)"
    return None


def _pool_of(fa: FA, e: ast.AST, at: int) -> Optional[str]:
    """v -= len(X): the pool variable X's elements are drawn from (through arange(len(P))[:v] / P[:v])."""
    if not (isinstance(e, ast.Call) and isinstance(e.func, ast.Name) and e.func.id == "len" and len(e.args) == 1):
        return None
    # follow the definitions of the measured value (a few steps) and look for len(<pool>) inside them
    work = [(e.args[0], at, 0)]
    seen = set()
    while work:
        x, n, d = work.pop()
        for y in ast.walk(x):
            if isinstance(y, ast.Call) and isinstance(y.func, ast.Name) and y.func.id == "len" and len(y.args) == 1 \
                    and isinstance(y.args[0], ast.Name):
                return y.args[0].id
        for y in ast.walk(x):
            if isinstance(y, ast.Name) and isinstance(y.ctx, ast.Load) and d < 3:
                for dn in fa.cfg.reaching().get(n, {}).get(y.id, ()):
                    val = fa.cfg.def_value(dn, y.id)
                    if val is not None and (dn, y.id) not in seen:
                        seen.add((dn, y.id))
                        work.append((val, dn, d + 1))
    return None


def _nonempty_guard(fa: FA, loop_test: int, pool: str, v: str) -> Optional[str]:
    """A test before the loop (dominating it) whose other branch leaves the iteration and which compares the pool's
    length / the class count with zero."""
    cfg = fa.cfg
    for t_, lab in cfg.control_predicates(loop_test):
        nd = cfg.nodes[t_]
        if nd.kind != "test":
            continue
        term = fa.sym.term(nd.ast, t_)
        cond = term if lab else negate(term)
        # we are on the branch where 'len(pool) != 0' / 'count != 0' / 'len(pool) > 0' holds
        if cond[0] in ("ne", "lt"):
            names_ = {x[1] for x in leaves(cond) if x[0] == "var"} | {y.id for y in ast.walk(nd.ast) if isinstance(y, ast.Name)}
            if pool in names_ or any("count" in nm for nm in names_):
                return f"guard at line {nd.lineno}"
    return None


def _assert_only(fa: FA, p: str) -> bool:
    """Every read of parameter p is inside an assert statement or inside the test of an 'if' whose body consists of
    assert statements only."""
    fn = fa.fi.node
    ok_ids = set()
    for st in ast.walk(fn):
        if isinstance(st, ast.Assert):
            ok_ids |= {id(y) for y in ast.walk(st)}
        if isinstance(st, ast.If) and all(isinstance(b, ast.Assert) for b in st.body) and not st.orelse:
            ok_ids |= {id(y) for y in ast.walk(st.test)}
    reads = [y for y in ast.walk(fn) if isinstance(y, ast.Name) and y.id == p and isinstance(y.ctx, ast.Load)]
    return bool(reads) and all(id(y) in ok_ids for y in reads)


def _stored_only(fa: FA, p: str) -> bool:
    return False


def _falsy_empty(rep: Report, fa: FA, fi: FuncInfo):
    cfg = fa.cfg
    me = fa.self_name
    ps = set(fi.params()[1:])

    def root_of(e, at, depth=12):
        """the constructor argument / self attribute a (copied, defaulted) collection value comes from"""
        if depth <= 0 or e is None:
            return None
        if isinstance(e, ast.Name):
            if e.id in ps:
                return e.id  # (also when the constructor normalises it first: names -> ids, scalar -> list)
            defs = cfg.reaching().get(at, {}).get(e.id, ())
            roots = set()
            for d in defs:
                if cfg.nodes[d].kind == "entry":
                    roots.add(e.id if e.id in ps else None)
                    continue
                v = cfg.def_value(d, e.id)
                if isinstance(v, ast.Constant) and v.value is None:
                    continue
                roots.add(root_of(v, d, depth - 1) if v is not None else None)
            return next(iter(roots)) if len(roots) == 1 else None
        if isinstance(e, ast.Attribute) and isinstance(e.value, ast.Name) and e.value.id == me:
            vals = [(n_, v) for n_, var, v in fa.stores(f"{me}.") if var == f"{me}.{e.attr}" and v is not None
                    and not (isinstance(v, ast.Constant) and v.value is None)]
            roots = {root_of(v, n_, depth - 1) for n_, v in vals}
            roots.discard(None)
            return next(iter(roots)) if len(roots) == 1 else f"{me}.{e.attr}"
        if isinstance(e, ast.Call) and isinstance(e.func, ast.Name) and e.func.id in ("list", "set", "tuple", "sorted", "frozenset") \
                and len(e.args) == 1:
            return root_of(e.args[0], at, depth - 1)
        if isinstance(e, ast.BoolOp) and isinstance(e.op, ast.Or) and len(e.values) == 2 and (
                (isinstance(e.values[1], (ast.List, ast.Tuple, ast.Set)) and not e.values[1].elts) or
                (isinstance(e.values[1], ast.Dict) and not e.values[1].keys) or
                (isinstance(e.values[1], ast.Call) and isinstance(e.values[1].func, ast.Name) and not e.values[1].args)):
            return root_of(e.values[0], at, depth - 1)
        return None
    # roots whose absence is marked by None: branch tests 'X is None' / 'X is not None' (asserts do not choose a behaviour)
    none_marked = {}
    collection = set()
    for n, nd in cfg.nodes.items():
        if nd.kind != "test":
            continue
        test = nd.ast
        is_assert = isinstance(nd.owner, ast.Assert)
        for x in ast.walk(test):
            if isinstance(x, ast.Compare) and len(x.ops) == 1 and isinstance(x.ops[0], (ast.Is, ast.IsNot)) and \
                    isinstance(x.comparators[0], ast.Constant) and x.comparators[0].value is None and not is_assert:
                r = root_of(x.left, n)
                if r is not None:
                    none_marked.setdefault(r, nd.lineno)
            if isinstance(x, ast.Call) and isinstance(x.func, ast.Name) and x.func.id == "isinstance" and len(x.args) == 2:
                names_ = {y.id for y in ast.walk(x.args[1]) if isinstance(y, ast.Name)}
                if names_ & {"list", "tuple", "set", "frozenset", "dict"}:
                    r = root_of(x.args[0], n)
                    if r is not None:
                        collection.add(r)
    for n_, var, v in fa.stores():
        if isinstance(v, ast.Call) and isinstance(v.func, ast.Name) and v.func.id in ("set", "list", "tuple", "frozenset") and v.args:
            r = root_of(v.args[0], n_)
            if r is not None:
                collection.add(r)

    def truth_atoms(e):
        if isinstance(e, ast.BoolOp):
            for v in e.values:
                yield from truth_atoms(v)
        elif isinstance(e, ast.UnaryOp) and isinstance(e.op, ast.Not):
            yield from truth_atoms(e.operand)
        elif isinstance(e, (ast.Name, ast.Attribute)):
            yield e
        elif isinstance(e, ast.Compare) and len(e.ops) == 1 and isinstance(e.ops[0], (ast.Eq, ast.NotEq, ast.Gt)) and \
                isinstance(e.left, ast.Call) and isinstance(e.left.func, ast.Name) and e.left.func.id == "len" and e.left.args and \
                isinstance(e.comparators[0], ast.Constant) and e.comparators[0].value == 0:
            yield e.left.args[0]
    for n, nd in cfg.nodes.items():
        if nd.kind != "test" or isinstance(nd.owner, ast.Assert):
            continue
        for a in truth_atoms(nd.ast):
            r = root_of(a, n)
            if r is None or r not in none_marked or r not in collection:
                continue
            rep.bad("G7.falsy-empty", fi, f"truthiness:{r}", f"line {nd.lineno} branches on whether {ast.unparse(a)} is empty, while "
                    f"line {none_marked[r]} marks the absence of '{r}' by None: an explicitly given empty '{r}' is handled like "
                    f"'{r}' not given at all (an empty selection of allowed values keeps nothing, it does not lift the filter)",
                    line=nd.lineno, clause="C03.2")
    for r in sorted(set(none_marked) & collection):
        rep.ok("G7.falsy-empty", fi, f"none-marker:{r}", f"absence of '{r}' is decided by None-ness only", line=none_marked[r],
               clause="C03.2", nontrivial=False)
